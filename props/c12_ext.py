"""C12 (extension units, kinetics.cpp / read.cpp / cxxKinetics.cxx): the rate evaluation of calc_kinetic_reaction, the translation of
integrated moles into element amounts (calc_final_kinetic_reaction), limit_rates, the final reactant update and step bookkeeping of
rk_kinetics, the CVODE callbacks f and Jac, cvode_update_reactants, and the integrator options of KINETICS (defaults and read_kinetics).

Every unit executes the real loop body / region from an ARBITRARY state (Engine B) and compares call events and final terms with the
property statement: the change of a reactant is exactly what was integrated for it, the rest of the system receives stoichiometric
coefficient x moles, amounts never go negative, and every reactant is evaluated with its own m, m0, parameters and time step."""
from props.common import *
from props.c11_ext import (fast_twin, _parent_and_index, Agg, split, proved, same, evs, pos, reach, macro, loops_of, loop_where, state_head, I, R, _sel_named, frame_eqs, _top)
from vf.core import FAILED, DISCHARGED, UNDECIDED, Undecided

KIN = "src/phreeqcpp/kinetics.cpp"
RD = "src/phreeqcpp/read.cpp"
CXK = "src/phreeqcpp/cxxKinetics.cxx"


class PureExcept(set):
    """every callee is pure except the named ones (which rename the heap)"""
    def __init__(self, names):
        set.__init__(self)
        self.names = set(names)

    def __contains__(self, x):
        return x.split("::")[-1] not in self.names


def comp_of(ex, s, kin, idx, entry=True):
    """address of kin->Get_kinetics_comps()[idx]"""
    vec = tm.app("call:Get_kinetics_comps", (kin,), "P")
    data = tm.select((entry_arr(ex, s, ("f", "#vdata", "P")) if entry else ex.heap_arr(s, ("f", "#vdata", "P"))), vec)
    return tm.add(data, idx)


def on(es, recv, hy):
    return [e for e in es if e.recv is recv or same(hy, e.recv, recv)]


# ---------------------------------------------------------------------------------------------------- calc_kinetic_reaction
def unit_calc_kinetic_reaction(twin=False):
    """Phreeqc::calc_kinetic_reaction(kinetics_ptr, time_step), one pass of the reactant loop for an arbitrary i from an arbitrary state
    (the BASIC interpreter is the only callee that may change memory).  Contract: reactant i's rate program - the one found under ITS
    rate name - is run with ITS amount m, ITS initial amount m0, ITS parameter vector (and its length) and the time step of the call;
    the moles it SAVEs are added to reactant i's accumulated moles and to nothing else; m is not touched here; a program that SAVEs
    nothing stops the run instead of contributing a stale value (rate_moles is NaN before every run)."""
    q = "Phreeqc::calc_kinetic_reaction"
    fn = A.find_function(KIN, q)
    r = U.new_unit("C12.calc_kinetic_reaction.each_reactant_rated_with_its_own_m_m0_parameters_and_time_step", KIN, q, fn)
    ag = Agg(r)
    c = ctx(functional=("Get_kinetics_comps", "Get_d_params", "Get_rate_name"))
    c.pure = PureExcept({"basic_run"})
    c.snapshot = {"basic_run": [("rate_m", "R"), ("rate_m0", "R"), ("count_rate_p", "I"), ("rate_moles", "R"), ("rate_time", "R")]}
    k = loop_where(fn, KIN, lambda i, cnd, b: "basic_run(" in b, "reactant loop of calc_kinetic_reaction")[0]
    f, ex, its, info = U.run_loop_isolated(KIN, q, k, ctx=c)
    kin = tm.sym("L_kinetics_ptr", "P")
    i_ = tm.sym("iter_i", "I")
    n = 0
    for s in live(its, ("run", "cont")):
        hy = list(s.pc)
        comp = comp_of(ex, s, kin, i_ if not twin else i_ + 1)
        br = evs(s, "basic_run")
        sm = evs(s, "Set_moles")
        ag.put("accumulated_moles_of_reactant_i_set_exactly_once", len(sm) == 1 and same(hy, sm[0].recv, comp), sm)
        ag.put("amount_m_not_touched_here", not evs(s, "Set_m"), evs(s, "Set_m"))
        gm = on(evs(s, "Get_moles"), comp, hy)
        if not br:
            # rate not found: error exit, nothing added
            if len(sm) == 1:
                ag.eq("no_program_run->nothing_added", hy + [tm.eq(g.result, R(0)) for g in gm], sm[0].args[0], R(0))
            continue
        n += 1
        e = br[0]
        ag.put("program_run_once_per_reactant", len(br) == 1, br)
        rs = evs(s, "rate_search")
        rn = tm.app("call:Get_rate_name", (comp,), "P")
        okn = len(rs) == 1 and rn in tm.subterms(rs[0].args[0])
        ag.put("program_looked_up_under_the_reactants_own_rate_name", okn, rs)
        gM, gM0 = on(evs(s, "Get_m"), comp, hy), on(evs(s, "Get_m0"), comp, hy)
        ag.put("run_with_its_own_m", bool(gM) and e.snap["rate_m"] is gM[-1].result, (e.snap["rate_m"], gM))
        ag.put("run_with_its_own_m0", bool(gM0) and e.snap["rate_m0"] is gM0[-1].result, (e.snap["rate_m0"], gM0))
        dp = tm.app("call:Get_d_params", (comp,), "P")
        asg = [x for x in U.iter_events(s)[:pos(s, e)] if x.name.endswith("operator=") and x.recv is tm.app("fld:rate_p", (THIS,), "P")]
        ag.put("run_with_its_own_parameter_vector", bool(asg) and asg[-1].args[0] is dp, asg)
        ag.put("parameter_count_is_the_length_of_that_vector", dp in tm.subterms(e.snap["count_rate_p"]) and "#vsize" in repr(e.snap["count_rate_p"]), e.snap["count_rate_p"])
        nan = evs(s, "__builtin_nanf") + evs(s, "nan") + evs(s, "__builtin_nan")
        ag.put("saved_moles_reset_to_NaN_before_the_run", bool(nan) and e.snap["rate_moles"] in [x.result for x in nan] or (bool(nan) and any(x.result in tm.subterms(e.snap["rate_moles"]) for x in nan)), e.snap["rate_moles"])
        # the program: line/var/loop bases of the SAME rate record j that rate_search returned
        jv = None
        if rs:
            ja = rs[0].args[1]
            jv = [x for x in tm.subterms(e.args[1]) if x.op == "select" and x.args[1] == (ja, I(0))]
        bases = []
        for a_, nm in zip(e.args[1:4], ("linebase", "varbase", "loopbase")):
            ok = a_.op == "select" and ("." + nm + ":") in a_.args[0].args[0]
            bases.append(a_.args[1] if ok else None)
            ag.put("program_%s_passed_in_its_position" % nm, ok, a_)
        ag.put("all_three_program_parts_from_the_rate_record_rate_search_returned(rates[j])", None not in bases and bases[0] == bases[1] == bases[2] and bool(jv), (bases, jv))
        # what is added (callers zero the accumulated moles before each evaluation: demanded under that entry condition)
        after = _sel_named(sm[0].args[0], "rate_moles") if len(sm) == 1 else []
        isn = [x for x in evs(s, "isnan") if pos(s, x) > pos(s, e)]
        zero = [tm.eq(g.result, R(0)) for g in gm]
        tested = bool(isn) and isn[0].args[0].op == "select" and ".rate_moles:" in isn[0].args[0].args[0].args[0] and isn[0].result.sort == "B"
        ag.put("a_run_that_SAVEd_nothing_is_detected(isnan_test_of_rate_moles_after_the_run)", tested, isn)
        if len(sm) == 1 and tested:
            for hy1 in split(hy + zero, [tm.eq(isn[0].result, tm.TRUE)]):
                if proved(hy1, isn[0].result):
                    ag.eq("nothing_SAVEd->nothing_added", hy1, sm[0].args[0], R(0))
                    em = [x for x in evs(s, "error_msg") if pos(s, x) > pos(s, e)]
                    ag.put("nothing_SAVEd->run_is_stopped", bool(em) and any((tm.isnum(x.args[1]) and x.args[1].args[0] == 1) or x.args[1] is tm.TRUE for x in em), em)
                else:
                    ag.eq("moles_added_to_reactant_i==what_its_program_SAVEd(rate_moles_after_the_run,no_other_factor)", hy1, sm[0].args[0], isn[0].args[0])
    reach(r, "program_run", n, 2)
    # time step handed to the programs
    st = [x for x in _top(fn) if x.get("kind") == "BinaryOperator" and x.get("opcode") == "=" and text_of(KIN, x["inner"][0]) == "rate_time"]
    if len(st) != 1:
        r.add("time_step.assignment_found_before_the_loop", FAILED if not st else UNDECIDED, "ast-scan", 0, "%d top-level assignments to rate_time" % len(st), kind="structural")
    else:
        f, ex, fin, info = region(KIN, q, st, ctx())
        for s in live(fin):
            ag.eq("time_step.rate_time==time_step_of_the_call", list(s.pc), fld(ex, s, "rate_time", "R"), tm.sym("L_time_step", "R"))
        lp = loops_of(fn)[k]
        ag.put("time_step.set_before_the_reactant_loop", any(x is st[0] for x in _top(fn)) and _top(fn).index(st[0]) < next(j for j, x in enumerate(_top(fn)) if x is lp), "")
    ag.flush()
    r.assumptions += ["basic_run is the only callee that writes memory in a pass (it delivers rate_moles through SAVE); basic_compile, rate_search, accessors are read-only for the members inspected",
                      "kinetics_ptr->Get_kinetics_comps() denotes one vector during the pass; PBasic reads rate_m, rate_m0, rate_p, count_rate_p, rate_time (M, M0, PARM, TIME) - C17 units",
                      "doubles as reals; NaN is an opaque value produced by __builtin_nanf", "entry condition of a pass: the accumulated moles of the reactant are 0 (every caller zeroes them before the evaluation)"]
    return r


UNITS = [
    ("C12.calc_kinetic_reaction.each_reactant_rated_with_its_own_m_m0_parameters_and_time_step", unit_calc_kinetic_reaction),
]


# ---------------------------------------------------------------------------------------- calc_final_kinetic_reaction
def unit_final_reaction_amounts(twin=False):
    """Phreeqc::calc_final_kinetic_reaction(kinetics_ptr): one pass of the reactant loop and one pass of each formula loop, arbitrary
    state.  Contract (what the rest of the system receives is stoichiometric coefficient x integrated moles of THAT reactant):
      * the element list is restarted for every reactant (count_elts = 0, paren_count = 0) - nothing leaks from the previous one;
      * coef = the reactant's own accumulated moles (after the cap at the amount present); a reactant with coef == 0 contributes nothing;
      * every formula entry (name, c) contributes coef*c, as a phase (add_elt_list of that phase's elements) or as a species formula
        (get_elts_in_species of that name) - never both; a related exchanger / surface contributes -coef*phase_proportion of its formula;
      * the result is stored as the reactant's moles_of_reaction and added ONCE, with factor 1, to the totals of the kinetics record, which
        were cleared before the first reactant."""
    q = "Phreeqc::calc_final_kinetic_reaction"
    fn = A.find_function(KIN, q)
    r = U.new_unit("C12.calc_final_kinetic_reaction.system_receives_coefficient_times_moles_of_each_reactant", KIN, q, fn)
    ag = Agg(r)
    c = lambda: ctx(functional=("Get_kinetics_comps", "Get_namecoef"))
    kin = tm.sym("L_kinetics_ptr", "P")
    kO = loop_where(fn, KIN, lambda i, cnd, b: "add_extensive(" in b, "reactant loop of calc_final_kinetic_reaction")[0]
    cl = c(); cl.log_stores = True
    f, ex, its, info = U.run_loop_isolated(KIN, q, kO, ctx=cl)
    i_ = tm.sym("iter_i", "I")
    nz = nn = 0
    for s in live(its, ("run", "cont")):
        hy = list(s.pc)
        comp = comp_of(ex, s, kin, i_)
        for nm in ("count_elts", "paren_count"):
            st = [e for e in U.iter_events(s) if e.name == "store" and e.recv is THIS and e.args[0] is tm.strc(nm)]
            users = [pos(s, e) for e in U.iter_events(s) if e.name.split("::")[-1] in ("add_elt_list", "get_elts_in_species", "elt_list_NameDouble", "Get_namecoef")]
            ok = bool(st) and tm.isnum(st[0].args[1]) and st[0].args[1].args[0] == 0 and (not users or pos(s, st[0]) < min(users))
            ag.put("element_list_restarted_for_every_reactant(%s=0_before_anything_is_listed)" % nm, ok, st[:1])
        gm = on(evs(s, "Get_moles"), comp, hy)
        ae = evs(s, "add_extensive")
        smr = evs(s, "Set_moles_of_reaction")
        if not gm:
            ag.put("coefficient_is_the_reactants_own_moles", False, evs(s, "Get_moles")); continue
        coef = gm[-1].result
        for hy1 in split(hy, [tm.eq(coef, R(0))]):
            if proved(hy1, tm.eq(coef, R(0))):
                nz += 1
                ag.put("zero_moles->contributes_nothing", not ae and not smr, ae + smr)
                continue
            nn += 1
            ok = len(smr) == 1 and same(hy1, smr[0].recv, comp) and any(x.result is smr[0].args[0] for x in evs(s, "elt_list_NameDouble"))
            ag.put("element_amounts_stored_as_moles_of_reaction_of_reactant_i", ok, smr)
            gt = [x for x in evs(s, "Get_totals") if x.recv is kin]
            gr = on(evs(s, "Get_moles_of_reaction"), comp, hy1)
            ok2 = len(ae) == 1 and bool(gt) and ae[0].recv is gt[-1].result and bool(gr) and ae[0].args[0] is gr[-1].result and same(hy1, ae[0].args[1], R(1) if not twin else R(2))
            ag.put("added_once_with_factor_1_to_the_totals_of_this_kinetics_record", ok2, ae)
            if ok and ok2:
                ag.put("stored_before_added", pos(s, smr[0]) < pos(s, ae[0]), "")
    reach(r, "reactant_pass.nonzero", nn, 2); reach(r, "reactant_pass.zero", nz)
    # totals cleared before the loop
    body = A.body_of(fn).get("inner", [])
    flat = []
    for x in body:
        flat.append(x)
        y = x
        while y.get("kind") == "LabelStmt":
            y = y["inner"][-1]; flat.append(y)
    ic = next((j for j, x in enumerate(flat) if text_of(KIN, x).rstrip(";") == "kinetics_ptr->Get_totals().clear()"), None)
    il = next((j for j, x in enumerate(flat) if x is loops_of(fn)[kO]), None)
    r.add("totals_of_the_record_cleared_before_the_first_reactant", DISCHARGED if ic is not None and il is not None and ic < il else FAILED, "ast-scan", 0, "clear at %s, loop at %s" % (ic, il), kind="establishment")
    # formula entries
    kF = loop_where(fn, KIN, lambda i, cnd, b: "phase_bsearch(" in b and "add_elt_list(" in b and "for(" not in b, "formula loop")[0]
    f, ex, its, info = U.run_loop_isolated(KIN, q, kF, ctx=c())
    nf = 0
    for s in live(its, ("run", "cont")):
        hy = list(s.pc)
        nf += 1
        node = tm.app("mnode", (tm.sym("iter_it", "P"),), "P")
        c1 = tm.select(entry_arr(ex, s, ("f", "second", "R")), node)
        want = tm.sym("L_coef", "R") * c1
        ael, ges, pb = evs(s, "add_elt_list"), evs(s, "get_elts_in_species"), evs(s, "phase_bsearch")
        ag.put("formula_entry.exactly_one_contribution", len(ael) + len(ges) == 1, ael + ges)
        nmref = tm.select(entry_arr(ex, s, ("f", "first", "S")), node)
        ag.put("formula_entry.looked_up_as_a_phase_by_its_own_name", len(pb) == 1 and nmref in tm.subterms(pb[0].args[0]), pb)
        for e in ael:
            ag.eq("formula_entry.phase:amount==coef*coefficient", hy, e.args[1], want)
            ag.put("formula_entry.phase:elements_of_the_phase_found", bool(pb) and pb[0].result in tm.subterms(e.args[0]) and proved(hy, tm.not_(tm.eq(pb[0].result, tm.NULL))), e)
        for e in ges:
            ag.eq("formula_entry.species:amount==coef*coefficient", hy, e.args[1], want)
            ag.put("formula_entry.species:only_when_no_phase_has_that_name", bool(pb) and proved(hy, tm.eq(pb[0].result, tm.NULL)), e)
    reach(r, "formula_pass", nf, 2)
    # related exchanger / surface
    for label, marker in (("exchanger", "Get_exchange_comps()[j]"), ("surface", "surface_comp_ptr")):
        ks = loop_where(fn, KIN, lambda i, cnd, b: marker in b and "get_elts_in_species(" in b, "related %s loop" % label)
        f, ex, its, info = U.run_loop_isolated(KIN, q, ks[-1], ctx=c())
        m = 0
        for s in live(its, ("run", "cont")):
            for e in evs(s, "get_elts_in_species"):
                m += 1
                pp = [x for x in evs(s, "Get_phase_proportion") if x.result in tm.subterms(e.args[1])]
                ag.put("related_%s.amount_uses_its_phase_proportion" % label, len(pp) == 1, e)
                if pp:
                    ag.eq("related_%s.amount==-coef*phase_proportion" % label, list(s.pc), e.args[1], -(tm.sym("L_coef", "R")) * pp[0].result)
        reach(r, "related_%s_pass" % label, m)
    ag.flush()
    r.assumptions += ["add_elt_list / get_elts_in_species append (element, amount*stoichiometry) to elt_list; elt_list_NameDouble turns the list since the last count_elts = 0 into a name->amount map (C02/C10 units)",
                      "the cap `moles > m_temp[i]` is under unit C12.kinetics.reacted_moles_capped_at_amount_present; limit_rates under its own unit",
                      "L_coef in the formula loops is the reactant's moles read in the enclosing pass (checked there)"]
    return r


UNITS += [("C12.calc_final_kinetic_reaction.system_receives_coefficient_times_moles_of_each_reactant", unit_final_reaction_amounts)]


# ------------------------------------------------------------------------------------------------------------ limit_rates
def unit_limit_rates(twin=False):
    """Phreeqc::limit_rates(kinetics_ptr): when an element that is (almost) absent from the solution is consumed on balance, the
    consuming reactants are scaled so that consumption equals supply.  Passes of its loops and the factor statement, arbitrary state.
    Contract: off unless the limiter is enabled; an element is selected only if its net kinetic amount is negative; for a selected
    element the supply (entries >= 0) and the consumption (entries < 0) of all reactants are summed separately, each entry of reactant
    i's moles_of_reaction for THAT element counted once; factor*consumption == -supply (for supply >= 0 > consumption, 0 <= factor);
    only reactants that consume the element have their accumulated moles multiplied by the factor, nothing else is changed."""
    q = "Phreeqc::limit_rates"
    fn = A.find_function(KIN, q)
    r = U.new_unit("C12.limit_rates.consumption_scaled_to_supply_only_for_consumers", KIN, q, fn)
    ag = Agg(r)
    mk = lambda: ctx(functional=("Get_kinetics_comps", "Get_moles_of_reaction", "Get_totals", "total"))
    kin = tm.sym("L_kinetics_ptr", "P")
    i_ = tm.sym("iter_i", "I")
    # selection
    kS = loop_where(fn, KIN, lambda i, cnd, b: "push_back(" in b, "selection loop of limit_rates")[0]
    f, ex, its, info = U.run_loop_isolated(KIN, q, kS, ctx=mk())
    ns = 0
    for s in live(its, ("run", "cont")):
        node = tm.app("mnode", (tm.sym("iter_it", "P"),), "P")
        net = tm.select(entry_arr(ex, s, ("f", "second", "R")), node)
        pb = [e for e in U.iter_events(s) if e.name.endswith("push_back")]
        if pb:
            ns += 1
            ag.valid("selected_only_if_net_amount_of_the_element_is_negative", list(s.pc), tm.lt(net, R(0)) if not twin else tm.lt(R(0), net))
            tt = evs(s, "total")
            nm = tm.select(entry_arr(ex, s, ("f", "first", "S")), node)
            ag.put("selected_element_is_the_entry's_own_name_and_its_dissolved_total_was_consulted", len(pb) == 1 and any(nm in tm.subterms(a) for a in pb[0].args) and bool(tt) and nm in tm.subterms(tt[0].args[0]), pb + tt)
    reach(r, "selection", ns)
    # sums
    kP = loop_where(fn, KIN, lambda i, cnd, b: "positive_rates+=" in b and "for(" not in b, "summation loop of limit_rates")[0]
    f, ex, its, info = U.run_loop_isolated(KIN, q, kP, ctx=mk())
    np_ = 0
    for s in live(its, ("run", "cont")):
        hy = list(s.pc)
        comp = comp_of(ex, s, kin, i_)
        mor = tm.app("call:Get_moles_of_reaction", (comp,), "P")
        elt = [x for x in tm.free_syms(tm.and_(*hy)) if "L_elt" in repr(x)] if hy else []
        dp = local(info, s, "positive_rates") - tm.sym("iter_positive_rates", "R")
        dn = local(info, s, "negative_rates") - tm.sym("iter_negative_rates", "R")
        has = [x for x in tm.subterms(tm.and_(*hy)) if x.op == "select" and x.args[0].op == "sym" and "#mhas" in x.args[0].args[0] and x.args[1][0] is mor]
        val = [x for x in tm.subterms(tm.and_(*hy)) if x.op == "select" and x.args[0].op == "sym" and "#mval" in x.args[0].args[0] and x.args[1][0] is mor]
        if not has:
            ag.put("sums.entry_of_reactant_i_for_the_element_consulted", False, hy); continue
        np_ += 1
        if proved(hy, tm.not_(has[0])):
            ag.eq("sums.reactant_without_the_element_adds_nothing", hy, dp + dn, R(0))
            continue
        if not val:
            ag.put("sums.entry_value_read", False, hy); continue
        v = val[0]
        ag.put("sums.entry_is_looked_up_under_the_selected_element", has[0].args[1][1] is val[0].args[1][1] and "elt" in repr(has[0].args[1][1]), has[0].args[1])
        ag.eq("sums.each_entry_counted_once(supply+consumption_increase_by_the_entry)", hy, dp + dn, v)
        ag.valid("sums.supply_gets_only_entries>=0_and_consumption_only_entries<0", hy, tm.and_(tm.le(R(0), dp), tm.le(dn, R(0))))
    reach(r, "sums", np_, 3)
    # factor
    st = [x for x in A.walk(fn) if x.get("kind") == "IfStmt" and "limiter_fraction=" in text_of(KIN, x["inner"][1])]
    st = [x for x in st if not any(y is not x and any(z is x for z in A.walk(y)) for y in st)]
    if len(st) != 1:
        raise Undecided("statement that computes limiter_fraction not found")
    f, ex, fin, info = region(KIN, q, st, ctx())
    nf = 0
    for s in live(fin):
        fr = local(info, s, "limiter_fraction")
        if fr is tm.sym("L_limiter_fraction", "R"):
            continue
        nf += 1
        P_, N_ = tm.sym("L_positive_rates", "R"), tm.sym("L_negative_rates", "R")
        hy = list(s.pc) + [tm.le(R(0), P_)]
        ag.valid("factor.computed_only_when_there_is_consumption(negative_rates<0)", list(s.pc), tm.lt(N_, R(0)))
        ag.valid("factor.scaled_consumption_equals_supply(factor*consumption==-supply)", hy, tm.eq(fr * N_, -P_))
        ag.valid("factor.non-negative", hy, tm.le(R(0), fr))
    reach(r, "factor", nf)
    # scaling
    kL = loop_where(fn, KIN, lambda i, cnd, b: "Set_moles(" in b and "limiter_fraction" in b and "for(" not in b, "scaling loop of limit_rates")[0]
    f, ex, its, info = U.run_loop_isolated(KIN, q, kL, ctx=mk())
    nl = 0
    for s in live(its, ("run", "cont")):
        hy = list(s.pc)
        comp = comp_of(ex, s, kin, i_)
        mor = tm.app("call:Get_moles_of_reaction", (comp,), "P")
        sm = evs(s, "Set_moles")
        val = [x for x in tm.subterms(tm.and_(*hy)) if x.op == "select" and x.args[0].op == "sym" and "#mval" in x.args[0].args[0] and x.args[1][0] is mor]
        has = [x for x in tm.subterms(tm.and_(*hy)) if x.op == "select" and x.args[0].op == "sym" and "#mhas" in x.args[0].args[0] and x.args[1][0] is mor]
        nl += 1
        consumer = bool(has) and bool(val) and proved(hy, tm.and_(has[0], tm.lt(val[0], R(0))))
        if consumer:
            gm = on(evs(s, "Get_moles"), comp, hy)
            ag.put("scaling.consumer:moles_of_reactant_i_multiplied_by_the_factor", len(sm) == 1 and same(hy, sm[0].recv, comp) and bool(gm), sm)
            if len(sm) == 1 and gm:
                ag.eq("scaling.consumer:new_moles==old*factor", hy, sm[0].args[0], gm[-1].result * tm.sym("L_limiter_fraction", "R"))
        else:
            decided = (bool(has) and proved(hy, tm.not_(has[0]))) or (bool(val) and proved(hy, tm.le(R(0), val[0])))
            ag.put("scaling.non-consumer_left_alone", decided and not sm and not evs(s, "Set_m"), (hy, sm))
    reach(r, "scaling", nl, 3)
    # switch
    f0, ex0, fin0, info0 = region(KIN, q, [_top(fn)[0]], ctx())
    for s in live(fin0, ("run", "ret")):
        lim = fld0(ex0, s, "use_kinetics_limiter", "B")
        if s.status == "ret":
            ag.put("off_unless_enabled:returns_false_without_touching_anything", proved(list(s.pc), tm.not_(lim)) or proved(list(s.pc), tm.eq(lim, tm.FALSE)), s.pc)
    ag.flush()
    r.assumptions += ["kinetics_comp_ptr->Get_moles_of_reaction() denotes one map during a pass; total(name) is the dissolved total of the element", "selection thresholds (1e-10 mol dissolved, -1e-20 net) are the code's and not pinned beyond `net < 0`",
                      "supply >= 0 follows from the summation contract; doubles as reals; fabs by cases", "the restart of calc_final_kinetic_reaction after limiting (at most twice) is not under this contract"]
    return r


UNITS += [("C12.limit_rates.consumption_scaled_to_supply_only_for_consumers", unit_limit_rates)]


# ------------------------------------------------------------------------------------ rk_kinetics: updates and step control
def _outer(cands):
    return [x for x in cands if not any(y is not x and any(z is x for z in A.walk(y)) for y in cands)]


def unit_rk_update_and_steps(twin=False):
    """Phreeqc::rk_kinetics(i, kin_time, use_mix, nsaver, step_fraction): the reactant updates and the step bookkeeping, as loop passes and
    regions from an arbitrary state.  Contract:
      * every reactant update sets m of reactant j to (amount at the start of the sub-step, m_temp[j]) minus (the moles integrated for
        reactant j): m decreases by exactly what is handed to the solution; after a final update amounts below 1e-30 (in particular
        negative ones) are set to 0 and the accumulated moles are reset to 0;
      * step control: an accepted step (error <= 1) advances the integrated time by exactly the step taken, counts as ok, is preceded by
        the translation of the moles (calc_final_kinetic_reaction), a re-equilibration of cell i with kinetics into cell i, and is saved;
        the next step never exceeds the remaining time (h <= kin_time - h_sum), so the integration ends exactly at kin_time; a rejected
        step (error > 1) leaves the integrated time alone, counts as bad and shrinks the step (first step: h*safety/error);
        too many moles: h = safety*h/(1+reduction) <= h; the first step is kin_time (kin_time/step_divide for -step_divide > 1);
      * options: -runge_kutta is clamped to 1..3 or 6; more than -bad_step_max rejected steps stop the run;
        -step_divide < 1 is the largest reaction per step."""
    q = "Phreeqc::rk_kinetics"
    fn = A.find_function(KIN, q)
    r = U.new_unit("C12.rk_kinetics.m_decreases_by_the_integrated_moles_and_time_advances_by_the_accepted_steps", KIN, q, fn)
    ag = Agg(r)
    kin = tm.sym("L_kinetics_ptr", "P")
    j_ = tm.sym("iter_j", "I")
    ups = loop_where(fn, KIN, lambda i, cnd, b: "Set_m(" in b and "for(" not in b and "while(" not in b, "reactant update loops of rk_kinetics")
    nfin = nst = 0
    for k in ups:
        f, ex, its, info = U.run_loop_isolated(KIN, q, k, ctx=ctx(functional=("Get_kinetics_comps",)))
        for s in live(its, ("run", "cont")):
            hy = list(s.pc)
            comp = comp_of(ex, s, kin, j_)
            sm_ = evs(s, "Set_m")
            if not sm_:
                continue
            mt = tm.select(entry_arr(ex, s, ("m", "R")), tm.select(entry_arr(ex, s, ("f", "#vdata", "P")), tm.app("fld:m_temp", (THIS,), "P")), j_)
            ag.put("update.only_reactant_j_is_written", all(same(hy, e.recv, comp) for e in sm_ + evs(s, "Set_moles")), sm_)
            first = sm_[0]
            gm = [g for g in on(evs(s, "Get_moles"), comp, hy) if pos(s, g) < pos(s, first)]
            restore = first.args[0] is mt          # the re-try branch restores m to m_temp[j]
            if restore:
                ag.put("retry.m_restored_to_the_amount_at_the_start_of_the_sub-step", True, "")
                continue
            if not gm:
                ag.put("update.m_computed_from_the_integrated_moles_of_the_same_reactant", False, first); continue
            ag.eq("update.m==m_temp[j]-moles_of_reactant_j", hy, first.args[0], mt - gm[-1].result if not twin else mt + gm[-1].result)
            tests = [g for g in on(evs(s, "Get_m"), comp, hy) if pos(s, g) > pos(s, first)]
            smo = evs(s, "Set_moles")
            par, idx = _parent_and_index(fn, loops_of(fn)[k])
            prev = text_of(KIN, par["inner"][idx - 1]) if par is not None and idx else ""
            if prev.startswith("calc_final_kinetic_reaction("):       # the update that follows the translation of the step's final moles: its result is what gets saved
                nfin += 1
                ag.put("final.result_is_tested_for_(almost)_nothing_left", len(tests) == 1, tests)
                if len(tests) == 1:
                    for hy1 in split(hy, [tm.lt(tests[0].result, R(0))]):
                        if proved(hy1, tm.lt(tests[0].result, R(0))):
                            ag.put("final.negative_amount_is_reset_to_zero", len(sm_) == 2 and tm.isnum(sm_[1].args[0]) and sm_[1].args[0].args[0] == 0, sm_)
                    for hy1 in split(hy, [tm.le(tm.num("1e-30"), tests[0].result)]):
                        if proved(hy1, tm.le(tm.num("1e-30"), tests[0].result)):
                            ag.put("final.amount_above_1e-30_is_kept", len(sm_) == 1, sm_)
                ag.put("final.accumulated_moles_reset_for_the_next_evaluation", bool(smo) and tm.isnum(smo[-1].args[0]) and smo[-1].args[0].args[0] == 0 and pos(s, smo[-1]) > pos(s, first), smo)
            else:
                nst += 1
                ag.put("stage.accumulated_moles_reset_before_the_next_rate_evaluation", bool(smo) and tm.isnum(smo[-1].args[0]) and smo[-1].args[0].args[0] == 0, smo)
    reach(r, "final_updates", nfin, 4); reach(r, "stage_updates", nst, 5)
    # ---- accept / reject
    NOMIX, TRUE_, MB = macro("NOMIX"), macro("TRUE"), macro("MASS_BALANCE")
    import re as _re
    st = _outer([x for x in A.walk(fn) if x.get("kind") == "IfStmt" and len(x["inner"]) > 2 and _re.search(r"h_sum\+?=", text_of(KIN, x["inner"][2])) and "saver()" in text_of(KIN, x["inner"][2])
                 and "saver()" not in text_of(KIN, x["inner"][1]) and not _re.search(r"h_sum\+?=", text_of(KIN, x["inner"][1]))])
    if len(st) != 1:
        raise Undecided("accept/reject statement of rk_kinetics not found (%d)" % len(st))
    f, ex, fin, info = region(KIN, q, st, ctx(functional=("Get_kinetics_comps",)))
    L = lambda n: tm.sym("L_" + n, "R" if n in ("h", "h_sum", "error_max", "kin_time", "safety", "moles_reduction") else "I")
    nacc = nrej = 0
    for s in [x for x in fin if B.z3_sat(list(x.pc)) != "unsat"]:
        hs, h, ok_, bad = local(info, s, "h_sum"), local(info, s, "h"), local(info, s, "step_ok"), local(info, s, "step_bad")
        for hy in split(list(s.pc), [tm.lt(R(1), L("error_max"))]):
            if proved(hy, tm.lt(R(1), L("error_max"))):
                nrej += 1
                ag.eq("rejected.integrated_time_unchanged", hy, hs, L("h_sum"))
                ag.eq("rejected.counted_as_bad", hy, bad, L("step_bad") + 1)
                ag.eq("rejected.not_counted_as_ok", hy, ok_, L("step_ok"))
                ag.eq("rejected.retry_flag_set", hy, local(info, s, "l_bad"), I(TRUE_))
                ag.eq("rejected.old_step_remembered_for_rescaling_the_stored_rates", hy, local(info, s, "h_old"), L("h"))
                for hy1 in split(hy, [tm.eq(L("step_ok"), I(0))]):
                    if proved(hy1, tm.eq(L("step_ok"), I(0))):
                        ag.eq("rejected.first_step:h==h*safety/error", hy1, h, L("h") * L("safety") / L("error_max"))
                        ag.valid("rejected.first_step:step_shrinks", hy1 + [tm.le(R(0), L("h")), tm.lt(R(0), L("safety")), tm.le(L("safety"), R(1))], tm.le(h, L("h")))
                continue
            if s.status.startswith("goto"):
                ag.eq("mass_balance_failure_after_accepted_error.integrated_time_unchanged", hy, hs, L("h_sum"))
                continue
            nacc += 1
            ag.eq("accepted.integrated_time_advances_by_exactly_the_step_taken", hy, hs, L("h_sum") + L("h") if not twin else L("h_sum") + h)
            ag.eq("accepted.counted_as_ok", hy, ok_, L("step_ok") + 1)
            ag.eq("accepted.not_counted_as_bad", hy, bad, L("step_bad"))
            for hy1 in split(hy, [tm.lt(hs, L("kin_time"))]):
                if proved(hy1, tm.lt(hs, L("kin_time"))):
                    ag.valid("accepted.next_step_does_not_overshoot(h<=kin_time-h_sum)", hy1, tm.le(h, L("kin_time") - hs))
            E = [e for e in s.events if e.name.split("::")[-1] in ("calc_final_kinetic_reaction", "set_and_run_wrapper", "saver", "calc_kinetic_reaction")]
            names = [e.name.split("::")[-1] for e in E]
            okseq = names[:2] == ["calc_final_kinetic_reaction", "set_and_run_wrapper"] and "saver" in names and names.index("saver") > 1
            ag.put("accepted.moles_translated_then_cell_re-equilibrated_then_saved", okseq, names)
            if okseq:
                w = E[1]
                ag.put("accepted.re-equilibration_is(cell_i,NOMIX,kinetics_on,into_cell_i,no_reaction_step)", w.args[0] is tm.sym("L_i", "I") and same(hy, w.args[1], I(NOMIX)) and same(hy, w.args[2], I(TRUE_)) and w.args[3] is tm.sym("L_i", "I") and same(hy, w.args[4], R(0)), w)
                ag.valid("accepted.only_if_the_re-equilibration_did_not_fail_the_mass_balance", hy, tm.not_(tm.eq(w.result, I(MB))))
    reach(r, "accepted", nacc, 4); reach(r, "rejected", nrej, 2)
    # ---- too many moles
    st = _outer([x for x in A.walk(fn) if x.get("kind") == "IfStmt" and "(1.0+moles_reduction)" in text_of(KIN, x["inner"][1])])
    if len(st) != 1:
        r.add("moles_too_large.statement_found", UNDECIDED, "ast-scan", 0, "%d" % len(st), kind="structural")
    else:
        f, ex, fin, info = region(KIN, q, st, ctx())
        for s in live(fin):
            h = local(info, s, "h")
            for hy in split(list(s.pc), [tm.lt(R(1), L("moles_reduction"))]):
                if proved(hy, tm.lt(R(1), L("moles_reduction"))):
                    ag.eq("moles_too_large.h==safety*h/(1+reduction)", hy, h, L("safety") * L("h") / (R(1) + L("moles_reduction")))
                    ag.valid("moles_too_large.step_shrinks", hy + [tm.le(R(0), L("h")), tm.lt(R(0), L("safety")), tm.le(L("safety"), R(1))], tm.le(h, L("h")))
                    ag.eq("moles_too_large.retry_flag_set_and_reduction_reset", hy, local(info, s, "l_bad") + local(info, s, "moles_reduction"), I(TRUE_) + R(1))
                else:
                    ag.eq("no_reduction.step_unchanged", hy, h, L("h"))
    # ---- safety constant and first step
    top = _top(fn)
    txt = [text_of(KIN, x) for x in top]
    a = next((k for k, t in enumerate(txt) if t.startswith("h_sum=")), None)
    b = next((k for k, x in enumerate(top) if x.get("kind") in ("WhileStmt",)), None)
    if a is None or b is None or a >= b:
        r.add("first_step.initialisation_found", UNDECIDED, "ast-scan", 0, "", kind="structural")
    else:
        c0 = ctx(functional=("Get_step_divide", "Get_rk", "Get_bad_step_max"))
        f, ex, fin, info = region(KIN, q, [x for x in top[a:b] if x.get("kind") in ("BinaryOperator", "IfStmt")], c0)
        n0 = 0
        for s in live(fin):
            n0 += 1
            sd = tm.app("call:Get_step_divide", (tm.sym("L_kinetics_ptr", "P"),), "R")
            hy0 = list(s.pc)
            ag.eq("first_step.integrated_time_starts_at_0", hy0, local(info, s, "h_sum"), R(0))
            ag.valid("first_step.safety_factor_in_(0,1]", hy0, tm.and_(tm.lt(R(0), local(info, s, "safety")), tm.le(local(info, s, "safety"), R(1))))
            gsd = [x for x in tm.subterms(tm.and_(*hy0)) if x.op == "app" and x.args[0] == "call:Get_step_divide"] if hy0 else []
            sd = gsd[0] if gsd else sd
            for hy in split(hy0, [tm.lt(R(1), sd), tm.lt(sd, R(1))]):
                if proved(hy, tm.lt(R(1), sd)):
                    ag.eq("first_step.-step_divide>1:h==kin_time/step_divide", hy, local(info, s, "h"), L("kin_time") / sd)
                else:
                    ag.eq("first_step.h==kin_time", hy, local(info, s, "h"), L("kin_time"))
                if proved(hy, tm.lt(sd, R(1))):
                    ag.eq("first_step.-step_divide<1:largest_reaction_per_step==step_divide", hy, local(info, s, "moles_max"), sd)
                ag.valid("first_step.does_not_exceed_the_requested_time", hy + [tm.le(R(0), L("kin_time"))], tm.le(local(info, s, "h"), L("kin_time")))
            # -runge_kutta clamp
            grk = [x for x in tm.subterms(tm.and_(*hy0)) if x.op == "app" and x.args[0] == "call:Get_rk"] if hy0 else []
            srk = [e for e in s.events if e.name.endswith("Set_rk")]
            if grk:
                for hy in split(hy0, [tm.lt(grk[0], I(1)), tm.lt(I(3), grk[0])]):
                    if proved(hy, tm.lt(grk[0], I(1))):
                        ag.put("-runge_kutta<1->1", len(srk) == 1 and same(hy, srk[0].args[0], I(1)), srk)
                    elif proved(hy, tm.lt(I(3), grk[0])):
                        ag.put("-runge_kutta>3->6", len(srk) == 1 and same(hy, srk[0].args[0], I(6)), srk)
                    else:
                        ag.put("-runge_kutta_1..3_kept", not srk, srk)
            else:
                ag.put("-runge_kutta.order_read", False, hy0)
        reach(r, "first_step", n0, 2)
    # ---- -bad_step_max
    st = _outer([x for x in A.walk(fn) if x.get("kind") == "IfStmt" and "BadRKsteps" in text_of(KIN, x["inner"][1]).replace('"', "").replace(" ", "")])
    if len(st) != 1:
        r.add("-bad_step_max.statement_found", UNDECIDED, "ast-scan", 0, "%d" % len(st), kind="structural")
    else:
        f, ex, fin, info = region(KIN, q, st, ctx(functional=("Get_bad_step_max",)))
        for s in live(fin):
            bm = tm.app("call:Get_bad_step_max", (tm.sym("L_kinetics_ptr", "P"),), "I")
            em = [e for e in s.events if e.name.endswith("error_msg")]
            stop = bool(em) and any((tm.isnum(e.args[1]) and e.args[1].args[0] == 1) or e.args[1] is tm.TRUE for e in em)
            goal = tm.lt(bm, L("step_bad"))
            ag.valid("-bad_step_max.run_stopped_iff_more_rejected_steps_than_allowed", list(s.pc), goal if stop else tm.not_(goal))
    ag.flush()
    r.assumptions += ["Get_m()/Get_moles() return what Set_m()/Set_moles() stored (accessor pairs of cxxKineticsComp)", "m_temp[j] is the amount at the start of the sub-step (assigned in the first-stage loop; text-checked by C12.kinetics.reacted_moles_capped...)",
                      "pow(error, -0.2 / -0.25) is uninterpreted: growth/shrink by these factors is bounded only through the clip h <= kin_time - h_sum", "the while loop as a whole (termination, the goto MOLES_TOO_LARGE retry) is the stated induction: h never exceeds kin_time - h_sum, h_sum only grows by accepted steps",
                      "tableau and stage combinations: units C12.rk_kinetics.tableau / equal_rate_tests"]
    return r


UNITS += [("C12.rk_kinetics.m_decreases_by_the_integrated_moles_and_time_advances_by_the_accepted_steps", unit_rk_update_and_steps)]


# ---------------------------------------------------------------------------------------------------- CVODE glue
def _nv(ex, s, vec, idx, entry=True):
    """element idx (0-based) of the serial N_Vector `vec`"""
    g = entry_arr if entry else (lambda ex_, s_, k: ex_.heap_arr(s_, k))
    data = tm.select(g(ex, s, ("f", "data", "P")), tm.select(g(ex, s, ("f", "content", "P")), vec))
    return tm.select(g(ex, s, ("m", "R")), data, idx)


def _vec(ex, s, owner, name, idx, entry=True):
    g = entry_arr if entry else (lambda ex_, s_, k: ex_.heap_arr(s_, k))
    return tm.select(g(ex, s, ("m", "R")), tm.select(g(ex, s, ("f", "#vdata", "P")), tm.app("fld:" + name, (owner,), "P")), idx)


def _mapping_pass(ag, tag, s, ex, hy, comp, yj, mo, clamp=True, twin=False):
    """state-vector entry -> reactant: moles = y, m = m_original - y, and if that is negative: moles = m_original, m = 0"""
    sm_, smo = on(evs(s, "Set_m"), comp, hy), on(evs(s, "Set_moles"), comp, hy)
    ag.put(tag + ".moles_and_m_of_the_same_reactant_are_set", bool(sm_) and bool(smo), (sm_, smo))
    if not sm_ or not smo:
        return
    ag.eq(tag + ".accumulated_moles==state_vector_entry_of_the_same_index", hy, smo[0].args[0], yj)
    gm = [g for g in on(evs(s, "Get_moles"), comp, hy) if pos(s, g) < pos(s, sm_[0])]
    first = sm_[0].args[0]
    alt = (mo - gm[-1].result) if gm else None
    if alt is not None and first is alt:
        ag.put(tag + ".m==m_original[same_index]-moles", True, "")
    else:
        ag.eq(tag + ".m==m_original[same_index]-moles", hy, first, (mo - yj) if not twin else (mo + yj))
    if not clamp:
        return
    tests = [g for g in on(evs(s, "Get_m"), comp, hy) if pos(s, g) > pos(s, sm_[0])]
    ag.put(tag + ".result_tested_for_negative_amount", len(tests) >= 1, tests)
    if tests:
        for hy1 in split(hy, [tm.lt(tests[0].result, R(0))]):
            if proved(hy1, tm.lt(tests[0].result, R(0))):
                ok = len(sm_) == 2 and same(hy1, sm_[1].args[0], R(0)) and len(smo) == 2
                ag.put(tag + ".negative->m=0", ok, sm_)
                if ok:
                    ag.eq(tag + ".negative->moles=what_was_present(m_original)", hy1, smo[1].args[0], mo)
            else:
                ag.put(tag + ".non-negative->kept", len(sm_) == 1 and len(smo) == 1, (sm_, smo))


def unit_cvode_state_mapping(twin=False):
    """The places where CVODE's state vector (integrated moles per reactant) is written back into the reactants: Phreeqc::f, Phreeqc::Jac
    (base state and perturbed states), Phreeqc::cvode_update_reactants and the end of the CVODE branch of Phreeqc::run_reactions.  One pass
    of each loop for an arbitrary index from an arbitrary state.  Contract: entry j of the vector goes to reactant j - accumulated
    moles = y[j], m = m_original[j] - y[j], same j three times - and a negative result is replaced by m = 0, moles = m_original[j]
    (the reactant cannot give more than it had); after a saved CVODE step m_original[j], m_temp[j] := m of reactant j and the good-state
    vectors are zeroed, entry by entry."""
    r = U.new_unit("C12.cvode_glue.state_vector_entry_j_goes_to_reactant_j_never_negative", KIN, "Phreeqc::f", A.find_function(KIN, "Phreeqc::f"))
    ag = Agg(r)
    mk = lambda: ctx(functional=("Get_kinetics_comps",))
    n = 0
    sites = [("f", "Phreeqc::f", "L_kinetics_ptr", "L_y", "L_pThis", "iter_i", True), ("Jac.base", "Phreeqc::Jac", "L_kinetics_ptr", "L_y", "L_pThis", "iter_i", True)]
    for tag, q, kinn, yv, owner, iv, clamp in sites:
        fn = A.find_function(KIN, q)
        k = loop_where(fn, KIN, lambda i, cnd, b: "Set_m(" in b and "Ith(y," in b.replace(" ", "") and "for(" not in b and "while(" not in b and "kinetics_comp_i_ptr" not in b, "state mapping loop of " + q)[0]
        f, ex, its, info = U.run_loop_isolated(KIN, q, k, ctx=mk())
        for s in live(its, ("run", "cont")):
            n += 1
            j_ = tm.sym(iv, "I")
            comp = comp_of(ex, s, tm.sym(kinn, "P"), j_)
            _mapping_pass(ag, tag, s, ex, list(s.pc), comp, _nv(ex, s, tm.sym(yv, "P"), j_), _vec(ex, s, tm.sym(owner, "P"), "m_original", j_), clamp, twin and tag == "f")
    # Jac, perturbed state: inner loop (the clamp there tests the perturbed reactant i, see assumptions)
    q = "Phreeqc::Jac"
    fn = A.find_function(KIN, q)
    k = loop_where(fn, KIN, lambda i, cnd, b: "Set_m(" in b and "kinetics_comp_j_ptr" in b and "for(" not in b, "perturbed-state mapping loop of Jac")[0]
    f, ex, its, info = U.run_loop_isolated(KIN, q, k, ctx=mk())
    for s in live(its, ("run", "cont")):
        n += 1
        j_ = tm.sym("iter_j", "I")
        comp = comp_of(ex, s, tm.sym("L_kinetics_ptr", "P"), j_)
        _mapping_pass(ag, "Jac.perturbed", s, ex, list(s.pc), comp, _nv(ex, s, tm.sym("L_y", "P"), j_), _vec(ex, s, tm.sym("L_pThis", "P"), "m_original", j_), False)
    # cvode_update_reactants
    q = "Phreeqc::cvode_update_reactants"
    fn = A.find_function(KIN, q)
    k = loop_where(fn, KIN, lambda i, cnd, b: "Set_m(" in b and "cvode_last_good_y" in b, "mapping loop of cvode_update_reactants")[0]
    f, ex, its, info = U.run_loop_isolated(KIN, q, k, ctx=mk())
    for s in live(its, ("run", "cont")):
        n += 1
        j_ = tm.sym("iter_j", "I")
        comp = comp_of(ex, s, tm.sym("L_kinetics_ptr", "P"), j_)
        _mapping_pass(ag, "cvode_update_reactants", s, ex, list(s.pc), comp, _nv(ex, s, fld0(ex, s, "cvode_last_good_y", "P"), j_), _vec(ex, s, THIS, "m_original", j_), True)
    k = loop_where(fn, KIN, lambda i, cnd, b: "m_original[j]=" in b, "bookkeeping loop of cvode_update_reactants")[0]
    f, ex, its, info = U.run_loop_isolated(KIN, q, k, ctx=mk())
    for s in live(its, ("run", "cont")):
        hy = list(s.pc)
        j_ = tm.sym("iter_j", "I")
        comp = comp_of(ex, s, tm.sym("L_kinetics_ptr", "P"), j_)
        gm = on(evs(s, "Get_m"), comp, hy)
        mem = s.heap.get(("m", "R"))
        vd = lambda nm: tm.select(entry_arr(ex, s, ("f", "#vdata", "P")), tm.app("fld:" + nm, (THIS,), "P"))
        w = writes(s, ("m", "R"))
        def written(base, idx):
            return [v for ix, v in w if isinstance(ix, tuple) and ix[0] is base and same(hy, ix[1], idx)]
        for nm in ("m_original", "m_temp"):
            v = written(vd(nm), j_)
            ag.put("after_saved_step.%s[j]==m_of_reactant_j" % nm, len(v) == 1 and any(v[0] is g.result for g in gm), (v, gm))
        for nm in ("cvode_last_good_y", "cvode_prev_good_y"):
            base = tm.select(entry_arr(ex, s, ("f", "data", "P")), tm.select(entry_arr(ex, s, ("f", "content", "P")), fld0(ex, s, nm, "P")))
            v = written(base, j_)
            ag.put("after_saved_step.%s[j]==0" % nm, len(v) == 1 and tm.isnum(v[0]) and v[0].args[0] == 0, v)
        ag.put("after_saved_step.nothing_else_written", len(w) == 4, w)
    # run_reactions, after CVode returned
    q = "Phreeqc::run_reactions"
    fn = A.find_function(KIN, q)
    k = loop_where(fn, KIN, lambda i, cnd, b: "Set_m(" in b and "Ith(kinetics_y," in b.replace(" ", "") and "for(" not in b, "write-back loop of run_reactions")[0]
    f, ex, its, info = U.run_loop_isolated(KIN, q, k, ctx=mk())
    for s in live(its, ("run", "cont")):
        n += 1
        j_ = tm.sym("iter_j", "I")
        comp = comp_of(ex, s, tm.sym("L_kinetics_ptr", "P"), j_)
        _mapping_pass(ag, "run_reactions.after_CVode", s, ex, list(s.pc), comp, _nv(ex, s, fld0(ex, s, "kinetics_y", "P"), j_), _vec(ex, s, THIS, "m_original", j_), True)
    # run_reactions: amounts remembered at the start, m after the final equilibration, moles reported at the end
    ks = loop_where(fn, KIN, lambda i, cnd, b: "m_original[j]=" in b and "for(" not in b, "start-amount loop of run_reactions")
    f, ex, its, info = U.run_loop_isolated(KIN, q, ks[0], ctx=mk())
    for s in live(its, ("run", "cont")):
        hy = list(s.pc)
        j_ = tm.sym("iter_j", "I")
        comp = comp_of(ex, s, tm.sym("L_kinetics_ptr", "P"), j_)
        gm = on(evs(s, "Get_m"), comp, hy)
        w = writes(s, ("m", "R"))
        vd = lambda nm: tm.select(entry_arr(ex, s, ("f", "#vdata", "P")), tm.app("fld:" + nm, (THIS,), "P"))
        for nm in ("m_original", "m_temp"):
            v = [val for ix, val in w if isinstance(ix, tuple) and ix[0] is vd(nm) and same(hy, ix[1], j_)]
            ag.put("run_reactions.start:%s[j]==m_of_reactant_j" % nm, len(v) == 1 and any(v[0] is g.result for g in gm), (v, gm))
    for label, pred, spec in (("run_reactions.after_final_equilibration:m==m_original[j]-moles", lambda b: "Set_m(" in b and "Get_moles()" in b and "Set_moles(" not in b and "Ith(" not in b, "m"),
                              ("run_reactions.end:reported_moles==m_original[j]-m(the_change_of_the_reactant)", lambda b: "Set_moles(" in b and "Get_m()" in b and "Set_m(" not in b and "Ith(" not in b, "moles")):
        ks = loop_where(fn, KIN, lambda i, cnd, b: pred(b) and "for(" not in b, label)
        f, ex, its, info = U.run_loop_isolated(KIN, q, ks[-1], ctx=mk())
        for s in live(its, ("run", "cont")):
            hy = list(s.pc)
            j_ = tm.sym("iter_j", "I")
            comp = comp_of(ex, s, tm.sym("L_kinetics_ptr", "P"), j_)
            mo = _vec(ex, s, THIS, "m_original", j_)
            if spec == "m":
                e = on(evs(s, "Set_m"), comp, hy); g = on(evs(s, "Get_moles"), comp, hy)
            else:
                e = on(evs(s, "Set_moles"), comp, hy); g = on(evs(s, "Get_m"), comp, hy)
            ag.put(label + ".same_reactant", len(e) == 1 and len(g) >= 1, (e, g))
            if len(e) == 1 and g:
                ag.eq(label, hy, e[0].args[0], mo - g[-1].result)
    reach(r, "mapping_passes", n, 9)
    ag.flush()
    r.assumptions += ["Get_m()/Get_moles() return what Set_m()/Set_moles() stored (accessor pairs)", "Ith(v, j+1) is element j of the serial N_Vector v (nvector_serial units)",
                      "Jac's perturbed-state loop tests the amount of the PERTURBED reactant i, not of reactant j, for the negative-amount replacement (differs from f; affects only the finite-difference Jacobian when y exceeds the amount present): observation, not demanded here",
                      "kinetics_ptr in f/Jac is cvode_kinetics_ptr set by run_reactions; m_original holds the amounts at the start of the CVODE call"]
    return r


UNITS += [("C12.cvode_glue.state_vector_entry_j_goes_to_reactant_j_never_negative", unit_cvode_state_mapping)]


def unit_f_and_Jac(twin=False):
    """Phreeqc::f (CVODE right-hand side) and Phreeqc::Jac (finite-difference Jacobian).  Contract:
      f: after the state vector has been mapped to the reactants (other unit) the element amounts of THAT state are computed
         (calc_final_kinetic_reaction of cvode's kinetics record), cell cvode_n_user is equilibrated with kinetics on into itself with no
         reaction step, the accumulated moles are zeroed, the rate programs are run with time step 1 (rates per second) and ydot[i] = the
         moles SAVEd by reactant i's program - the same rates the Runge-Kutta path uses; on a mass-balance failure cvode_error is raised
         and ydot is not written; rate_sim_time is cvode's time.
      Jac: the base rates are stored per reactant; for column i only reactant i is perturbed (m - del, not below 0; moles + del, the same
         del, a tenth of the previous try), the same evaluation sequence follows, and J[row j][column i] = (rate_j(perturbed) -
         base_rate_j)/del with that same del."""
    q = "Phreeqc::f"
    fn0 = A.find_function(KIN, q)
    r = U.new_unit("C12.f_and_Jac.rates_evaluated_at_the_given_state_one_perturbed_component_per_column", KIN, q, fn0)
    ag = Agg(r)
    FALSE_, TRUE_, MB = macro("FALSE"), macro("TRUE"), macro("MASS_BALANCE")
    c = ctx(functional=("Get_kinetics_comps",))
    c.log_stores = True
    fn, ex, fin, info = U.run_function(KIN, q, ctx=c)
    fd = tm.sym("P4_f_data", "P")
    nf = 0
    for s in live(fin, ("run", "ret")):
        hy = list(s.pc)
        kp = tm.select(entry_arr(ex, s, ("f", "cvode_kinetics_ptr", "P")), fd)
        nu = tm.select(entry_arr(ex, s, ("f", "cvode_n_user", "I")), fd)
        E = [e for e in s.events if e.name.split("::")[-1] in ("calc_final_kinetic_reaction", "set_and_run_wrapper", "calc_kinetic_reaction")]
        names = [e.name.split("::")[-1] for e in E]
        nf += 1
        ag.put("f.amounts_of_the_state_then_equilibration" + ("" if True else ""), names[:2] == ["calc_final_kinetic_reaction", "set_and_run_wrapper"], names)
        if names[:2] != ["calc_final_kinetic_reaction", "set_and_run_wrapper"]:
            continue
        ag.put("f.amounts_computed_for_cvode's_kinetics_record", E[0].args[0] is kp, E[0])
        w = E[1]
        ag.put("f.equilibration_is(cell_n_user,no_mix,kinetics_on,into_itself,no_reaction_step)", w.args[0] is nu and same(hy, w.args[1], I(FALSE_)) and same(hy, w.args[2], I(TRUE_)) and w.args[3] is nu and same(hy, w.args[4], R(0)), w)
        st = [e for e in s.events if e.name == "store" and e.recv is fd]
        rst = [e for e in st if e.args[0] is tm.strc("rate_sim_time")]
        ag.put("f.rate_sim_time==cvode's_time", bool(rst) and rst[0].args[1] is tm.select(entry_arr(ex, s, ("f", "cvode_rate_sim_time", "R")), fd), rst)
        err = [e for e in st if e.args[0] is tm.strc("cvode_error")]
        ct_ = tm.select(entry_arr(ex, s, ("f", "cvode_test", "I")), fd)
        for hy1 in split(hy, [tm.eq(w.result, I(MB)), tm.eq(ct_, I(TRUE_))]):
            if proved(hy1, tm.eq(w.result, I(MB))):
                ag.put("f.mass_balance_failure->cvode_error_raised_and_no_rates", bool(err) and same(hy1, err[-1].args[1], I(TRUE_)) and len(names) == 2, (err, names))
            elif proved(hy1, tm.eq(ct_, I(TRUE_))):
                ag.put("f.test_call->no_rates", len(names) == 2, names)
            else:
                ok = len(names) == 3 and names[2] == "calc_kinetic_reaction"
                ag.put("f.rates_evaluated_exactly_once_after_the_equilibration", ok, names)
                if ok:
                    ag.put("f.rates_for_cvode's_kinetics_record_with_time_step_1(per_second)", E[2].args[0] is kp and same(hy1, E[2].args[1], R(1) if not twin else R(2)), E[2])
                    ag.put("f.no_error_flag_left", not err or same(hy1, err[-1].args[1], I(FALSE_)), err)
    reach(r, "f.paths", nf, 3)
    # f: zeroing loop and output loop, and their position
    lps = loops_of(fn0)
    top = _top(fn0)
    def top_index(pred):
        return next((k for k, x in enumerate(top) if pred(x)), None)
    try:
        kz = loop_where(fn0, KIN, lambda i, cnd, b: "Set_moles(" in b and "Set_m(" not in b and "Get_moles" not in b, "zeroing loop of f")[0]
    except Undecided:
        kz = None
    ko = loop_where(fn0, KIN, lambda i, cnd, b: "ydot" in b, "output loop of f")[0]
    iz, io = (top_index(lambda x: x is lps[kz]) if kz is not None else None), top_index(lambda x: x is lps[ko])
    irate = top_index(lambda x: text_of(KIN, x).startswith("pThis->calc_kinetic_reaction("))
    ieq = top_index(lambda x: x.get("kind") == "IfStmt" and "set_and_run_wrapper(" in text_of(KIN, x["inner"][0]))
    ag.put("f.order:equilibrate<zero_the_moles<run_the_rate_programs<copy_to_ydot", None not in (iz, io, irate, ieq) and ieq < iz < irate < io, (ieq, iz, irate, io))
    kin = tm.sym("L_kinetics_ptr", "P")
    its = []
    if kz is not None:
        f, ex, its, info = U.run_loop_isolated(KIN, q, kz, ctx=ctx(functional=("Get_kinetics_comps",)))
    else:
        ag.put("f.zeroing:accumulated_moles_of_reactant_i=0", False, "no loop that only resets the accumulated moles found in f")
    for s in live(its, ("run", "cont")):
        comp = comp_of(ex, s, kin, tm.sym("iter_i", "I"))
        e = evs(s, "Set_moles")
        ag.put("f.zeroing:accumulated_moles_of_reactant_i=0", len(e) == 1 and same(list(s.pc), e[0].recv, comp) and same(list(s.pc), e[0].args[0], R(0)), e)
    f, ex, its, info = U.run_loop_isolated(KIN, q, ko, ctx=ctx(functional=("Get_kinetics_comps",)))
    for s in live(its, ("run", "cont")):
        hy = list(s.pc)
        i_ = tm.sym("iter_i", "I")
        comp = comp_of(ex, s, kin, i_)
        g = on(evs(s, "Get_moles"), comp, hy)
        w = writes(s, ("m", "R"))
        base = tm.select(entry_arr(ex, s, ("f", "data", "P")), tm.select(entry_arr(ex, s, ("f", "content", "P")), tm.sym("L_ydot", "P")))
        ag.put("f.output:ydot[i]==moles_SAVEd_for_reactant_i_and_nothing_else_written", len(w) == 1 and w[0][0][0] is base and same(hy, w[0][0][1], i_) and bool(g) and w[0][1] is g[-1].result, w)
    # ---- Jac
    q = "Phreeqc::Jac"
    fn = A.find_function(KIN, q)
    lps = loops_of(fn)
    kw = next((k for k, lp in enumerate(lps) if lp.get("kind") == "WhileStmt"), None)
    if kw is None:
        raise Undecided("retry loop of Jac not found")
    cj = ctx(functional=("Get_kinetics_comps",))
    f, ex, its, info = U.run_loop_isolated(KIN, q, kw, ctx=cj, inner_modes={"*": "iter"})
    ci = tm.sym("L_kinetics_comp_i_ptr", "P")
    d0 = tm.sym("iter_del", "R")
    nj = 0
    for s in live(its, ("run", "cont")):
        hy = list(s.pc)
        d1 = local(info, s, "del")
        ag.eq("Jac.each_try_uses_a_tenth_of_the_previous_perturbation", hy, d1, d0 / R(10))
        E = [e for e in U.iter_events(s) if e.name.split("::")[-1] in ("calc_final_kinetic_reaction", "set_and_run_wrapper", "calc_kinetic_reaction")]
        names = [e.name.split("::")[-1] for e in E]
        sm_, smo = [e for e in evs(s, "Set_m") if e.recv is ci], [e for e in evs(s, "Set_moles") if e.recv is ci]
        gm_, gmo = [e for e in evs(s, "Get_m") if e.recv is ci], [e for e in evs(s, "Get_moles") if e.recv is ci]
        ok = bool(sm_) and bool(smo) and bool(gm_) and bool(gmo) and bool(E) and pos(s, smo[-1]) < pos(s, E[0])
        ag.put("Jac.reactant_i_perturbed_before_the_evaluation", ok, (sm_, smo))
        if not ok:
            continue
        nj += 1
        ag.put("Jac.only_reactant_i_is_perturbed", all(e.recv is ci for e in evs(s, "Set_m") + evs(s, "Set_moles") if pos(s, e) < pos(s, E[0])), "")
        ag.eq("Jac.perturbation:m_i-=del", hy, sm_[0].args[0], gm_[0].result - d1)
        ag.eq("Jac.perturbation:moles_i+=del(the_same_del)", hy, smo[-1].args[0], gmo[-1].result + d1 if not twin else gmo[-1].result - d1)
        neg = [g for g in gm_ if pos(s, g) > pos(s, sm_[0])]
        if neg:
            for hy1 in split(hy, [tm.lt(neg[0].result, R(0))]):
                if proved(hy1, tm.lt(neg[0].result, R(0))):
                    ag.put("Jac.perturbed_amount_not_below_zero", len(sm_) >= 2 and same(hy1, sm_[1].args[0], R(0)), sm_)
        ag.put("Jac.evaluation_sequence_as_in_f", names[:2] == ["calc_final_kinetic_reaction", "set_and_run_wrapper"], names)
        if names[:2] == ["calc_final_kinetic_reaction", "set_and_run_wrapper"]:
            w = E[1]
            nu = tm.sym("L_n_user", "I")
            ag.put("Jac.equilibration_is(cell_n_user,no_mix,kinetics_on,into_itself)", w.args[0] is nu and same(hy, w.args[1], I(FALSE_)) and same(hy, w.args[2], I(TRUE_)) and w.args[3] is nu, w)
            for hy1 in split(hy, [tm.eq(w.result, I(MB))]):
                if proved(hy1, tm.eq(w.result, I(MB))):
                    ag.put("Jac.mass_balance_failure->no_rates,try_again_with_smaller_del", len(names) == 2, names)
                else:
                    ag.put("Jac.rates_evaluated_once_with_time_step_1", len(names) == 3 and names[2] == "calc_kinetic_reaction" and same(hy1, E[2].args[1], R(1)), names)
    reach(r, "Jac.tries", nj, 2)
    # J write loop (inner iteration contract in the context of a try)
    wrote = 0
    for o, sts in info["inner_iters"].items():
        for s in live(sts, ("run", "cont")):
            w = writes(s, ("m", "R"))
            if not w or "initial_rates" not in text_of(KIN, lps[o]) or "/del" not in text_of(KIN, lps[o]).replace(" ", ""):
                continue
            hy = list(s.pc)
            j_ = tm.sym("iter_j", "I")
            comp = comp_of(ex, s, tm.sym("L_kinetics_ptr", "P"), j_)
            g = on(evs(s, "Get_moles"), comp, hy)
            wrote += 1
            ir = tm.select(entry_arr(ex, s, ("m", "R")), tm.select(entry_arr(ex, s, ("f", "#vdata", "P")), tm.sym("&L_initial_rates", "P")), j_)
            d1 = local(info, s, "del")
            ag.put("Jac.column.one_entry_written_per_row", len(w) == 1 and bool(g), w)
            if len(w) == 1 and g:
                ag.eq("Jac.column.entry==(rate_j_perturbed-base_rate_j)/del_of_this_try", hy, w[0][1], (g[-1].result - ir) / d1)
                # J->data[i][j]: column i (perturbed reactant), row j (rate)
                colp = w[0][0][0]
                jd = tm.select(entry_arr(ex, s, ("f", "data", "P")), tm.sym("L_J", "P"))
                okc = colp.op == "select" and len(colp.args[1]) == 2 and colp.args[1][0] is jd and same(hy, colp.args[1][1], tm.sym("L_i", "I"))
                ag.put("Jac.column.entry_is_row_j_of_column_i(d_rate_j/d_y_i)", okc and same(hy, w[0][0][1], j_), w[0][0])
    reach(r, "Jac.column_pass", wrote)
    kb = loop_where(fn, KIN, lambda i, cnd, b: "initial_rates[i]=" in b and "for(" not in b, "base-rate loop of Jac")[0]
    f, ex, its, info = U.run_loop_isolated(KIN, q, kb, ctx=ctx(functional=("Get_kinetics_comps",)))
    for s in live(its, ("run", "cont")):
        hy = list(s.pc)
        i_ = tm.sym("iter_i", "I")
        comp = comp_of(ex, s, tm.sym("L_kinetics_ptr", "P"), i_)
        g = on(evs(s, "Get_moles"), comp, hy)
        w = writes(s, ("m", "R"))
        ag.put("Jac.base_rate[i]==moles_SAVEd_for_reactant_i_at_the_unperturbed_state", len(w) == 1 and same(hy, w[0][0][1], i_) and bool(g) and w[0][1] is g[-1].result, w)
    st = [x for x in A.walk(fn) if x.get("kind") == "DeclStmt" and text_of(KIN, x).startswith("cxxKineticsComp*kinetics_comp_i_ptr=")]
    if st:
        f, ex, fin, info = region(KIN, q, [st[0]], ctx(functional=("Get_kinetics_comps",)))
        for s in live(fin):
            ag.put("Jac.perturbed_reactant_is_reactant_i(the_column_index)", same(list(s.pc), local(info, s, "kinetics_comp_i_ptr"), comp_of(ex, s, tm.sym("L_kinetics_ptr", "P"), tm.sym("L_i", "I"))), local(info, s, "kinetics_comp_i_ptr"))
    else:
        r.add("Jac.perturbed_reactant_declaration_found", UNDECIDED, "ast-scan", 0, "", kind="structural")
    ag.flush()
    r.assumptions += ["calc_final_kinetic_reaction / calc_kinetic_reaction by their own units; set_and_run_wrapper(i, use_mix, use_kinetics, nsaver, step_fraction) by name and arguments",
                      "DENSE_ELEM(J, r, c) is J->data[c][r] (dense.h); Ith as in the mapping unit", "the retry loop of Jac (smaller del after a mass-balance failure, at most 30 times) is covered per try; its termination is not",
                      "doubles as reals"]
    return r


UNITS += [("C12.f_and_Jac.rates_evaluated_at_the_given_state_one_perturbed_component_per_column", unit_f_and_Jac)]


# ---------------------------------------------------------------------------------- integrator options of KINETICS
def eval_expr(rel, qual, node, c=None):
    """value(s) of an expression of the function from an arbitrary state (every local a free symbol L_<name>): [(state, term)]"""
    from vf.astvc.symex import is_record_type, sort_of
    fn = A.find_function(rel, qual)
    c = c or ctx()
    if c.loop is None:
        c.loop = lambda ex, st, n, o: ex.havoc_loop(n, st)
    ex = SX.Exec(c)
    ex.local_ids = set(); ex.addr_taken = set(); ex.loop_ids = {}
    st = SX.State()
    for x in A.walk(fn):
        if x.get("kind") == "UnaryOperator" and x.get("opcode") == "&":
            y = x["inner"][0]
            while y.get("kind") == "ParenExpr":
                y = y["inner"][0]
            if y.get("kind") == "DeclRefExpr" and y["referencedDecl"].get("kind") in ("VarDecl", "ParmVarDecl"):
                ex.addr_taken.add(y["referencedDecl"]["id"])
    for x in A.walk(fn):
        if x.get("kind") in ("VarDecl", "ParmVarDecl") and "id" in x:
            ex.local_ids.add(x["id"])
            nm = x.get("name", "_")
            qt = x["type"].get("desugaredQualType") or x["type"]["qualType"]
            if qt.strip().endswith("&"):
                st.locals[x["id"]] = ("ref", ("elem", tm.sym("L_%s_ref" % nm, "P"), tm.num(0, "I")))
            elif is_record_type(qt, c) or qt.strip().endswith("]") or x["id"] in ex.addr_taken:
                st.locals[x["id"]] = ("obj", tm.sym("&L_%s" % nm, "P"))
            else:
                st.locals[x["id"]] = tm.sym("L_%s" % nm, sort_of(qt))
    return ex, ex.ev(node, st)


def unit_kinetics_options(twin=False):
    """The integrator options of KINETICS: defaults (cxxKinetics constructors), keywords (Phreeqc::read_kinetics) and their use
    (Phreeqc::run_reactions).  Contract (manual, KINETICS data block):
      * defaults: -step_divide 1, -runge_kutta 3, -bad_step_max 500, -cvode false, -cvode_steps 100, -cvode_order 5, in every constructor;
      * each keyword sets its own member of the record being read and no other integrator option: step_divide <- the number read;
        runge-kutta / runge_kutta / rk <- integer value; bad_step_max, cvode_steps, cvode_order <- integer value; cvode <- true/false
        (true when no value follows);
      * use: Runge-Kutta (rk_kinetics with the caller's cell, time, mix mode, save number, step fraction) iff -cvode is off, else CVODE
        with MXSTEP = cvode_steps and MAXORD = cvode_order at every (re)initialisation; a CVODE call that keeps failing stops the run
        once the number of restarts reaches bad_step_max."""
    q = "Phreeqc::read_kinetics"
    fn = A.find_function(RD, q)
    r = U.new_unit("C12.kinetics_options.defaults_keywords_and_their_use", RD, q, fn)
    ag = Agg(r)
    # ---- keywords
    names = None
    for x in A.walk(fn):
        if x.get("kind") == "VarDecl" and x.get("name") == "opt_list":
            il = [y for y in A.walk(x) if y.get("kind") == "InitListExpr"]
            if il:
                names = [strip(z).get("value", "").strip('"') for z in il[0].get("inner", [])]
    if not names:
        raise Undecided("opt_list of read_kinetics not found")
    sw = [x for x in A.walk(fn) if x.get("kind") == "SwitchStmt"]
    if len(sw) != 1:
        raise Undecided("option switch of read_kinetics not found")
    f, ex, fin, info = region(RD, q, [sw[0]], ctx())
    SETTERS = ("Set_step_divide", "Set_rk", "Set_bad_step_max", "Set_use_cvode", "Set_cvode_steps", "Set_cvode_order")
    SPEC = {"step_divide": "Set_step_divide", "runge-kutta": "Set_rk", "runge_kutta": "Set_rk", "rk": "Set_rk", "bad_step_max": "Set_bad_step_max",
            "cvode": "Set_use_cvode", "cvode_steps": "Set_cvode_steps", "cvode_order": "Set_cvode_order"}
    if twin:
        SPEC["bad_step_max"] = "Set_cvode_steps"
    opt = tm.sym("L_opt", "I")
    seen = {}
    tk = tm.sym("&L_temp_kinetics", "P")
    for s in live(fin, ("run", "cont", "brk")):
        hy = list(s.pc)
        sets = [e for e in s.events if e.name.split("::")[-1] in SETTERS]
        for idx, nm in enumerate(names):
            if B.z3_sat(hy + [tm.eq(opt, I(idx))]) == "unsat":
                continue
            if not proved(hy, tm.eq(opt, I(idx))):
                continue
            want = SPEC.get(nm)
            if want is None:
                ag.put("keyword.other_keywords_leave_the_integrator_options_alone", not sets, (nm, sets))
                continue
            if sets:
                seen[nm] = True
            for e in sets:
                ag.put("keyword.-%s_sets_its_own_member_of_the_record_being_read" % nm, e.name.split("::")[-1] == want and e.recv is tk, e)
                a0 = e.args[0]
                if want == "Set_step_divide":
                    sc = [x for x in s.events if x.name.endswith("sscanf")]
                    ok = bool(sc) and a0.op == "select" and ".dummy:" in a0.args[0].args[0] and tm.app("fld:dummy", (THIS,), "P") in sc[-1].args
                    ag.put("keyword.-step_divide_value_is_the_number_scanned_from_the_token", ok, (a0, sc))
                elif want == "Set_use_cvode":
                    g = [x for x in s.events if x.name.endswith("get_true_false")]
                    ok = bool(g) and g[-1].result in tm.subterms(a0) and same(hy, g[-1].args[1], I(macro("TRUE")))
                    ag.put("keyword.-cvode_value_is_true/false_defaulting_to_true", ok, (a0, g))
                    if ok:
                        ag.valid("keyword.-cvode_on_iff_answer_is_TRUE", hy, tm.eq(tm.to_bool(a0), tm.eq(g[-1].result, I(macro("TRUE")))))
                else:
                    sd = [x for x in s.events if x.name.endswith("strtod")]
                    ag.put("keyword.-%s_value_is_the_integer_part_of_the_number_in_the_token" % nm, bool(sd) and sd[-1].result in tm.subterms(a0) and a0.sort == "I", a0)
    for nm in SPEC:
        if nm in names:
            ag.put("keyword.-%s_is_handled" % nm, seen.get(nm, False), "no path of the switch sets a member for this keyword")
        else:
            ag.put("keyword.-%s_is_in_the_option_list" % nm, False, names)
    # ---- defaults
    import re as _re
    bodies = _re.findall(r"cxxKinetics::cxxKinetics\([^)]*\)[^{]*\{(.*?)\n\}", src(CXK).decode("latin1"), _re.S)
    DEF = {"step_divide": "1.0", "rk": "3", "bad_step_max": "500", "use_cvode": "false", "cvode_steps": "100", "cvode_order": "5"}
    r.add("defaults.constructors_found", DISCHARGED if len(bodies) >= 2 else UNDECIDED, "text", 0, "%d constructors" % len(bodies), kind="vacuity")
    for k, b in enumerate(bodies):
        sq = re_squeeze(b)
        for mem, val in DEF.items():
            m = _re.search(r"(?:this->)?%s=([^;]+);" % mem, sq)
            okv = bool(m) and (m.group(1) == val or (mem == "step_divide" and m.group(1) in ("1", "1.", "1.0")))
            ag.put("defaults.constructor%d.%s==%s" % (k, mem, val), okv, m.group(0) if m else "no assignment")
    # ---- use in run_reactions
    q2 = "Phreeqc::run_reactions"
    fn2 = A.find_function(KIN, q2)
    st = _outer([x for x in A.walk(fn2) if x.get("kind") == "IfStmt" and "rk_kinetics(" in text_of(KIN, x["inner"][1]) and len(x["inner"]) > 2 and "CVodeMalloc(" in text_of(KIN, x["inner"][2])])
    if len(st) != 1:
        ag.put("use.integrator_dispatch_found", False, "no if with rk_kinetics in one branch and CVodeMalloc in the other")
    else:
        ex2, vals = eval_expr(KIN, q2, st[0]["inner"][0], ctx(functional=("Get_use_cvode",)))
        uc = tm.app("call:Get_use_cvode", (tm.sym("L_kinetics_ptr", "P"),), "B")
        for s, v in vals:
            g = [e for e in s.events if e.name.endswith("Get_use_cvode")]
            ok = len(g) == 1 and g[0].recv is tm.sym("L_kinetics_ptr", "P")
            ag.put("use.dispatch_reads_-cvode_of_this_cell's_kinetics_record", ok, g)
            if ok:
                ag.valid("use.Runge-Kutta_iff_-cvode_is_off", list(s.pc), tm.eq(tm.to_bool(v), tm.not_(tm.to_bool(g[0].result))))
        f, ex, fin, info = region(KIN, q2, [st[0]["inner"][1]], ctx())
        for s in live(fin):
            e = [x for x in s.events if x.name.endswith("rk_kinetics")]
            L = lambda n, so: tm.sym("L_" + n, so)
            ag.put("use.Runge-Kutta_gets(i,kin_time,use_mix,nsaver,step_fraction)_of_the_call", len(e) == 1 and e[0].args == (L("i", "I"), L("kin_time", "R"), L("use_mix", "I"), L("nsaver", "I"), L("step_fraction", "R")), e)
    for opt_, getter in (("MXSTEP", "Get_cvode_steps"), ("MAXORD", "Get_cvode_order")):
        asg = [x for x in A.walk(fn2) if x.get("kind") == "BinaryOperator" and x.get("opcode") == "=" and text_of(KIN, x["inner"][0]) == "iopt[%s]" % opt_]
        mal = [x for x in A.walk(fn2) if x.get("kind") == "CallExpr" and text_of(KIN, x).startswith("CVodeMalloc(")]
        ag.put("use.%s_set_before_each_CVodeMalloc" % opt_, len(asg) == len(mal) and len(mal) >= 2, "%d assignments, %d CVodeMalloc calls" % (len(asg), len(mal)))
        for x in asg:
            f, ex, fin, info = region(KIN, q2, [x], ctx())
            for s in live(fin):
                g = [e for e in s.events if e.name.endswith(getter)]
                w = [v for k_, a_ in s.heap.items() for ix, v in writes(s, k_)]
                ag.put("use.%s<-%s_of_the_kinetics_record" % (opt_, getter[4:]), len(g) == 1 and g[0].recv is tm.sym("L_kinetics_ptr", "P") and any(g[0].result in tm.subterms(v) for v in w), (g, w))
    # restarts bounded by bad_step_max
    kR = loop_ordinal(fn2, KIN, cond_text="flag!=SUCCESS")
    f, ex, its, info = U.run_loop_isolated(KIN, q2, kR, ctx=ctx(functional=("Get_bad_step_max",)))
    nr = 0
    for s in live(its, ("run", "cont")):
        nr += 1
        bm = tm.app("call:Get_bad_step_max", (tm.sym("L_kinetics_ptr", "P"),), "I")
        em = [e for e in U.iter_events(s) if e.name.endswith("error_msg") and ((tm.isnum(e.args[1]) and e.args[1].args[0] == 1) or e.args[1] is tm.TRUE) and "CVDense" not in repr(e.args[0])]
        mi = tm.sym("iter_m_iter", "I")
        goal = tm.le(bm, mi + 1)
        ag.valid("use.CVODE_restarts:run_stopped_iff_restart_count_reaches_-bad_step_max", list(s.pc), goal if em else tm.not_(goal))
        ag.eq("use.CVODE_restarts:counted_one_by_one", list(s.pc), local(info, s, "m_iter"), mi + 1)
    reach(r, "restart_passes", nr, 2)
    ag.flush()
    r.assumptions += ["defaults are read from the text of the constructor bodies in cxxKinetics.cxx (text-anchored: a member initialiser list or a delegating constructor would need the unit to be adapted)",
                      "manual: KINETICS -step_divide 1, -runge_kutta 3, -bad_step_max 500, -cvode false, -cvode_steps 100, -cvode_order 5", "sscanf/strtod/get_true_false by their meaning; option index -> name from the initialiser of opt_list",
                      "the CVDense failure exit is not pinned"]
    return r


def re_squeeze(t):
    import re as _re
    t = _re.sub(r"//[^\n]*", "", t)
    t = _re.sub(r"/\*.*?\*/", "", t, flags=_re.S)
    return _re.sub(r"\s+", "", t)


UNITS += [("C12.kinetics_options.defaults_keywords_and_their_use", unit_kinetics_options)]


def unit_cvode_update_reactants(twin=False):
    """Phreeqc::cvode_update_reactants(i, nsaver, save_it), whole function (loops summarised; their passes are under
    C12.cvode_glue.*).  Contract: the accepted CVODE state is translated into element amounts for the kinetics record in use, cell i is
    equilibrated with it (no mix, kinetics on, into nsaver, full reaction step) and - when asked - saved; a mass-balance failure stops
    the run and reports false; otherwise true.  Nothing is saved when save_it is false."""
    q = "Phreeqc::cvode_update_reactants"
    fn0 = A.find_function(KIN, q)
    r = U.new_unit("C12.cvode_update_reactants.accepted_state_translated_equilibrated_and_saved", KIN, q, fn0)
    ag = Agg(r)
    NOMIX, TRUE_, MB = macro("NOMIX"), macro("TRUE"), macro("MASS_BALANCE")
    fn, ex, fin, info = U.run_function(KIN, q, ctx=ctx(functional=("Get_kinetics_ptr",)))
    n = 0
    for s in live(fin, ("run", "ret")):
        hy = list(s.pc)
        n += 1
        E = [e for e in s.events if e.name.split("::")[-1] in ("calc_final_kinetic_reaction", "set_and_run_wrapper", "saver")]
        names = [e.name.split("::")[-1] for e in E]
        ok = names[:2] == ["calc_final_kinetic_reaction", "set_and_run_wrapper"]
        ag.put("amounts_translated_then_cell_equilibrated", ok, names)
        if not ok:
            continue
        kp = tm.app("call:Get_kinetics_ptr", (tm.app("fld:use", (THIS,), "P"),), "P")
        ag.put("amounts_for_the_kinetics_record_in_use", E[0].args[0] is kp, E[0])
        w = E[1]
        ag.put("equilibration_is(cell_i,NOMIX,kinetics_on,into_nsaver,full_step)", w.args[0] is tm.sym("P0_i", "I") and same(hy, w.args[1], I(NOMIX)) and same(hy, w.args[2], I(TRUE_)) and w.args[3] is tm.sym("P1_nsaver", "I") and same(hy, w.args[4], R(1) if not twin else R(0)), w)
        sv = tm.sym("P2_save_it", "B")
        for hy1 in split(hy, [tm.eq(w.result, I(MB)), sv]):
            if proved(hy1, tm.eq(w.result, I(MB))):
                em = [e for e in s.events if e.name.endswith("error_msg")]
                ag.put("mass_balance_failure->stopped_reported_false_nothing_saved", bool(em) and "saver" not in names and (s.ret is tm.FALSE or (s.ret is not None and proved(hy1, tm.not_(tm.to_bool(s.ret))))), (em, s.ret))
            else:
                ag.put("success->reported_true", s.ret is tm.TRUE or (s.ret is not None and proved(hy1, tm.to_bool(s.ret))), s.ret)
                if proved(hy1, sv):
                    ag.put("success_and_save_it->saved_once_after_the_equilibration", names.count("saver") == 1 and names.index("saver") == 2, names)
                else:
                    ag.put("success_without_save_it->nothing_saved", "saver" not in names, names)
    reach(r, "paths", n, 6)
    ag.flush()
    r.assumptions += ["callees by name and arguments; loops of the function are summarised (havoc) here and contracted pass-wise in C12.cvode_glue.*"]
    return r


UNITS += [("C12.cvode_update_reactants.accepted_state_translated_equilibrated_and_saved", unit_cvode_update_reactants)]


UNITS = [(uid, fast_twin(f)) for uid, f in UNITS]
from props.c12_ext3 import UNITS as _U3; UNITS = UNITS + _U3
from props.c12_ext4 import UNITS as _U4; UNITS = UNITS + _U4
from props.c12_ext5 import UNITS as _U5; UNITS = UNITS + _U5
