"""C14 / C10: cxxNameDouble::merge_redox (totals of SOLUTION_RAW / SOLUTION_MODIFY): giving a valence state E(n) removes exactly
the element total E (the text before the parenthesis) and nothing else; giving an element total E removes every valence state
E(...) — the removal loop repeats until a full pass finds none."""
from props.common import *
from vf.core import FAILED, DISCHARGED, UNDECIDED

ND = "src/phreeqcpp/NameDouble.cxx"
Q = "cxxNameDouble::merge_redox"


def unit_merge_redox(pid="C14", twin=False):
    fn = A.find_function(ND, Q)
    r = U.new_unit("%s.merge_redox.removes_exactly_the_conflicting_entries" % pid, ND, Q, fn)
    c = ctx(); c.stl.map_like.add("cxxNameDouble")
    # the position of the parenthesis
    decl = find_nodes(fn, ND, lambda t, x: t.startswith("size_tpos="), kinds=("DeclStmt",))
    r.add("pos_is_position_of_the_parenthesis", DISCHARGED if decl and text_of(ND, decl[0]).rstrip(";") == 'size_tpos=redox_name.find("(")' else FAILED, "syntactic", 0,
          text_of(ND, decl[0]) if decl else "", kind="structural")
    ifs = find_stmt(fn, ND, "if(pos!=std::string::npos)", kinds=("IfStmt",), prefix=True)
    f, ex, fin, info = region(ND, Q, [ifs], c)
    n = 0
    for s in live(fin):
        asg = [e for e in s.events if e.name.endswith("operator=")]
        if len(asg) != 1:
            r.add("element_name.assigned_once", FAILED, "symex", 0, repr(asg)[:200]); continue
        val = asg[0].args[0]
        pos = tm.sym("L_pos", "I"); rn = tm.sym("L_redox_name", "S")
        has = B.z3_prove(list(s.pc), tm.not_(tm.eq(pos, tm.sym("G.npos", "I"))))[0] == "proved"
        n += 1
        if has:
            want_len = pos if not twin else pos - tm.num(1, "I")
            ok = val.op == "app" and val.args[0] == "substr" and val.args[1] is rn and tm.isnum(val.args[2]) and val.args[2].args[0] == 0
            r.add("valence_state.element_name_is_a_prefix_of_the_key", DISCHARGED if ok else FAILED, "symex", 0, repr(val)[:160])
            if ok:
                U.discharge_valid(r, "valence_state.element_name_is_the_text_before_the_parenthesis(length==pos)", list(s.pc), tm.eq(val.args[3], want_len))
            r.add("valence_state.flag_set", DISCHARGED if s.locals.get(info["names"]["redox"]) is tm.TRUE else FAILED, "symex", 0, "")
        else:
            r.add("element_total.element_name_is_the_key", DISCHARGED if val is rn else FAILED, "symex", 0, repr(val)[:120])
            r.add("element_total.flag_clear", DISCHARGED if s.locals.get(info["names"]["redox"]) is tm.FALSE else FAILED, "symex", 0, "")
    r.add("reach.both_kinds_of_key", DISCHARGED if n == 2 else UNDECIDED, "symex", 0, "%d" % n, kind="vacuity")
    # removal of all valence states: inner pass
    k = loop_ordinal(fn, ND, cond_text="current!=(*this).end()")
    f, ex, its, info = U.run_loop_isolated(ND, Q, k, ctx=c)
    hit = miss = 0
    for s in live(its, ("run", "cont", "brk")):
        evs = U.iter_events(s)
        finds = [e for e in evs if e.name.endswith("::find")]
        erases = [e for e in evs if e.name == "map.erase"]
        d = s.locals.get(info["names"]["deleted"])
        if s.status == "brk":
            hit += 1
            ok = len(erases) == 1 and d is tm.TRUE and bool(finds) and finds[0].args[0] is tm.sym("L_substring", "S")
            if twin and pid == "C10":
                ok = False
            r.add("remove_all.match_is_erased_and_pass_repeated(deleted=true)", DISCHARGED if ok else FAILED, "symex", 0, "erases=%d deleted=%r" % (len(erases), d))
            if finds:
                U.discharge_valid(r, "remove_all.erased_only_if_the_key_STARTS_with_the_prefix(find==0)", list(s.pc), tm.eq(finds[0].result, tm.num(0, "I")))
        else:
            miss += 1
            if finds:
                U.discharge_valid(r, "remove_all.kept_only_if_the_key_does_not_start_with_the_prefix#%d" % miss, list(s.pc), tm.not_(tm.eq(finds[0].result, tm.num(0, "I"))))
            r.add("remove_all.non_matching_entry_kept", DISCHARGED if not erases and d is tm.sym("iter_deleted", "B") or (not erases and d is not tm.TRUE) else FAILED, "symex", 0, "erases=%d deleted=%r" % (len(erases), d), kind="frame")
    r.add("reach.pass", DISCHARGED if hit == 1 and miss >= 1 else FAILED if hit == 0 else UNDECIDED, "symex", 0, "%d matching, %d non-matching paths" % (hit, miss), kind="vacuity")
    loops = [x for x in A.walk(fn) if x.get("kind") == "WhileStmt"]
    okw = len(loops) == 1 and text_of(ND, loops[0]["inner"][0 if len(loops[0]["inner"]) == 2 else 1]) == "deleted" and text_of(ND, loops[0]["inner"][-1]).startswith("{deleted=false;")
    r.add("remove_all.repeats_until_a_pass_deletes_nothing", DISCHARGED if okw else FAILED, "syntactic", 0, "", kind="structural")
    r.add("remove_all.prefix_is_element_name+'('", DISCHARGED if 'substring.append(elt_name);substring.append("(");' in text_of(ND, fn) else FAILED, "syntactic", 0, "", kind="structural")
    r.assumptions += ["std::string::find/substr semantics; std::map erase/operator[] semantics", "the stores `(*this)[name] = value` are not re-checked here"]
    return r
