"""C04 extension units: results depend only on the input text, not on how it is delivered or split.
Per-call file handling of the wrapper (open / close of the output streams), the per-simulation driver loop of IPhreeqc::do_run as a
mirror of Phreeqc::run_simulations, the per-simulation reset region of read_input, tidy_punch (bindings and headings rebuilt from the
current definitions, nothing carried over), and a taint contract: the per-call simulation counter reaches nothing but description
text in reactions / saver / run_as_cells / copy_use."""
from props.c14_ext_lib import *

IPQ = "src/IPhreeqc.cpp"
RD = "src/phreeqcpp/read.cpp"
MS = "src/phreeqcpp/mainsubs.cpp"
RC = "src/phreeqcpp/ReadClass.cxx"
TD = "src/phreeqcpp/tidy.cpp"
PIO = "src/phreeqcpp/common/PHRQ_io.cpp"
UNITS = []
STD = [tm.sym("&G.cerr", "P"), tm.sym("&G.cout", "P"), tm.sym("&G.clog", "P")]


def unit(uid):
    def deco(f):
        UNITS.append((uid, f))
        return f
    return deco


def owned(v):
    """v is a stream the object owns: neither NULL nor one of the three standard streams"""
    return tm.and_(tm.not_(tm.eq(v, tm.NULL)), *[tm.not_(tm.eq(v, s)) for s in STD])


def safe_close_contract(ex, st, n, name, recv, args):
    """PHRQ_io::safe_close(std::ostream **p) (proved below as C04.safe_close): an owned stream is deleted and *p becomes NULL;
    NULL and the standard streams are left as they are"""
    p = args[0]
    lv = ex.deref(st, p)
    v = ex.load(st, lv, "P")
    out = []
    a, b = st.clone(), st
    if a.assume(owned(v)):
        a.events.append(SX.Event("safe_close", None, [p, v, tm.TRUE], tm.num(0, "I"), n))
        ex.store(a, lv, tm.NULL, "P")
        out.append((a, tm.num(0, "I")))
    if b.assume(tm.not_(owned(v))):
        b.events.append(SX.Event("safe_close", None, [p, v, tm.FALSE], tm.num(0, "I"), n))
        out.append((b, tm.num(0, "I")))
    return out


@unit("C04.safe_close.owned_stream_released_and_pointer_nulled")
def unit_safe_close(twin=False):
    """PHRQ_io::safe_close(std::ostream **p): if *p is an owned stream (not NULL, not cout / cerr / clog) it is deleted once and *p
    is set to NULL; otherwise nothing is deleted and *p keeps its value.  (Callee contract used by the open / close units.)"""
    fnp = A.find_function(PIO, "PHRQ_io::safe_close", type_contains="ostream")
    r = U.new_unit("C04.safe_close.owned_stream_released_and_pointer_nulled", PIO, "PHRQ_io::safe_close(std::ostream **)", fnp)
    c = mk_ctx()
    ex = ExecStatic(c)
    fin = [s for s in ex.run(fnp, SX.State()) if sat(s.pc)]
    P = tm.sym("P0_stream_ptr", "P")
    v0 = tm.select(tm.sym("H0.mem:P", ("A", "P", "I", "P")), P, tm.num(0, "I"))
    got = set()
    for j, s in enumerate(fin):
        dl = [e for e in s.events if e.name == "delete"]
        v1 = tm.select(ex.heap_arr(s, ("m", "P")), P, tm.num(0, "I"))
        for hy, own in cases(s.pc, owned(v0) if not twin else tm.not_(tm.eq(v0, tm.NULL))):
            if own:
                ok(r, "owned.deleted_once_and_pointer_nulled%s" % ("" if "own" not in got else "#%d" % j), len(dl) == 1 and dl[0].args[0] is v0 and proved(hy, tm.eq(v1, tm.NULL)), "symex+z3", repr(dl) + repr(v1)); got.add("own")
            else:
                ok(r, "null_or_standard_stream.left_alone%s" % ("" if "std" not in got else "#%d" % j), not dl and proved(hy, tm.eq(v1, v0)), "symex+z3", repr(dl) + repr(v1), kind="frame"); got.add("std")
    ok(r, "reach.cases", got == {"own", "std"}, "symex", sorted(got), kind="vacuity", undecided=True)
    return r


SWITCHES = [("OutputFileOn", "output_ostream", "OutputFileName"), ("ErrorFileOn", "error_ostream", "ErrorFileName"), ("LogFileOn", "log_ostream", "LogFileName")]


@unit("C04.open_output_files.each_switch_reopens_exactly_its_own_stream_on_its_own_file")
def unit_open_files(twin=False):
    """IPhreeqc::open_output_files (start of every Run*): for each of the output / error / log switches independently: switch on ->
    an owned stream left from an earlier call is closed and a new file stream on THAT switch's own file name is installed in THAT
    switch's own stream pointer; switch off -> the pointer is not touched and no file is opened."""
    q = "IPhreeqc::open_output_files"
    fnp = A.find_function(IPQ, q)
    r = U.new_unit("C04.open_output_files.each_switch_reopens_exactly_its_own_stream_on_its_own_file", IPQ, q, fnp)
    c = mk_ctx(handlers={"safe_close": safe_close_contract, "PHRQ_io::safe_close": safe_close_contract})
    fn, ex, fin = run(IPQ, q, c)
    H0 = lambda nm, so: tm.select(tm.sym("H0.%s:%s" % (nm, so), ("A", "P", so)), THIS)
    pre_nonstd = [tm.and_(*[tm.not_(tm.eq(H0(st_, "P"), s_)) for s_ in STD]) for _sw, st_, _fn in SWITCHES]
    seen = set()
    for j, s in enumerate(fin):
        if not sat(list(s.pc) + pre_nonstd):
            continue
        news = [e for e in s.events if e.name.startswith("new ")]
        closes = [e for e in s.events if e.name == "safe_close"]
        for sw, strm, fname in SWITCHES:
            for hy, on in cases(list(s.pc) + pre_nonstd, H0(sw, "B")):
                v1 = fin_field(ex, s, strm, "P", THIS)
                mine_new = [e for e in news if e.args and has_sub(e.args[0], H0(fname if not (twin and sw == "LogFileOn") else "OutputFileName", "S"))]
                mine_close = [e for e in closes if e.args[0] is fmap(strm)]
                tag = "%s.%s" % (sw, "on" if on else "off")
                first = tag not in seen
                seen.add(tag)
                nm = tag if first else "%s#%d" % (tag, j)
                if on:
                    g = len(mine_new) == 1 and proved(hy, tm.eq(v1, mine_new[0].result)) and len(mine_close) <= 1 and \
                        (not mine_close or s.events.index(mine_close[0]) < s.events.index(mine_new[0])) and \
                        (proved(hy, tm.eq(H0(strm, "P"), tm.NULL)) or len(mine_close) == 1)
                    ok(r, nm + ".old_stream_closed_and_a_new_one_on_its_own_file_name_installed_in_its_own_pointer", g, "symex+z3", repr(mine_new)[:160] + " -> " + repr(v1)[:60])
                else:
                    ok(r, nm + ".pointer_untouched_and_no_file_opened", not mine_new and not mine_close and proved(hy, tm.eq(v1, H0(strm, "P"))), "symex+z3", repr(v1)[:80], kind="frame")
        allowed = {e for e in news if any(has_sub(e.args[0], H0(fn_, "S")) for _a, _b, fn_ in SWITCHES)}
        ok(r, "no_other_file_opened[path %d]" % j, len(allowed) == len(news) and len(news) <= 3, "trace", repr(news)[:200], kind="frame")
    ok(r, "reach.all_switch_states", len(seen) == 6, "symex", sorted(seen), kind="vacuity", undecided=True)
    r.assumptions += ["PHRQ_io::safe_close contract (C04.safe_close); precondition: the three stream pointers never hold cout / cerr / clog (IPhreeqc never installs them)",
                      "operator new of std::ofstream(name) opens the named file (event); the std::bad_alloc style `== NULL` branch is not separated"]
    return r


@unit("C04.close_output_files.no_owned_stream_survives_the_call")
def unit_close_files(twin=False):
    """IPhreeqc::close_output_files (end of every Run*): safe_close is applied to each of the output / log / dump / error stream
    pointers (so none keeps an owned stream), every selected-output definition's punch stream is closed and its pointer nulled, and
    the wrapper's own punch pointer is nulled: the next call finds no stream left from this one."""
    q = "IPhreeqc::close_output_files"
    fnp = A.find_function(IPQ, q)
    r = U.new_unit("C04.close_output_files.no_owned_stream_survives_the_call", IPQ, q, fnp)
    stash = LoopStash()
    c = mk_ctx(handlers={"safe_close": safe_close_contract, "PHRQ_io::safe_close": safe_close_contract}, functional=("begin", "end", "Get_punch_ostream"), loop=stash)
    fn, ex, fin = run(IPQ, q, c)
    want = ["output_ostream", "log_ostream", "dump_ostream", "error_ostream"] + (["punch_ostream"] if twin else [])
    for j, s in enumerate(fin):
        for strm in want:
            v1 = fin_field(ex, s, strm, "P", THIS)
            ok(r, "%s.holds_no_owned_stream_afterwards%s" % (strm, "" if j == 0 else "#%d" % j), proved(s.pc, tm.not_(owned(v1))) and any(e.name == "safe_close" and e.args[0] is fmap(strm) for e in s.events), "symex+z3", repr(v1)[:100])
        ok(r, "punch_ostream.nulled%s" % ("" if j == 0 else "#%d" % j), proved(s.pc, tm.eq(fin_field(ex, s, "punch_ostream", "P", THIS), tm.NULL)), "symex+z3", "")
        ok(r, "returns_0%s" % ("" if j == 0 else "#%d" % j), s.ret is not None and proved(s.pc, tm.eq(s.ret, tm.num(0, "I"))), "symex", repr(s.ret))
    ok(r, "reach.paths", 1 <= len(fin) <= 16, "symex", "%d paths" % len(fin), kind="vacuity", undecided=True)
    if len(stash.entry) < 1 or len({id(n_) for n_, _s in stash.entry}) != 1:
        raise Undecided("close_output_files: one loop over the selected-output definitions expected")
    node, st0 = stash.entry[0]
    PP = tm.select(tm.sym("H0.PhreeqcPtr:P", ("A", "P", "P")), THIS)
    SOM = fmap("SelectedOutput_map", PP)
    h = loop_head(ex, node, st0, sort="P")
    ok(r, "selected_output.every_definition_visited", all(walks_whole_set(h, SOM, st0.pc)), "symex+z3", "%r | %r | %r" % (h["first"], h["cond"], h["next"]))
    ent = tm.app("fld:second", (tm.app("mnode", (tm.sym("iter_" + h["name"], "P"),), "P"),), "P")
    for j, s in enumerate(stash.runs[0][2]):
        evs = U.iter_events(s)
        sc = [e for e in evs if e.name == "safe_close"]
        sp = [e for e in evs if sh(e) == "Set_punch_ostream"]
        g = len(sc) == 1 and sc[0].args[1] is tm.app("call:Get_punch_ostream", (ent,), "P") and len(sp) == 1 and sp[0].recv is ent and sp[0].args[0] is tm.NULL and evs.index(sc[0]) < evs.index(sp[0])
        ok(r, "selected_output.its_punch_stream_closed_then_its_pointer_nulled[path %d]" % j, g, "trace", repr(sc + sp)[:240])
    r.assumptions += ["PHRQ_io::safe_close contract (C04.safe_close); a standard stream may remain in a pointer (never owned)"]
    return r


# ------------------------------------------------------------------------------------------- read_input: per-simulation reset region
@unit("C04.read_input.per_simulation_reset_touches_only_transient_state")
def unit_read_input_reset(twin=False):
    """Phreeqc::read_input, region before the first line is read (executed once per simulation, whichever call delivers it):
    resets exactly the per-simulation transients - error / warning counters, next_keyword, the eleven sets of new definitions,
    every keyword counter keycount[0 .. KEY_COUNT_KEYWORDS), the USE bookkeeping (use.init()), the nine SAVE flags, the title and the
    echo switch - and writes nothing else: no definition (reactant stores, SELECTED_OUTPUT, RATES, PRINT options, ...) is touched."""
    q = "Phreeqc::read_input"
    fnp = A.find_function(RD, q)
    r = U.new_unit("C04.read_input.per_simulation_reset_touches_only_transient_state", RD, q, fnp)
    body = A.body_of(fnp).get("inner", [])
    pre = []
    for x in body:
        if x.get("kind") in ("WhileStmt", "DoStmt"):
            break
        if x.get("kind") == "ForStmt" and not any(y.get("kind") == "MemberExpr" and y.get("name") == "keycount" for y in A.walk(x)):
            break
        pre.append(x)
    pre = [p for p in pre if p.get("kind") != "DeclStmt"]
    if not pre:
        raise Undecided("read_input: reset region not found")
    stash = LoopStash()
    c = mk_ctx(loop=stash, log_stores=True)
    fn, ex, fin, names = exec_nodes(RD, q, pre, c)
    ok(r, "reach.one_path", len(fin) == 1, "symex", "%d paths" % len(fin), kind="vacuity", undecided=True)
    SV, USE = fmap("save"), fmap("use")
    scal = {"parse_error": tm.num(0, "I"), "input_error": tm.num(0, "I"), "count_warnings": tm.num(0, "I"), "next_keyword": tm.sym("E.KEY_NONE", "I")}
    saveflags = ["solution", "mix", "reaction", "kinetics", "pp_assemblage", "exchange", "surface", "gas_phase", "ss_assemblage"]
    if twin:
        saveflags.remove("kinetics")
    newsets = ["Rxn_new_" + k for k in ALL]
    for s in fin[:1]:
        evs = [e for e in s.events if e.name != "loop_passed"]
        st_this = {e.args[0].args[0]: e.args[1] for e in evs if e.name == "store" and e.recv is THIS and e.args[0].op == "str"}
        st_save = {e.args[0].args[0]: e.args[1] for e in evs if e.name == "store" and e.recv is SV and e.args[0].op == "str"}
        for f_, v in scal.items():
            ok(r, "reset.%s" % f_, st_this.get(f_) is v, "symex", repr(st_this.get(f_)))
        for f_ in saveflags:
            ok(r, "reset.save.%s=FALSE" % f_, st_save.get(f_) is not None and tm.isnum(st_save[f_]) and st_save[f_].args[0] == 0, "symex", repr(st_save.get(f_)))
        cl = {member_name(e.recv) for e in evs if sh(e) == "clear" and member_name(e.recv)}
        for n_ in newsets:
            ok(r, "reset.%s.cleared" % n_, n_ in cl, "trace", "")
        ok(r, "reset.title_cleared", "title_x" in cl, "trace", "")
        ui = [e for e in evs if sh(e) == "init" and e.recv is USE]
        ok(r, "reset.use_bookkeeping_initialised(use.init())", len(ui) == 1, "trace", repr(ui))
        eo = [e for e in evs if sh(e) == "Set_echo_on"]
        ok(r, "reset.echo_switched_on", len(eo) == 1 and eo[0].args[0] is tm.TRUE, "trace", repr(eo))
        # frame
        extra_this = set(st_this) - set(scal)
        extra_save = set(st_save) - set(saveflags)
        other_st = [e for e in evs if e.name == "store" and e.recv is not THIS and e.recv is not SV]
        other_calls = [e for e in evs if e.name != "store" and not (sh(e) == "clear" and member_name(e.recv) in set(newsets) | {"title_x"}) and e not in ui and e not in eo]
        ok(r, "frame.no_other_member_written", not extra_this and not extra_save and not other_st, "trace", "members %s save %s other %s" % (sorted(extra_this), sorted(extra_save), repr(other_st)[:120]), kind="frame")
        ok(r, "frame.no_other_call_made", not other_calls, "trace", repr(other_calls)[:200], kind="frame")
    runs = [x for x in stash.runs]
    if len(runs) != 1:
        raise Undecided("read_input: keyword-counter loop not found")
    node, e0, its = runs[0]
    h = loop_head(ex, node, e0)
    ok(r, "reset.keycount.every_keyword_index_visited", tm.isnum(h["first"]) and h["first"].args[0] == 0 and proved(e0.pc, tm.eq(h["cond"], tm.lt(h["K"], tm.sym("E.KEY_COUNT_KEYWORDS", "I")))) and proved(e0.pc, tm.eq(h["next"], tm.add(h["K"], tm.num(1, "I")))), "symex+z3", "%r | %r | %r" % (h["first"], h["cond"], h["next"]))
    KC = tm.select(tm.sym("H0.#vdata:P", ("A", "P", "P")), fmap("keycount"))
    for j, s in enumerate(its):
        st = [e for e in U.iter_events(s) if e.name == "store"]
        oth = [e for e in U.iter_events(s) if e.name not in ("store", "iter_begin")]
        g = len(st) == 1 and st[0].recv is KC and st[0].args[0] is s.locals.get(h["did"]) and tm.isnum(st[0].args[1]) and st[0].args[1].args[0] == 0
        ok(r, "reset.keycount.counter_i_zeroed_and_nothing_else[path %d]" % j, g and not oth, "trace", repr(st + oth)[:200])
    r.assumptions += ["cxxUse::init() resets the USE flags / numbers / pointers (Use.cpp; not under this unit)", "the region is the straight-line code of read_input before its first input line is read; it is executed from an arbitrary state",
                      "keycount is a std::vector<int> (vector model)"]
    return r


# ----------------------------------------------------------------------------------- do_run: one simulation = the stand-alone sequence
import re as _re
ENGINE_STEPS = ("read_input", "tidy_model", "initial_solutions", "initial_exchangers", "initial_surfaces", "initial_gas_phases", "reactions", "inverse_models", "advection",
                "transport", "run_as_cells", "do_mixes", "copy_entities", "dump_entities", "delete_entities")


def _norm(t):
    """forget WHICH version of the heap a flag was read from and identify the wrapper's engine pointer with the engine itself"""
    mp = {}
    for x in tm.subterms(t):
        if x.op == "sym" and isinstance(x.args[0], str):
            m = _re.match(r"^(H\d+|Hiter)\.(.*)$", x.args[0])
            if m:
                mp[x] = tm.sym("H0." + m.group(2), x.sort)
    t = tm.substitute(t, mp) if mp else t
    pp = tm.select(tm.sym("H0.PhreeqcPtr:P", ("A", "P", "P")), THIS)
    return tm.substitute(t, {pp: THIS})


def _sim_iteration(rel, q):
    stash = LoopStash()
    c = mk_ctx(functional=("Get_advect_in", "Get_trans_in", "begin", "end", "size", "empty", "Get_bool_any", "find"), loop=stash)
    c.merge_ifs = True
    fn, ex, fin = run(rel, q, c)
    outer = loops_of(fn)[0]
    rr = [x for x in stash.runs if x[0] is outer]
    if len(rr) != 1:
        raise Undecided("%s: simulation loop not found" % q)
    return fn, ex, fin, rr[0]


@unit("C04.do_run.each_simulation_takes_the_same_steps_as_the_stand-alone_loop")
def unit_do_run_mirror(twin=False):
    """IPhreeqc::do_run, one pass of its simulation loop, against Phreeqc::run_simulations: whatever call a simulation is delivered
    in, and whether it is the first of its call or not, the engine steps taken are the stand-alone ones in the same order, each
    under the same engine flag (read_input; tidy_model; initial_* when new_*; reactions; inverse_models; advection / transport when
    requested; run_as_cells; do_mixes; copy_entities when new_copy; dump; delete_entities), EOF of read_input ends the call, the
    simulation counter restarts at 1 per call and steps by one, and the dump into the string sits between COPY and DELETE."""
    fnd, exd, find_, (nd, e0d, itd) = _sim_iteration(IPQ, "IPhreeqc::do_run")
    fns, exs, fins, (ns, e0s, its) = _sim_iteration(MS, "Phreeqc::run_simulations")
    r = U.new_unit("C04.do_run.each_simulation_takes_the_same_steps_as_the_stand-alone_loop", IPQ, "IPhreeqc::do_run", fnd)
    ref_states = [s for s in its if s.status in ("run", "cont")]
    if len(ref_states) != 1:
        raise Undecided("run_simulations: %d normal iteration states" % len(ref_states))
    ref = [(sh(e), tuple(_norm(a) for a in e.args if isinstance(a, tm.T)), _norm(e.guard)) for e in U.iter_events(ref_states[0]) if sh(e) in ENGINE_STEPS]
    if twin:
        ref = [x for x in ref if x[0] != "do_mixes"]
    ok(r, "reach.reference_sequence", len(ref) >= 14, "symex", [x[0] for x in ref], kind="vacuity", undecided=True)
    DumpOn = tm.select(tm.sym("H0.DumpOn:B", ("A", "P", "B")), THIS)
    runs_ = [s for s in itd if s.status in ("run", "cont")]
    brks = [s for s in itd if s.status == "brk"]
    for j, s in enumerate(runs_):
        got = [(sh(e), tuple(_norm(a) for a in e.args if isinstance(a, tm.T)), _norm(e.guard)) for e in U.iter_events(s) if sh(e) in ENGINE_STEPS]
        tag = "simulation[%d]" % j
        ok(r, tag + ".same_steps_in_the_same_order", [x[0] for x in got] == [x[0] for x in ref], "trace", "got %s" % [x[0] for x in got])
        for (n1, a1, g1), (n2, a2, g2) in zip(got, ref):
            if n1 != n2:
                continue
            want = g2 if n1 != "dump_entities" else tm.and_(DumpOn, g2)
            ok(r, tag + ".%s.under_the_same_engine_flag%s" % (n1, "(and the dump-file switch)" if n1 == "dump_entities" else ""), proved(s.pc, tm.eq(g1, want)), "trace+z3", "%r vs %r" % (g1, want))
            ok(r, tag + ".%s.same_arguments" % n1, a1 == a2, "trace", "%r vs %r" % (a1, a2))
        evs = U.iter_events(s)
        do = [e for e in evs if sh(e) == "dump_ostream"]
        ce = [e for e in evs if sh(e) == "copy_entities"]
        de = [e for e in evs if sh(e) == "delete_entities"]
        ok(r, tag + ".dump_into_the_string_sits_between_COPY_and_DELETE", len(do) == 1 and ce and de and evs.index(ce[0]) < evs.index(do[0]) < evs.index(de[0]), "trace", repr(do)[:120])
    ok(r, "reach.first_and_later_simulation_of_a_call", len(runs_) >= 1, "symex", "%d normal iteration state(s)" % len(runs_), kind="vacuity", undecided=True)
    for j, s in enumerate(brks):
        steps = [sh(e) for e in U.iter_events(s) if sh(e) in ENGINE_STEPS]
        ri = [e for e in U.iter_events(s) if sh(e) == "read_input"]
        ok(r, "end_of_input[%d].ends_the_call_right_after_read_input" % j, steps == ["read_input"] and len(ri) == 1 and any("ret_read_input" in repr(p) for p in s.pc), "trace", steps)
    ok(r, "reach.end_of_input", len(brks) >= 1, "symex", len(brks), kind="vacuity", undecided=True)
    # header of the simulation loop and per-call prologue
    init, cond, inc, body = exd.loop_parts(nd)
    PP = tm.select(tm.sym("H0.PhreeqcPtr:P", ("A", "P", "P")), THIS)
    c2 = mk_ctx(); ex2 = ExecStatic(c2); st = arb_state(ex2, fnd, c2)
    s1 = ex2.exec(init, [st.clone()]) if init is not None else []
    v = fin_field(ex2, s1[0], "simulation", "I", PP) if len(s1) == 1 else None
    ok(r, "simulation_counter.restarts_at_1_in_every_call", v is not None and tm.isnum(v) and v.args[0] == 1, "symex", repr(v))
    s2 = ex2.ev(inc, st.clone()) if inc is not None else []
    v2 = fin_field(ex2, s2[0][0], "simulation", "I", PP) if len(s2) == 1 else None
    ok(r, "simulation_counter.steps_by_one", v2 is not None and proved([], tm.eq(v2, tm.add(tm.select(tm.sym("H0.simulation:I", ("A", "P", "I")), PP), tm.num(1, "I")))), "symex+z3", repr(v2))
    ok(r, "simulation_loop.ends_only_at_end_of_input", cond is None, "ast", "")
    fri = fin_field(exd, e0d, "first_read_input", "I", tm.select(exd.heap_arr(e0d, ("f", "PhreeqcPtr", "P")), THIS))
    ok(r, "per_call.first_read_input_raised_before_the_loop", tm.isnum(fri) and fri.args[0] == 1, "symex", repr(fri))
    r.assumptions += ["both loops are executed as one arbitrary iteration with the branches joined; every callee is an opaque event; guards are compared after forgetting which heap version a flag was read from (flags are read at the same point of the sequence in both functions)",
                      "Phreeqc::run_simulations is the reference (the stand-alone program): it is read, not verified", "the IPhreeqc-only parts of the pass (selected-output table creation, punch file reopening, pr.all) are not under this contract"]
    return r


# ------------------------------------------------------------------------------------------------------------------ tidy_punch
BIND = {"totals": "master_bsearch", "molalities": "s_search", "activities": "s_search", "pure_phases": "phase_bsearch", "si": "phase_bsearch", "gases": "phase_bsearch"}


@unit("C04.tidy_punch.bindings_and_headings_rebuilt_from_the_current_definitions_nothing_carried_over")
def unit_tidy_punch(twin=False):
    """Phreeqc::tidy_punch: (1) for EVERY selected-output definition every name of its totals / molalities / activities /
    pure_phases / si / gases lists is re-bound from the name itself (element i's pointer := lookup(element i's name), the lookup that
    fits the list) - no binding survives from an earlier run; (2) headings are written only for definitions flagged new, to that
    definition's own stream, with the USER_PUNCH of its own number, the flag is lowered afterwards and pr.punch is put back; (3) on
    return no pointer to a definition, user punch or punch stream is left behind."""
    q = "Phreeqc::tidy_punch"
    fnp = A.find_function(TD, q)
    r = U.new_unit("C04.tidy_punch.bindings_and_headings_rebuilt_from_the_current_definitions_nothing_carried_over", TD, q, fnp)
    stash = LoopStash()
    getters = tuple("Get_" + k for k in BIND) + ("begin", "end", "size", "Get_new_def", "Get_punch_ostream", "Get_n_user", "find", "c_str")
    c = mk_ctx(functional=getters, loop=stash, log_stores=True)
    c.merge_ifs = True
    fn, ex, fin = run(TD, q, c)
    L = loops_of(fn)
    SOM = fmap("SelectedOutput_map")
    outer = [(n, e0, its) for n, e0, its in stash.runs if any(e.name == "store" and e.args[0].op == "str" and e.args[0].args[0] == "current_selected_output" for s in its for e in U.iter_events(s))]
    outer = [x for x in outer if not any(x[0] in list(A.walk(y[0])) and x[0] is not y[0] for y in stash.runs)]
    if len(outer) != 2:
        raise Undecided("tidy_punch: two passes over the definitions expected, found %d" % len(outer))
    (n1, e1, it1), (n2, e2, it2) = outer
    DEF = tm.app("fld:second", (tm.app("mnode", (tm.sym("iter_so_it", "P"),), "P"),), "P")
    for tag, (n_, e_, its_) in (("rebind", outer[0]), ("headings", outer[1])):
        h = loop_head(ex, n_, e_, sort="P")
        ok(r, "%s.every_definition_visited" % tag, all(walks_whole_set(h, SOM, e_.pc)), "symex+z3", "%r | %r | %r" % (h["first"], h["cond"], h["next"]))
    # (1) re-binding loops: inner loops of the first pass
    seen = {}
    inner = [(n, e0, its) for n, e0, its in stash.runs if n is not n1 and n in list(A.walk(n1))]
    for n_, e0_, its_ in inner:
        for s in its_:
            st = [e for e in U.iter_events(s) if e.name == "store" and e.args[0].op == "str" and e.args[0].args[0] == "second"]
            if len(st) != 1:
                continue
            elem = st[0].recv
            lst = next((k for k in BIND if ("call:Get_%s(" % k) in repr(elem)), None)
            if lst is None or lst in seen:
                continue
            seen[lst] = True
            hh = loop_head(ex, n_, e0_)
            vec = elem.args[0].args[1][0] if elem.op == "+" and elem.args[0].op == "select" else None
            okh = tm.isnum(hh["first"]) and hh["first"].args[0] == 0 and vec is not None and proved(e0_.pc, tm.eq(hh["cond"], tm.lt(hh["K"], tm.select(ex.heap_arr(e0_, ("f", "#vsize", "I")), vec)))) and proved(e0_.pc, tm.eq(hh["next"], tm.add(hh["K"], tm.num(1, "I"))))
            ok(r, "rebind.%s.every_element_visited" % lst, okh, "symex+z3", "%r | %r | %r" % (hh["first"], hh["cond"], hh["next"]))
            look = [e for e in U.iter_events(s) if sh(e) in set(BIND.values()) | {"calculate_value_search"}]
            want = BIND[lst if not (twin and lst == "si") else "totals"]
            name_of_same_elem = look and any(has_sub(a, elem) for a in look[0].args if isinstance(a, tm.T)) and "first" in repr(look[0].args[0])
            ok(r, "rebind.%s.element_i_pointer_is_the_fitting_lookup_of_element_i's_own_name" % lst, len(look) == 1 and sh(look[0]) == want and st[0].args[1] is look[0].result and bool(name_of_same_elem) and proved(s.pc, st[0].guard) and proved(s.pc, look[0].guard), "trace+z3", repr(look)[:160] + " guard " + repr(st[0].guard)[:80])
            own_def = any(e.name == "store" and e.args[0].op == "str" and e.args[0].args[0] == "current_selected_output" and e.args[1] is DEF for e in e0_.events) or DEF in tm.subterms(elem)
            ok(r, "rebind.%s.list_of_the_definition_being_visited" % lst, own_def, "trace", repr(elem)[:160])
    ok(r, "rebind.all_six_name_lists_rebound", set(seen) == set(BIND), "trace", "missing %s" % sorted(set(BIND) - set(seen)))
    # (2) headings pass
    newdef = tm.app("call:Get_new_def", (DEF,), "B")
    got = set()
    for j, s in enumerate(it2):
        evs = U.iter_events(s)
        heads = [e for e in evs if sh(e) == "fpunchf_heading"]
        for hy, isnew in cases(s.pc, tm.and_(tm.not_(tm.eq(DEF, tm.NULL)), newdef)):
            if not isnew:
                ok(r, "headings.definition_not_flagged_new.nothing_written%s" % ("" if "old" not in got else "#%d" % j), not heads and not [e for e in evs if sh(e) in ("Set_new_def", "Set_punch_ostream")], "trace", repr(heads)[:100], kind="frame"); got.add("old"); continue
            tg = "" if "new" not in got else "#%d" % j
            got.add("new")
            sp = [e for e in evs if sh(e) == "Set_punch_ostream"]
            ok(r, "headings.new.written_to_the_definition's_own_stream%s" % tg, len(sp) == 1 and sp[0].args[0] is tm.app("call:Get_punch_ostream", (DEF,), "P") and heads and evs.index(sp[0]) < evs.index(heads[0]), "trace", repr(sp)[:160])
            up = [e for e in evs if e.name == "store" and e.args[0].op == "str" and e.args[0].args[0] == "current_user_punch"]
            ok(r, "headings.new.user_punch_of_the_definition's_own_number%s" % tg, len(up) == 1 and has_sub(up[0].args[1], tm.app("call:Get_n_user", (DEF,), "I")) and has_sub(up[0].args[1], fmap("UserPunch_map")), "trace", repr(up)[:200])
            nd = [e for e in evs if sh(e) == "Set_new_def"]
            def cur_def(t):
                """the definition being visited: directly, or read back from the member current_selected_output (which the pass sets to it first)"""
                return t is DEF or (t.op == "select" and t.args[0].op == "sym" and t.args[0].args[0].endswith(".current_selected_output:P") and t.args[1][0] is THIS)
            ok(r, "headings.new.flag_lowered_after_the_headings%s" % tg, len(nd) == 1 and cur_def(nd[0].recv) and nd[0].args[0] is tm.FALSE and evs.index(nd[0]) > evs.index(heads[-1]), "trace", repr(nd)[:120])
            pw = [e for e in evs if e.name == "store" and e.recv is fmap("pr") and e.args[0].op == "str" and e.args[0].args[0] == "punch"]
            back = len(pw) == 2 and tm.isnum(pw[0].args[1]) and pw[0].args[1].args[0] == 1 and pw[1].args[1].op == "select" and pw[1].args[1].args[0].op == "sym" and pw[1].args[1].args[0].args[0].endswith(".punch:I") and pw[1].args[1].args[1][0] is fmap("pr")
            ok(r, "headings.new.pr.punch_forced_on_for_the_headings_and_put_back%s" % tg, back and evs.index(pw[0]) < evs.index(heads[0]) and evs.index(pw[1]) > evs.index(heads[-1]), "trace", repr(pw)[:200])
            ok(r, "headings.new.line_terminated%s" % tg, heads and heads[-1].args and "\\n" in repr(heads[-1].args[0]), "trace", repr(heads[-1].args)[:60] if heads else "")
    ok(r, "reach.headings", got == {"old", "new"}, "symex", sorted(got), kind="vacuity", undecided=True)
    # the member current_selected_output designates the definition being visited throughout a pass: it is assigned only as a direct
    # statement of a pass body (or after the passes), never inside the inner loops
    asg = [x for x in A.walk(fn) if x.get("kind") == "BinaryOperator" and x.get("opcode") == "=" and strip(x["inner"][0]).get("kind") == "MemberExpr" and strip(x["inner"][0]).get("name") == "current_selected_output"]
    direct = set()
    for n_ in (n1, n2):
        b_ = ex.loop_parts(n_)[3]
        direct |= {id(y) for y in b_.get("inner", [])}
    direct |= {id(y) for y in A.body_of(fn).get("inner", [])}
    ok(r, "passes.current_definition_member_is_set_once_per_visit_and_not_inside_inner_loops", len(asg) == 3 and all(id(x) in direct for x in asg), "ast", "%d assignments" % len(asg))
    # (3) nothing left behind
    for j, s in enumerate(fin):
        lp = [i for i, e in enumerate(s.events) if e.name == "loop_passed"]
        tail = s.events[lp[-1] + 1:] if lp else s.events
        stt = {e.args[0].args[0]: e.args[1] for e in tail if e.name == "store" and e.recv is THIS and e.args[0].op == "str"}
        sp = [e for e in tail if sh(e) == "Set_punch_ostream"]
        ok(r, "on_return.no_pointer_to_a_definition_user_punch_or_stream_left%s" % ("" if j == 0 else "#%d" % j), stt.get("current_selected_output") is tm.NULL and stt.get("current_user_punch") is tm.NULL and len(sp) == 1 and sp[0].args[0] is tm.NULL, "trace", repr(stt) + repr(sp)[:100])
    r.assumptions += ["which lookup fits which list is the manual's meaning of the list (totals: master species; molalities / activities: aqueous species; equilibrium_phases / si / gases: phases)",
                      "SelectedOutput getters functional; loops executed as arbitrary iterations with joined branches; the text of the individual headings is not under this contract (C05 units)"]
    return r


# --------------------------------------------------------------------------------- per-call simulation counter: a taint contract
STEP_FUNCS = [(MS, "Phreeqc::set_use"), (MS, "Phreeqc::reactions"), (MS, "Phreeqc::copy_use"), (MS, "Phreeqc::saver"), (RC, "Phreeqc::run_as_cells"), (MS, "Phreeqc::do_mixes"), (MS, "Phreeqc::copy_entities"),
              (RC, "Phreeqc::dump_entities"), (RC, "Phreeqc::delete_entities"), (MS, "Phreeqc::xsolution_save"), (MS, "Phreeqc::xexchange_save"), (MS, "Phreeqc::xgas_save"),
              (MS, "Phreeqc::xpp_assemblage_save"), (MS, "Phreeqc::xss_assemblage_save"), (MS, "Phreeqc::xsurface_save")]
TEXT_SINKS = ("snprintf", "sprintf", "sformatf", "operator<<")


def _reads_counter(t):
    if not isinstance(t, tm.T):
        return False
    for x in [t] + list(tm.subterms(t)):
        if x.op == "select" and x.args[0].op in ("sym", "store"):
            b = x.args[0]
            while b.op == "store":
                b = b.args[0]
            if b.op == "sym" and isinstance(b.args[0], str) and b.args[0].split(".", 1)[-1] == "simulation:I":
                return True
    return False


@unit("C04.simulation_steps.per_call_simulation_counter_reaches_nothing_but_description_text")
def unit_counter_taint(twin=False):
    """The engine's only per-call counter is `simulation` (it restarts at 1 in every Run* call, C04.do_run...): in the steps that
    follow read_input - set_use, reactions, copy_use, saver and the x*_save writers, run_as_cells, do_mixes, copy / dump /
    delete_entities - no branch, loop bound, call argument or stored value depends on it; it only flows into formatted description
    text (`... after simulation N.`).  So what these steps compute and save does not depend on where the input was cut."""
    r = U.new_unit("C04.simulation_steps.per_call_simulation_counter_reaches_nothing_but_description_text", MS, "Phreeqc::reactions / saver / run_as_cells / ... (15 functions)", A.find_function(MS, "Phreeqc::saver"))
    sinks = TEXT_SINKS if not twin else ("sformatf",)
    nsink = 0
    for rel, q in STEP_FUNCS:
        stash = LoopStash()
        c = mk_ctx(loop=stash, log_stores=True)
        c.merge_ifs = True
        fn, ex, fin = run(rel, q, c)
        allst = list(fin) + [s for n, e0, its in stash.runs for s in its]
        short = q.split("::")[-1]
        ctrl, data = [], []
        for s in allst:
            for p_ in s.pc:
                if _reads_counter(p_):
                    ctrl.append(repr(p_)[:100])
            for e in s.events:
                if _reads_counter(e.guard):
                    ctrl.append("guard of %s: %s" % (sh(e), repr(e.guard)[:80]))
                if any(_reads_counter(a) for a in e.args) or (e.recv is not None and _reads_counter(e.recv)):
                    if sh(e) in sinks:
                        nsink += 1
                    else:
                        data.append("%s(%s)" % (sh(e) if e.name != "store" else "store " + repr(e.args[0]), ", ".join(repr(a)[:40] for a in e.args)))
        for n_, e0_, its_ in stash.runs:
            try:
                h_ = loop_head(ex, n_, e0_, sort="I")
            except (Undecided, KeyError, TypeError):
                continue
            for part in ("first", "cond", "next"):
                if _reads_counter(h_.get(part)):
                    ctrl.append("loop header %s: %s" % (part, repr(h_[part])[:80]))
        ok(r, "%s.no_branch_or_loop_bound_depends_on_the_counter" % short, not ctrl, "symex", "; ".join(sorted(set(ctrl)))[:300])
        ok(r, "%s.counter_flows_only_into_formatted_text" % short, not data, "symex", "; ".join(sorted(set(data)))[:300])
        ok(r, "reach.%s" % short, len(allst) >= 1, "symex", "%d states" % len(allst), kind="vacuity", undecided=True)
    ok(r, "reach.description_text_sinks", nsink >= 3, "symex", "%d formatted-text uses of the counter" % nsink, kind="vacuity", undecided=True)
    r.assumptions += ["every callee is an opaque event (a callee that itself reads `simulation` is outside this unit: the existing text scan C04.engine.no_decision_keyed_on... covers comparisons with constants)",
                      "a value that went through memory across a havocked loop is not tracked; formatted text (snprintf / sformatf / operator<<) is allowed to carry the counter (descriptions `... after simulation N.`)"]
    return r

from props.c04_ext2 import UNITS as _U2; UNITS = UNITS + _U2
from props.c04_ext3 import UNITS as _U3; UNITS = UNITS + _U3
from props.c04_ext5 import UNITS as _U5; UNITS = UNITS + _U5
