"""C15 (extension): intensive / extensive separation below cxxSolution::add and multiply.
cxxNameDouble::add_intensive and add_log_activities (gammas, master activities): entry k of the result is the weighted mean f1*this[k] + f2*other[k]
(of the activities 10^x for log activities), so mixing a solution with itself (same entries, f1 + f2 = 1) leaves every entry unchanged;
cxxSolution::Multiply_isotopes / Add_isotopes: isotope totals are amounts (scaled by the extensive factor), ratios are not scaled by it."""
from props.common import *
from vf.core import FAILED, DISCHARGED, UNDECIDED

ND = "src/phreeqcpp/NameDouble.cxx"
SOL = "src/phreeqcpp/Solution.cxx"
VK = ("m2", "#mval", "R", "S"); HK = ("m2", "#mhas", "B", "S")


def ndctx(functional=()):
    c = ctx(functional=("Get_total", "Get_ratio", "Get_ratio_uncertainty", "Get_ratio_uncertainty_defined", "Get_isotope_name") + tuple(functional))
    c.stl.map_like.add("cxxNameDouble")
    return c


def _base(a):
    while a.op == "store":
        a = a.args[0]
    return a


def unit_intensive_mixing(twin=False):
    fn = A.find_function(ND, "cxxNameDouble::add_intensive")
    r = U.new_unit("C15.NameDouble.intensive_entries_are_weighted_means_self_mix_is_identity", ND, "cxxNameDouble::add_intensive", fn)
    f1, f2 = tm.sym("L_f1", "R"), tm.sym("L_f2", "R")
    for q, tag in (("cxxNameDouble::add_intensive", "value"), ("cxxNameDouble::add_log_activities", "log_activity")):
        f, ex, its, info = U.run_loop_isolated(ND, q, 0, ctx=ndctx())
        seen = set()
        for s in live(its, ("run", "cont")):
            it = local(info, s, "it")
            node = tm.app("mnode", (it,), "P")
            key = tm.select(ex.heap_arr(s, ("f", "first", "S")), node)
            val = tm.select(ex.heap_arr(s, ("f", "second", "R")), node)
            if VK not in s.heap:
                r.add("%s.iteration_writes_this[key]" % tag, FAILED, "symex", 0, ""); continue
            new = tm.select(s.heap[VK], THIS, key)
            old = tm.select(_base(s.heap[VK]), THIS, key)
            had = tm.select(_base(s.heap[HK]), THIS, key)
            for hy, present in cases(list(s.pc), had):
                seen.add(present)
                if tag == "value":
                    spec = (f1 * old + f2 * val) if present else f2 * val
                    if twin and present:
                        spec = old + f2 * val
                    U.discharge_eq_real(r, "value[%s].this'[k]==%s" % ("present" if present else "absent", "f1*this[k]+f2*other[k]" if present else "f2*other[k]"), hy, new, spec)
                    if present:
                        # self-mix lemma: equal entries and f1 + f2 = 1 give the same entry back
                        U.discharge_eq_real(r, "value.lemma.self_mix_is_identity(f1+f2==1,this[k]==other[k])", [], tm.substitute(spec, {f2: tm.num(1) - f1, val: old}) if not twin else spec, old, kind="lemma")
                else:
                    p10 = lambda x: tm.app("pow", (tm.num(10), x), "R")
                    spec = tm.app("log10", (f1 * p10(old) + f2 * p10(val),), "R") if present else val + tm.app("log10", (f2,), "R")
                    U.discharge_eq_real(r, "log_activity[%s].this'[k]==%s" % ("present" if present else "absent", "log10(f1*10^this[k]+f2*10^other[k])" if present else "other[k]+log10(f2)"), hy, new, spec)
                    if present:
                        inner = f1 * p10(old) + f2 * p10(val)
                        U.discharge_eq_real(r, "log_activity.lemma.self_mix_argument_is_10^this[k](f1+f2==1)", [], tm.substitute(inner, {f2: tm.num(1) - f1, val: old}), p10(old), kind="lemma")
            ws = [(k, i) for (k, i, v) in U.iter_writes(s) if k[1] == "#mval" and not (i[0] is THIS and i[1] is key)]
            r.add("%s.frame_only_entry_k" % tag, DISCHARGED if not ws else FAILED, "symex", 0, repr(ws)[:150], kind="frame")
        r.add("reach.%s" % tag, DISCHARGED if seen == {True, False} else UNDECIDED, "symex", 0, repr(sorted(seen)), kind="vacuity")
    r.assumptions += ["std::map find / operator[] semantics (STL model); log10(10^x) == x is used only in the reading of the lemma (the argument of log10 is shown to be 10^this[k])", "doubles as reals"]
    return r


def unit_isotope_scaling(twin=False):
    fn = A.find_function(SOL, "cxxSolution::Multiply_isotopes")
    r = U.new_unit("C15.Solution.isotopes.totals_are_amounts_ratios_are_not", SOL, "cxxSolution::Multiply_isotopes", fn)
    ext = tm.sym("L_extensive", "R"); inten = tm.sym("L_intensive", "R")
    f, ex, its, info = U.run_loop_isolated(SOL, "cxxSolution::Multiply_isotopes", 0, ctx=ndctx())
    n = 0
    for s in live(its, ("run", "cont")):
        n += 1
        evs = U.iter_events(s)
        st = [e for e in evs if e.name.endswith("Set_total")]
        gt = [e for e in evs if e.name.endswith("Get_total")]
        other = [e for e in evs if e.name.split("::")[-1].startswith("Set_") and not e.name.endswith("Set_total")]
        ok = len(st) == 1 and len(gt) == 1 and st[0].recv is gt[0].recv
        r.add("multiply.total_of_the_same_isotope_is_rewritten", DISCHARGED if ok else FAILED, "trace", 0, "")
        if ok:
            U.discharge_eq_real(r, "multiply.total*=factor", list(s.pc), st[0].args[0], gt[0].result * (ext if not twin else ext * ext))
        r.add("multiply.ratio_and_uncertainty_untouched", DISCHARGED if not other else FAILED, "trace", 0, repr([e.name for e in other]), kind="frame")
    r.add("reach.multiply", DISCHARGED if n else UNDECIDED, "symex", 0, "%d" % n, kind="vacuity")
    f, ex, its, info = U.run_loop_isolated(SOL, "cxxSolution::Add_isotopes", 0, ctx=ndctx())
    seen = set()
    for s in live(its, ("run", "cont")):
        evs = U.iter_events(s)
        sets = {e.name.split("::")[-1]: e for e in evs if e.name.split("::")[-1].startswith("Set_")}
        gets = [e for e in evs if e.name.split("::")[-1] in ("Get_total", "Get_ratio", "Get_ratio_uncertainty")]
        if "Set_ratio" in sets:
            seen.add("present")
            me = sets["Set_total"].recv
            g = lambda nm, mine: [e.result for e in gets if e.name.endswith(nm) and ((e.recv is me) == mine)]
            try:
                U.discharge_eq_real(r, "add[present].total+=other_total*extensive", list(s.pc), sets["Set_total"].args[0], g("Get_total", True)[0] + g("Get_total", False)[0] * ext)
                U.discharge_eq_real(r, "add[present].ratio+=other_ratio*intensive(not_the_extensive_factor)", list(s.pc), sets["Set_ratio"].args[0], g("Get_ratio", True)[0] + g("Get_ratio", False)[0] * inten)
            except IndexError:
                r.add("add[present].reads_both_isotopes", FAILED, "trace", 0, repr([e.name for e in gets]))
        elif "Set_total" in sets:
            seen.add("absent")
            src_ = [e for e in gets if e.name.endswith("Get_total")]
            if src_:
                U.discharge_eq_real(r, "add[absent].total=other_total*extensive", list(s.pc), sets["Set_total"].args[0], src_[0].result * ext)
            else:
                r.add("add[absent].reads_the_other_total", FAILED, "trace", 0, "")
    r.add("reach.add", DISCHARGED if seen == {"present", "absent"} else UNDECIDED, "symex", 0, repr(sorted(seen)), kind="vacuity")
    r.assumptions += ["getters of cxxSolutionIsotope are functional, setters opaque (their argument is the value stored)", "the callers' choice of the intensive factor (f2 of cxxSolution::add) is under C15.Solution.add..."]
    return r



def unit_spread_columns(twin=False):
    """SOLUTION_SPREAD: the text parsed for column i of a data row is  heading[i] + " " + data[i] + " " + units[i]  - element name, value and
    (optional) unit all from the SAME column, whatever the order of the columns; the resulting component is stored under its own name."""
    SP = "src/phreeqcpp/spread.cpp"
    q = "Phreeqc::spread_row_to_solution"
    fn = A.find_function(SP, q)
    r = U.new_unit("C15.spread_row_to_solution.name_value_and_unit_of_a_component_come_from_one_column", SP, q, fn)
    loops = [x for x in A.walk(fn) if x.get("kind") == "ForStmt" and "string_duplicate" in text_of(SP, x["inner"][-1])]
    if len(loops) != 1:
        raise Undecided("column loop not found (%d)" % len(loops))
    stm = loops[0]["inner"][-1].get("inner", [])
    k = next((i for i, x in enumerate(stm) if "string_duplicate" in text_of(SP, x)), None)
    if k is None:
        raise Undecided("string_duplicate statement not found")
    c = ctx(functional=("strcmp_nocase",), enums_from="Phreeqc.h", enums=["TRUE", "FALSE", "OK", "ERROR", "CONTINUE", "EMPTY", "UNKNOWN", "KEYWORD"])
    f, ex, fin, info = region(SP, q, stm[:k + 1], c)
    i = tm.sym("L_i", "I")
    col = lambda s, row: tm.T("+", (tm.select(entry_arr(ex, s, ("f", "#vdata", "P")), tm.app("fld:str_vector", (tm.sym("L_" + row, "P"),), "P")), i), "P")
    seen = set()
    STR = tm.sym("L_string", "P") if False else None
    for s in live(fin, ("run", "cont")):
        pieces = [e for e in s.events if e.name.split("::")[-1] in ("operator=", "append") and e.args]
        dup = [e for e in s.events if e.name.endswith("string_duplicate")]
        if s.status == "cont":
            seen.add("skipped")
            r.add("skipped_column.nothing_is_parsed", DISCHARGED if not dup else FAILED, "trace", 0, "", kind="frame")
            continue
        hy = list(s.pc)
        units = tm.sym("L_units", "P")
        cnt_u = fld0(ex, s, "count", "I", units)
        typ_u = tm.select(entry_arr(ex, s, ("m", "I")), tm.select(entry_arr(ex, s, ("f", "#vdata", "P")), tm.app("fld:type_vector", (units,), "P")), i)
        has_u = tm.and_(tm.not_(tm.eq(units, tm.NULL)), tm.lt(i, cnt_u), tm.not_(tm.eq(typ_u, tm.num(c.enum_values["EMPTY"], "I"))))
        for h2, withu in cases(hy, has_u):
            want = [col(s, "heading"), tm.strc(" "), col(s, "data") if not twin else col(s, "heading"), tm.strc(" ")] + ([col(s, "units")] if withu else [])
            seen.add("with_unit" if withu else "without_unit")
            got = [e.args[0] for e in pieces]
            ok = len(got) == len(want) and all(a is b or (a.op == "str" and b.op == "str" and a.args[0].strip('"') == b.args[0].strip('"')) for a, b in zip(got, want))
            r.add("column[%s].text==heading[i]+' '+data[i]+' '%s" % ("unit" if withu else "no_unit", "+units[i]" if withu else ""), DISCHARGED if ok else FAILED, "trace", 0, repr(got)[:300], kind="trace")
            okd = len(dup) == 1 and pieces and dup[0].args[0].op == "app" and dup[0].args[0].args[0] == "c_str"
            r.add("column[%s].the_assembled_text_is_what_is_parsed" % ("unit" if withu else "no_unit"), DISCHARGED if okd else FAILED, "trace", 0, repr([e.args for e in dup])[:200], kind="trace")
    r.add("reach.columns", DISCHARGED if seen == {"skipped", "with_unit", "without_unit"} else UNDECIDED, "symex", 0, repr(sorted(seen)), kind="vacuity")
    t = text_of(SP, loops[0])
    r.add("component_read_from_that_text_and_stored_under_its_own_name", DISCHARGED if "temp_comp.read(char_string,&temp_solution)" in t and "initial_data_ptr->Get_comps()[temp_comp.Get_description()]=temp_comp" in t else FAILED, "syntactic", 0, "", kind="structural")
    h = (text_of(SP, loops[0]["inner"][0]).rstrip(";"), text_of(SP, loops[0]["inner"][2]), text_of(SP, loops[0]["inner"][3]))
    r.add("every_heading_column_is_visited", DISCHARGED if h[:2] == ("inti=0", "i<heading->count") and h[2] in ("i++", "++i", "i+=1", "i=i+1") else FAILED, "syntactic", 0, repr(h), kind="structural")
    r.assumptions += ["std::string assignment / append are opaque: the pieces are the arguments of the calls in order", "cxxISolutionComp::read parses `name value units ...` exactly as a SOLUTION line (not under this contract)",
                      "two text anchors (read + store statement, loop header)"]
    return r


UNITS = [("C15.NameDouble.intensive_entries_are_weighted_means_self_mix_is_identity", unit_intensive_mixing),
         ("C15.Solution.isotopes.totals_are_amounts_ratios_are_not", unit_isotope_scaling),
         ("C15.spread_row_to_solution.name_value_and_unit_of_a_component_come_from_one_column", unit_spread_columns)]
