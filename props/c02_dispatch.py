"""C02: assembly of the reacting system (step.cpp add_exchange, add_surface, add_pp_assemblage, add_reaction, add_gas_phase,
add_ss_assemblage, add_kinetics): wherever an element amount is routed to its accumulator — hydrogen to total_h_x, oxygen to
total_o_x, anything else to its master's total — exactly one accumulator receives it, and it receives the same amount whichever
accumulator it is (generic statement contract, one instance per dispatch site)."""
from props.common import *
from vf.core import FAILED, DISCHARGED, UNDECIDED

STEP = "src/phreeqcpp/step.cpp"
FUNCS = ["add_exchange", "add_surface", "add_pp_assemblage", "add_reaction", "add_gas_phase", "add_ss_assemblage", "add_kinetics"]


def _is_dispatch(rel, x):
    """if (M->s == s_hplus) {A} else if (M->s == s_h2o) {B} else {C}   with A, B, C compound-assignments"""
    c = text_of(rel, x["inner"][0])
    if not c.endswith("->s==s_hplus") or len(x["inner"]) < 3:
        return False
    e = x["inner"][2]
    if e.get("kind") != "IfStmt" or not text_of(rel, e["inner"][0]).endswith("->s==s_h2o") or len(e["inner"]) < 3:
        return False
    return all(any(y.get("kind") == "CompoundAssignOperator" for y in A.walk(b)) for b in (x["inner"][1], e["inner"][1], e["inner"][2]))


def unit_dispatch(twin=False):
    r = U.new_unit("C02.step.element_dispatch_adds_the_same_amount_to_exactly_one_accumulator", STEP, "Phreeqc::add_exchange", A.find_function(STEP, "Phreeqc::add_exchange"))
    nsites = 0
    for fname in FUNCS:
        q = "Phreeqc::" + fname
        fn = A.find_function(STEP, q)
        sites = [x for x in A.walk(fn) if x.get("kind") == "IfStmt" and _is_dispatch(STEP, x)]
        for k, st in enumerate(sites):
            nsites += 1
            f, ex, fin, info = region(STEP, q, [st])
            m = text_of(STEP, st["inner"][0]).split("->s==")[0]
            paths = live(fin)
            adds = {}
            for s in paths:
                wr = []
                for key in s.heap:
                    for ix, v in writes(s, key):
                        wr.append((key, ix, v))
                mp = s.locals.get(info["names"].get(m)) if m in info["names"] else None
                sp = fld0(ex, s, "s", "P", mp) if mp is not None and not isinstance(mp, tuple) else None
                if len(wr) != 1:
                    r.add("%s[%d].exactly_one_accumulator_written" % (fname, k), FAILED, "symex", 0, "%d writes on path %r" % (len(wr), s.pc)); continue
                key, ix, v = wr[0]
                old = tm.select(entry_arr(ex, s, key), *ix)
                which = "H" if key[1] == "total_h_x" else "O" if key[1] == "total_o_x" else "element" if key[1] == "total" else "?" + key[1]
                if sp is not None:
                    hp, hw = fld0(ex, s, "s_hplus", "P"), fld0(ex, s, "s_h2o", "P")
                    want = "H" if B.z3_prove(list(s.pc), tm.eq(sp, hp))[0] == "proved" else "O" if B.z3_prove(list(s.pc), tm.eq(sp, hw))[0] == "proved" else "element"
                    if twin and want == "O":
                        want = "H"
                    r.add("%s[%d].%s_goes_to_its_accumulator" % (fname, k, want), DISCHARGED if which == want and (which != "element" or ix == (mp,)) else FAILED, "symex+z3", 0,
                          "written: %s%r" % (key[1], ix))
                ok, res, _ = B.sympy_equal(v - old, v - old)
                adds[which] = (v, old, s)
            if len(adds) == 3:
                (v0, o0, s0) = adds["H"]
                for w in ("O", "element"):
                    v1, o1, s1 = adds[w]
                    okeq = B.sympy_equal(v0 - o0, v1 - o1)[0]
                    r.add("%s[%d].same_amount_for_%s_as_for_H" % (fname, k, w), DISCHARGED if okeq else FAILED, "sympy.cancel", 0, "" if okeq else "H: %r  %s: %r" % (v0 - o0, w, v1 - o1))
            else:
                r.add("%s[%d].three_cases_reached" % (fname, k), UNDECIDED, "symex", 0, repr(sorted(adds)), kind="vacuity")
    r.add("reach.sites", DISCHARGED if nsites >= 8 else UNDECIDED, "symex", 0, "%d dispatch sites" % nsites, kind="vacuity")
    r.assumptions += ["what each site adds (coef, coef*amount, coef*step) is compared between the three branches, not against an external specification",
                      "the element lists iterated and the loops around the sites are not under this contract", "doubles as reals"]
    return r
