"""C18 (second extension): the parts of the inverse-modelling machinery that no earlier unit looked at.

  setup_inverse   redox-reaction columns (col_redox block), solution-isotope inequality rows
  solve_inverse   the search over subsets of phases / solutions and its book-keeping (c18_ext2_search.py)
  tidy_inverse, read_inverse (c18_ext2_input.py)

A reported model is the solution of the linear problem of setup_inverse restricted to the items of a bit set; it is a genuine
mole-balance model only if the redox columns carry the stoichiometry of the redox couple per mole of the ELEMENT transferred between
valence states, and the search reports exactly the feasible, non-redundant subsets."""
from props.common import *
from vf.core import FAILED, DISCHARGED, UNDECIDED
from props.c18_ext import (INV, Q, I0, I1, mkctx, all_loops, ordinal, nested, head, top_loops, vdata, vsize, same, vec_writes,
                           other_real_writes, F, match_writes, spec_cases, midx, take, vdata0, vsize0, at, elt_addr, distinct_cells, _base, tm_fraction)


def loop_cond_of(entry_states, iter_states):
    """the condition an inner loop's iteration assumed: the first path-condition entry added after the loop was reached"""
    for s in iter_states:
        best = None
        for e in entry_states:
            n = len(e.pc)
            if len(s.pc) > n and all(a is b for a, b in zip(e.pc, s.pc[:n])) and (best is None or n > best):
                best = n
        if best is not None:
            return s.pc[best]
    return None


# ------------------------------------------------------------------------------------------------ redox columns
def unit_redox_columns(twin=False):
    """For the k-th redox state of the model (an element of inv_ptr->elts whose master species is a secondary one: master->s->primary == NULL)
    the column col_redox + k is the reaction that turns the valence state into the primary state, per mole of the ELEMENT:
      * the leading token (the valence state's own master species) enters its own mole-balance row with its reaction coefficient,
      * every other token enters the row of its master species with coefficient / c, c = master->coef (atoms of the element per master species),
      * H+ enters no row, H2O enters the water row only with -mineral_water, e- enters the electron row,
      * the alkalinity row holds (alkalinity of the reaction - alkalinity of the valence state's species) / c.
    Elements that are not redox states own no column and write nothing; the column counter advances by one per redox state."""
    fn = A.find_function(INV, Q)
    r = U.new_unit("C18.setup_inverse.redox_columns.couple_stoichiometry_per_mole_of_element", INV, Q, fn)
    outer = [lp for lp in top_loops(fn, INV, "i<inv_ptr->elts.size()", ["calc_alk("]) if nested(lp)]     # located by its callee and its nested token loop
    if len(outer) != 1:
        raise Undecided("redox block of setup_inverse not found (%d)" % len(outer))
    inner = nested(outer[0])
    if len(inner) != 1:
        raise Undecided("token loop of the redox block not found (%d)" % len(inner))
    k0, k1 = ordinal(fn, outer[0]), ordinal(fn, inner[0])
    c = stop_on_error_msg(mkctx(functional=("calc_alk",)))
    f, ex, its, info = U.run_loop_isolated(INV, Q, k0, ctx=c, inner_modes={k1: "iter"})
    i = tm.sym("iter_i", "I"); j = tm.sym("iter_j", "I")
    kk = tm.sym("iter_k", "I")

    def parts(s, e0=True):
        g = fld0 if e0 else fld
        inv = local(info, s, "inv_ptr")
        ea = at(vdata0(ex, s, "elts", inv), i)
        mp = fld0(ex, s, "master", "P", ea)
        return inv, ea, mp

    seen = set()
    inner_states = live(info["inner_iters"].get(k1, []), ("run", "cont"))
    for s in inner_states:
        hy0 = list(s.pc)
        inv, ea, mp = parts(s)
        c_el = F(ex, s, "coef", "R", mp)
        rxn = tm.app("fld:rxn_primary", (mp,), "P")
        tok = at(vdata(ex, s, "token", rxn), j)
        sp = F(ex, s, "s", "P", tok); tc = F(ex, s, "coef", "R", tok)
        sec, prim = F(ex, s, "secondary", "P", sp), F(ex, s, "primary", "P", sp)
        hs = tm.not_(tm.eq(sec, tm.NULL))
        m = tm.ite(hs, sec, prim)
        ms = tm.ite(hs, F(ex, s, "s", "P", sec), F(ex, s, "s", "P", prim))
        mi = tm.ite(hs, F(ex, s, "in", "I", sec), F(ex, s, "in", "I", prim))
        col = F(ex, s, "col_redox") + kk
        conds = [("nomaster", tm.eq(m, tm.NULL)), ("hplus", tm.eq(ms, F(ex, s, "s_hplus", "P"))), ("h2o", tm.eq(ms, F(ex, s, "s_h2o", "P"))),
                 ("mw", tm.eq(F(ex, s, "mineral_water", "I", inv), I1)), ("lead", tm.eq(j, I0))]
        for case, hy in spec_cases(hy0, conds):
            ws = vec_writes(ex, s, "my_array")
            if case["nomaster"]:
                continue            # error_msg(..., STOP): no model is reported
            if case["hplus"] or (case["h2o"] and not case["mw"]):
                seen.add("skipped")
                r.add("token[%s].writes_nothing" % ("H+" if case["hplus"] else "H2O_without_mineral_water"), DISCHARGED if not ws else FAILED, "symex", 0, repr(ws)[:200], kind="frame")
                continue
            row = F(ex, s, "row_fract") if case["h2o"] else mi
            val = tc if case["lead"] else tc / c_el
            if twin and case["lead"]:
                val = tc / c_el
            tag = ("water" if case["h2o"] else "element") + ("_leading" if case["lead"] else "_other")
            seen.add(tag)
            match_writes(r, "token[%s]" % tag, hy, ws,
                         [(midx(ex, s, row, col), val, "entry(row_of_master,col_redox+k)==coef%s" % ("" if case["lead"] else "/element_coef"))])
        ow = other_real_writes(ex, s, ["my_array"])
        r.add("token.no_other_real_written", DISCHARGED if not ow else FAILED, "symex", 0, repr(ow)[:200], kind="frame")
    r.add("reach.token_cases", DISCHARGED if {"skipped", "water_other", "element_leading", "element_other"} <= seen else UNDECIDED, "symex", 0, repr(sorted(seen)), kind="vacuity")
    # the token loop visits every token from the leading one to the terminator
    ents = info["inner_entries"].get(k1, [])
    cond = loop_cond_of(ents, inner_states)
    if cond is None:
        r.add("token_loop.range", UNDECIDED, "symex", 0, "loop condition not read")
    else:
        s = inner_states[0]
        inv, ea, mp = parts(s)
        tok = at(vdata(ex, s, "token", tm.app("fld:rxn_primary", (mp,), "P")), j)
        want = tm.not_(tm.eq(F(ex, s, "s", "P", tok), tm.NULL))
        hyc = list(s.pc[:min(len(e.pc) for e in ents)])
        okc = B.z3_prove(hyc + [want], cond)[0] == "proved" and B.z3_prove(hyc + [cond], want)[0] == "proved"
        r.add("token_loop.runs_until_the_terminator(token[j].s!=NULL)", DISCHARGED if okc else FAILED, "z3", 0, repr(cond)[:200])
        init = inner[0]["inner"][0]
        v0 = None
        try:
            for s0 in ex.exec(init, [ents[0].clone()]):
                v0 = local(info, s0, "j")
        except Exception:
            v0 = None
        okv = v0 is not None and (v0 is I0 or B.z3_prove(list(ents[0].pc), tm.eq(v0, I0))[0] == "proved")
        r.add("token_loop.starts_at_the_leading_token(j=0)", DISCHARGED if okv else FAILED, "z3", 0, repr(v0))
    # outer iteration: which elements own a column, the counter, the alkalinity entry
    n = 0; seen = set()
    for s in live(its, ("run", "cont")):
        hy0 = list(s.pc)
        inv, ea, mp = parts(s)
        msp = fld0(ex, s, "s", "P", mp)
        redox = tm.eq(fld0(ex, s, "primary", "P", msp), tm.NULL)
        k_after = local(info, s, "k")
        for case, hy in spec_cases(hy0, [("redox", redox)]):
            ws = vec_writes(ex, s, "my_array")
            if not case["redox"]:
                seen.add("not_redox")
                r.add("element_without_redox_couple.writes_nothing", DISCHARGED if not ws else FAILED, "symex", 0, repr(ws)[:200], kind="frame")
                U.discharge_eq_real(r, "element_without_redox_couple.column_counter_unchanged", hy, k_after, kk)
                continue
            seen.add("redox")
            U.discharge_eq_real(r, "redox_state.column_counter+=1", hy, k_after, kk + I1)
            ca = [e for e in U.iter_events(s) if e.name.endswith("calc_alk")]
            if len(ca) != 1:
                r.add("alkalinity.calc_alk_called_once", FAILED, "trace", 0, "%d" % len(ca)); continue
            n += 1
            a = ca[0].args[0]
            okarg = a.op == "select" and ".rxn_primary:" in repr(_base(a.args[0])) and (a.args[1] == (mp,) or a.args[1] is mp)
            r.add("alkalinity.of_the_valence_state's_own_reaction", DISCHARGED if okarg else FAILED, "trace", 0, repr(a)[:200])
            row = F(ex, s, "in", "I", F(ex, s, "master_alk", "P"))
            c_el = fld0(ex, s, "coef", "R", mp)
            alk_s = fld0(ex, s, "alk", "R", msp)
            # the opaque calls of the token loop (error_msg, sformatf) do not write species / master records: entry values == current values
            mp1 = F(ex, s, "master", "P", at(vdata(ex, s, "elts", inv), i)); msp1 = F(ex, s, "s", "P", mp1)
            hy = hy + [tm.eq(mp1, mp), tm.eq(msp1, msp), tm.eq(F(ex, s, "coef", "R", mp1), c_el), tm.eq(F(ex, s, "alk", "R", msp1), alk_s)]
            val = (ca[0].result - alk_s) / c_el
            if twin:
                val = ca[0].result / c_el
            match_writes(r, "alkalinity", hy, ws, [(midx(ex, s, row, fld0(ex, s, "col_redox", "I") + kk), val, "entry(alkalinity_row,col_redox+k)==(calc_alk(reaction)-alk(species))/element_coef")])
        r.add("outer.layout_members_untouched", DISCHARGED if not any(writes(s, ("f", nm, "I")) for nm in ("col_redox", "col_phases", "col_epsilon", "max_column_count", "row_fract", "count_rows")) else FAILED, "symex", 0, "", kind="frame")
    r.add("reach.outer_cases", DISCHARGED if seen == {"redox", "not_redox"} and n else UNDECIDED, "symex", 0, repr(sorted(seen)), kind="vacuity")
    # base of the counter: k = 0 right before the block
    body = A.body_of(fn)["inner"]
    kb = next(k for k, x in enumerate(body) if x is outer[0])
    a = initial_value_before(fn, INV, outer[0], "k")
    r.add("column_counter.starts_at_0_before_the_block", DISCHARGED if a is not None and a[0] == "=" and a[1] == "0" else FAILED, "syntactic", 0, repr(a), kind="establishment")
    oh = head(INV, outer[0])
    r.add("outer_loop.covers_every_element_of_the_model", DISCHARGED if oh[0] in ("i=0", "size_ti=0") and oh[1] == "i<inv_ptr->elts.size()" and oh[2] in ("i++", "++i") else FAILED, "syntactic", 0, repr(oh), kind="structural")
    r.assumptions += ["calc_alk is functional (sum of coef * alk over the reaction) and not under this contract", "error_msg(..., STOP) does not return",
                      "the column counter k equals the number of redox states before element i: base (k = 0, nearest preceding assignment, syntactic) + step (this unit); "
                      "count_redox_rxns of tidy_inverse counts the same elements (unit C18.tidy_inverse...)",
                      "the header of the outer loop is compared as text; the token loop's start and condition are checked semantically", "doubles as reals"]
    return r


# ------------------------------------------------------------------------------------------------ solution isotope inequalities
def unit_solution_isotope_rows(twin=False):
    """For solution q and isotope unknown n (column c = col_isotopes + q * |isotope_unknowns| + n): the FIRST isotope entry of the solution that is
    the same master species and the same isotope number, with ratio uncertainty u, gives
       optimisation entry (c - col_epsilon, c) = SCALE_EPSILON / u,
       row   cursor  :  +delta - u * alpha_q <= 0,     row cursor + 1 :  -delta - u * alpha_q <= 0      (|adjustment| <= u * mixing fraction),
    the cursor advances by two and the search stops; an entry of another species / isotope writes nothing."""
    fn = A.find_function(INV, Q)
    r = U.new_unit("C18.setup_inverse.solution_isotope_rows.ratio_adjustment_bounded_by_its_uncertainty_times_fraction", INV, Q, fn)
    L = [lp for lp in all_loops(fn) if "Get_x_ratio_uncertainty" in text_of(INV, lp["inner"][-1])]
    if len(L) != 3:
        raise Undecided("isotope inequality loops not found (%d)" % len(L))
    il, jl, kl = L
    c = mkctx(functional=("master_bsearch", "Get_x_ratio_uncertainty", "Get_isotope_number", "Get_elt_name", "c_str"))
    kk = ordinal(fn, kl)
    f, ex, its, info = U.run_loop_isolated(INV, Q, ordinal(fn, jl), ctx=c, inner_modes={kk: "iter"})
    SC = tm.num(tm_fraction(".0009765625"))
    i = tm.sym("L_i", "I"); j = tm.sym("iter_j", "I")
    seen = set()
    for s in live(info["inner_iters"].get(kk, []), ("run", "cont", "brk")):
        hy0 = list(s.pc)
        inv = local(info, s, "inv_ptr")
        evs = U.iter_events(s)
        bs = [e for e in evs if e.name.endswith("master_bsearch")]
        nm = [e for e in evs if e.name.endswith("Get_elt_name")]
        no = [e for e in evs if e.name.endswith("Get_isotope_number")]
        if not bs or not nm or not no:
            r.add("entry.species_and_isotope_number_compared", FAILED, "trace", 0, "look-ups %d, names %d, numbers %d" % (len(bs), len(nm), len(no))); continue
        ent = nm[0].recv
        r.add("entry.species_and_number_of_the_same_isotope_entry", DISCHARGED if no[0].recv is ent and repr(ent) in repr(bs[0].args[0]) else FAILED, "trace", 0, repr((ent, no[0].recv, bs[0].args[0]))[:300], kind="pairing")
        iu = at(vdata0(ex, s, "isotope_unknowns", inv), j)
        match = tm.and_(tm.eq(bs[0].result, fld0(ex, s, "master", "P", iu)), tm.eq(no[0].result, fld0(ex, s, "isotope_number", "R", iu)))
        niu = vsize0(ex, s, "isotope_unknowns", inv)
        col = fld0(ex, s, "col_isotopes", "I") + i * niu + j
        cr0 = fld0(ex, s, "count_rows", "I"); cr1 = fld(ex, s, "count_rows", "I")
        maxc = fld0(ex, s, "max_column_count", "I"); ce = fld0(ex, s, "col_epsilon", "I")
        pre = [tm.le(I0, i), tm.lt(i, ce), tm.le(ce, col), tm.lt(col, maxc), tm.lt(col - ce, cr0)] + distinct_cells([(col - ce, col), (cr0, col), (cr0, i), (cr0 + I1, col), (cr0 + I1, i)], maxc)
        for case, hy in spec_cases(hy0 + pre, [("match", match)], base=hy0):
            ws = vec_writes(ex, s, "my_array")
            if not case["match"]:
                seen.add("other_entry")
                r.add("other_entry.writes_nothing", DISCHARGED if not ws else FAILED, "symex", 0, repr(ws)[:200], kind="frame")
                U.discharge_valid(r, "other_entry.cursor_unchanged", hy, tm.eq(cr1, cr0))
                r.add("other_entry.search_goes_on", DISCHARGED if s.status in ("run", "cont") else FAILED, "symex", 0, s.status)
                continue
            seen.add("match")
            xu = [e for e in evs if e.name.endswith("Get_x_ratio_uncertainty")]
            if not xu or xu[0].recv is not ent:
                r.add("match.uncertainty_of_the_matching_entry", FAILED, "trace", 0, repr([e.recv for e in xu])[:200]); continue
            r.add("match.uncertainty_of_the_matching_entry", DISCHARGED, "trace", 0, repr(xu[0].recv)[:100], kind="pairing")
            u = xu[0].result
            match_writes(r, "match", hy, ws, [((col - ce) * maxc + col, SC / u, "optimise.entry==SCALE_EPSILON/u"),
                                              (cr0 * maxc + col, tm.num(1), "upper.entry(row,col)==+1"), (cr0 * maxc + i, tm.neg(u), "upper.entry(row,q)==-u"),
                                              ((cr0 + I1) * maxc + col, tm.num(-1), "lower.entry(row+1,col)==-1"), ((cr0 + I1) * maxc + i, tm.neg(u) if not twin else u, "lower.entry(row+1,q)==-u")])
            U.discharge_valid(r, "match.count_rows+=2", hy, tm.eq(cr1, cr0 + tm.num(2, "I")))
            r.add("match.only_the_first_matching_entry_is_used(search_stops)", DISCHARGED if s.status == "brk" else FAILED, "symex", 0, s.status)
        ow = other_real_writes(ex, s, ["my_array"])
        r.add("entry.no_other_real_written", DISCHARGED if not ow else FAILED, "symex", 0, repr(ow)[:200], kind="frame")
    r.add("reach.entry_cases", DISCHARGED if seen == {"match", "other_entry"} else UNDECIDED, "symex", 0, repr(sorted(seen)), kind="vacuity")
    # the unknown's own work outside the entry loop: nothing but the search
    n = 0
    for s in live(its, ("run", "cont")):
        n += 1
        inv = local(info, s, "inv_ptr")
        want = fld0(ex, s, "col_isotopes", "I") + i * vsize0(ex, s, "isotope_unknowns", inv) + j
        ents = info["inner_entries"].get(kk, [])
        colv = [local(info, e, "column") for e in ents]
        r.add("unknown.column==col_isotopes+q*unknowns+n", DISCHARGED if colv and all(same(list(e.pc), cv, want) for e, cv in zip(ents, colv)) else FAILED, "symex", 0, repr(colv)[:200])
    r.add("reach.unknown", DISCHARGED if n else UNDECIDED, "symex", 0, "%d" % n, kind="vacuity")
    # ranges: every solution, every unknown, every isotope entry of the solution of index i
    ih, jh = head(INV, il), head(INV, jl)
    r.add("loops.every_solution_and_every_isotope_unknown", DISCHARGED if ih[0] in ("i=0", "size_ti=0") and ih[1] == "i<inv_ptr->count_solns" and ih[2] in ("i++", "++i")
          and jh[0] in ("j=0", "size_tj=0") and jh[1] == "j<inv_ptr->isotope_unknowns.size()" and jh[2] in ("j++", "++j") else FAILED, "syntactic", 0, repr((ih, jh)), kind="structural")
    first = [x for x in il["inner"][-1].get("inner", []) if x.get("kind") != "ForStmt"]
    oks = len(first) == 1 and text_of(INV, first[0]).rstrip(";") == "solution_ptr=Utilities::Rxn_find(Rxn_solution_map,inv_ptr->solns[i])"
    r.add("loops.entries_of_solution_q_itself", DISCHARGED if oks else FAILED, "syntactic", 0, repr([text_of(INV, x) for x in first])[:200], kind="structural")
    r.assumptions += ["the accessors of cxxSolutionIsotope and master_bsearch are functional", "x_ratio_uncertainty is set by check_isotopes (unit C18.check_isotopes...)",
                      "the headers of the solution / unknown loops and the statement fetching the solution are compared as text", "SCALE_EPSILON == 1/1024", "doubles as reals"]
    return r


UNITS = [("C18.setup_inverse.redox_columns.couple_stoichiometry_per_mole_of_element", unit_redox_columns),
         ("C18.setup_inverse.solution_isotope_rows.ratio_adjustment_bounded_by_its_uncertainty_times_fraction", unit_solution_isotope_rows)]


def _more2():
    out = []
    import importlib
    for m in ("c18_ext2_search", "c18_ext2_input", "c18_ext2_iso"):
        try:
            out += list(getattr(importlib.import_module("props." + m), "UNITS", []))
        except ModuleNotFoundError as e:
            if e.name != "props." + m:
                raise
    return out


UNITS = UNITS + _more2()
