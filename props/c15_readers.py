"""C15 / C01: the small readers of thermodynamic data that carry a unit - read_delta_h_only stores the reaction enthalpy in kJ/mol whatever
unit the database line names (kJ, J, kcal, cal; default kJ) and records that unit; read_analytical_expression_only zeroes the six
coefficients and reads them in order A1..A6; read_log_k_only reads one number."""
from props.common import *
from vf.core import FAILED, DISCHARGED, UNDECIDED
from vf.astvc import hdr

READ = "src/phreeqcpp/read.cpp"


def _scan_ctx():
    c = ctx(functional=("strstr", "copy_token"))
    def sscanf(ex_, st, n, name, recv, args):
        # sscanf(text, format, p1, ..): stores one scanned value per pointer argument, returns the number of conversions
        vals = []
        for k, p in enumerate(args[2:]):
            v = SX.fresh("scanned%d" % k, "R")
            ex_.store(st, ("elem", p, tm.num(0, "I")), v, "R")
            vals.append(v)
        res = SX.fresh("ret_sscanf", "I")
        st.events.append(SX.Event(name, recv, list(args), res, n)); st.events[-1].snap = {"scanned": vals}
        return [(st, res)]
    c.handlers["sscanf"] = sscanf
    return c


def unit_delta_h(twin=False):
    q = "Phreeqc::read_delta_h_only"
    fn, ex, fin, info = U.run_function(READ, q, ctx=_scan_ctx())
    r = U.new_unit("C15.read_delta_h_only.enthalpy_stored_in_kJ_for_every_unit", READ, q, fn)
    JPC = hdr.define_value("src/phreeqcpp/global_structures.h", "JOULES_PER_CALORIE", real=True) if False else None
    import re as _re
    m_ = _re.search(r"#define\s+JOULES_PER_CALORIE\s+([0-9.]+)", open(os.path.join(REPO, "src/phreeqcpp/global_structures.h"), encoding="latin1").read())
    if not m_:
        raise Undecided("JOULES_PER_CALORIE not found")
    r.add("JOULES_PER_CALORIE==4.184", DISCHARGED if float(m_.group(1)) == 4.184 else FAILED, "syntactic", 0, m_.group(1), kind="structural")
    jpc = tm.Q(m_.group(1))
    dh = tm.sym("P1_delta_h", "P"); un = tm.sym("P2_units", "P")
    n = 0; kinds = set()
    for s in live(fin, ("ret",)):
        if not (tm.isnum(s.ret) and s.ret.args[0] == 1):
            continue
        sc = [e for e in s.events if e.name.endswith("sscanf")]
        if len(sc) != 1 or sc[0].args[2] is not dh:
            r.add("value_scanned_into_the_result", FAILED, "trace", 0, ""); continue
        v = sc[0].snap["scanned"][0]
        got = tm.select(ex.heap_arr(s, ("m", "R")), dh, tm.num(0, "I"))
        unit = tm.select(ex.heap_arr(s, ("m", "I")), un, tm.num(0, "I"))
        ss = [e for e in s.events if e.name.endswith("strstr")]
        n += 1
        if not ss:
            kinds.add("default")
            U.discharge_eq_real(r, "no_unit.value_kept(kJ)#%d" % n, list(s.pc), got, v)
            r.add("no_unit.recorded_as_kjoules#%d" % n, DISCHARGED if repr(unit) == "E.kjoules" else FAILED, "symex", 0, repr(unit))
            continue
        tok = ss[0].args[0]
        kilo = tm.eq(ss[0].result, tok)                         # the unit text starts with 'k'
        calo = tm.not_(tm.eq(ss[1].result, tm.NULL)) if len(ss) > 1 else None
        okk = len(ss) == 2 and repr(ss[0].args[1]) == '"k"' and repr(ss[1].args[1]) == '"c"' and ss[1].args[0] is tok
        r.add("unit_text.tested_for_leading_k_and_for_c#%d" % n, DISCHARGED if okk else FAILED, "trace", 0, repr([e.args for e in ss])[:120])
        if not okk:
            continue
        for hy, k_ in cases(list(s.pc), kilo):
            for hy2, c_ in cases(hy, calo):
                f = (tm.num(1) if k_ else tm.Q("1/1000")) * (jpc if c_ else tm.num(1))
                if twin and c_:
                    f = tm.num(1) if k_ else tm.Q("1/1000")
                name = {(True, False): "kjoules", (False, False): "joules", (True, True): "kcal", (False, True): "cal"}[(k_, c_)]
                kinds.add(name)
                U.discharge_eq_real(r, "%s.value_converted_to_kJ" % name, hy2, got, v * f)
                r.add("%s.unit_recorded" % name, DISCHARGED if repr(unit) == "E." + name else FAILED, "symex", 0, repr(unit))
    r.add("reach.all_units", DISCHARGED if kinds >= {"default", "kjoules", "joules", "kcal", "cal"} else UNDECIDED, "symex", 0, repr(sorted(kinds)), kind="vacuity")
    r.assumptions += ["sscanf stores the number it reads; copy_token splits off the next token; str_tolower lower-cases it", "a unit is recognised by a leading 'k' and by containing 'c' (kJ, J, kcal, cal and their spellings)", "doubles as reals"]
    return r


def unit_analytic(twin=False):
    q = "Phreeqc::read_analytical_expression_only"
    ev = A.enum_values_compiled("global_structures.h", ["T_A1", "T_A6"])
    c0 = _scan_ctx(); c0.enum_values.update(ev); c0.log_stores = True
    fn, ex, fin, info = U.run_function(READ, q, modes={0: "unroll"}, ctx=c0)
    r = U.new_unit("C01.read_analytical_expression_only.six_coefficients_in_order", READ, q, fn)
    r.add("six_terms(T_A6-T_A1+1==6)", DISCHARGED if ev["T_A6"] - ev["T_A1"] + 1 == 6 else FAILED, "syntactic", 0, repr(ev), kind="structural")
    lk = tm.sym("P1_log_k", "P")
    n = 0
    for s in live(fin, ("ret",)):
        sc = [e for e in s.events if e.name.endswith("sscanf")]
        if len(sc) != 1:
            r.add("one_scan", FAILED, "trace", 0, ""); continue
        n += 1
        ptrs = sc[0].args[2:]
        want = [lk + tm.num(k, "I") if k else lk for k in range(6)]
        if twin:
            want = want[::-1]
        ok = len(ptrs) == 6 and all(B.z3_prove([], tm.eq(p, w))[0] == "proved" or p is w or repr(p) == repr(w) for p, w in zip(ptrs, want))
        r.add("scanned_into_log_k[0..5]_in_order#%d" % n, DISCHARGED if ok else FAILED, "trace", 0, repr(ptrs)[:200])
        before = s.events[:s.events.index(sc[0])]
        zeroed = sorted(int(e.args[0].args[0]) for e in before if e.name == "store" and e.recv is lk and tm.isnum(e.args[0]) and tm.isnum(e.args[1]) and e.args[1].args[0] == 0)
        r.add("all_six_slots_zeroed_before_the_scan#%d" % n, DISCHARGED if zeroed == [0, 1, 2, 3, 4, 5] else FAILED, "symex", 0, repr(zeroed))
        okf = repr(sc[0].args[1]).count("%lf") == 6
        r.add("format_has_six_conversions#%d" % n, DISCHARGED if okf else FAILED, "trace", 0, repr(sc[0].args[1])[:80])
        for hy, few in cases(list(s.pc), tm.lt(sc[0].result, tm.num(1, "I"))):
            okr = tm.isnum(s.ret) and s.ret.args[0] == (0 if few else 1)
            r.add("%s#%d" % ("nothing_read.ERROR" if few else "at_least_one_read.OK", n), DISCHARGED if okr else FAILED, "symex", 0, repr(s.ret))
    r.add("reach", DISCHARGED if n >= 2 else UNDECIDED, "symex", 0, str(n), kind="vacuity")
    r.assumptions += ["the callers pass &logk[T_A1] (read_species / read_phases / read_named_logk, not under this contract)", "sscanf stores the numbers it reads, in argument order"]
    return r
