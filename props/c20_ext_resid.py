"""C20 extension, residual rows of Phreeqc::residuals (model.cpp): the three CD-MUSIC charge/potential rows and the site balance row.

Every unit is an ITERATION contract of the per-unknown loop of residuals(): the function is executed from its entry to that loop, then
the body is executed once for an arbitrary index i on an arbitrary state in which x[i]->type is the row's type code, so the obligation
holds for every unknown of that type in every Newton iteration.  The rows are found by what x[i]->type is, not by the text of their
guards; locals are identified by their role (the loop's induction variable, the flag the function returns, the vector the plane-0 row
fills, the accumulators of a loop), not by their names.

Three-plane model (Hiemstra & Van Riemsdijk 1996; PHREEQC eqns A-3..A-7), psi_k = -(ln a_k) R T / F with a_k the activity of the
plane-k potential master species (its exponent in a mass-action equation is the charge dz_k placed in plane k):
    sigma0                    = C1 (psi0 - psi1)
    sigma0 + sigma1           = C2 (psi1 - psi2)
    sigma0 + sigma1 + sigma2  = -sigma_d,      sigma_d = -sgn(psi2) sqrt(2 eps eps0 R T sum_i c_i (exp(-z_i F psi2 / R T) - 1))   (no explicit layer)
    charge of plane 2 + diffuse layer (mol) = -(sigma0 + sigma1) A / F                                                            (explicit layer)"""
from props.c20_ext_util import *

MODEL = "src/phreeqcpp/model.cpp"
Q = "Phreeqc::residuals"


def _ctx(extra_functional=()):
    c = ctx(functional={"Get_surface_ptr", "Find_charge", "surface_get_psi_master", "Get_name", "under"} | set(extra_functional))
    surface_enums(c)
    inline_accessors(c, SURFCHARGE_TU, "cxxSurfaceCharge", CHARGE_ACCESSORS)
    vector_push_back_values(c)
    return c


def _base(a):
    while a.op == "store":
        a = a.args[0]
    return a


def _ident(s, addr):
    """identity of an object across two executions: the declaration of the local it is, else the address term"""
    for d, v in s.locals.items():
        if isinstance(v, tuple) and v[0] == "obj" and v[1] is addr:
            return "local-decl:%s" % (d,)
    return repr(addr)


class Row(object):
    """terms of one executed iteration"""
    def __init__(self, fn, ex, s, info):
        self.ex, self.s, self.info = ex, s, info
        self.i = loc(info, s, info["induction"])
        self.xi = x_elem(ex, s, self.i)
        self.hy = list(s.pc)
        self.f = fld0(ex, s, "f", "R", self.xi)
        self.moles = fld0(ex, s, "moles", "R", self.xi)
        rd = tm.select(entry_arr(ex, s, ("f", "#vdata", "P")), tm.app("fld:residual", (THIS,), "P"))
        self.res = tm.select(ex.heap_arr(s, ("m", "R")), rd, self.i)
        # the vector of the three plane potentials is identified by its use (pushed to by the plane-0 row, indexed by the residuals),
        # not by its name or by whether it is a local or a member
        vs = {e.recv for e in U.iter_events(s) if e.name == "vector.push_back"}
        for t in tm.subterms(self.res):
            if t.op == "select" and t.sort == "R" and len(t.args[1]) == 2:
                base, k = t.args[1]
                if base.op == "select" and "#vdata" in repr(_base(base.args[0])) and tm.isnum(k):
                    vs.add(base.args[1][0])
        self.vectors = sorted(vs, key=repr)
        self.cd = self.vectors[0] if self.vectors else tm.app("fld:?potentials", (THIS,), "P")
        self.cdv = tm.select(entry_arr(ex, s, ("f", "#vdata", "P")), self.cd)
        self.fc = ev_named(s, "Find_charge")
        self.ch = self.fc[0].result if self.fc else None
        self.tk, self.ln10, self.eps, self.mu = (fld0(ex, s, n, "R") for n in ("tk_x", "LOG_10", "eps_r", "mu_x"))
        self.dl = fld0(ex, s, "dl_type_x", "I")
        self.minrel = fld0(ex, s, "MIN_RELATED_SURFACE", "R")
        self.toler = fld0(ex, s, "convergence_tolerance", "R")
        flag = convergence_flag(info)
        self.converge = loc(info, s, flag)
        self.converge0 = tm.sym("iter_" + flag, self.converge.sort)

    def psi_entry(self, k):
        return tm.select(entry_arr(self.ex, self.s, ("m", "R")), self.cdv, tm.num(k, "I"))

    def psi_final(self, k):
        return tm.select(self.ex.heap_arr(self.s, ("m", "R")), self.cdv, tm.num(k, "I"))

    def ch0(self, name):
        return fld0(self.ex, self.s, name, "R", self.ch)

    def ch1(self, name):
        return fld(self.ex, self.s, name, "R", self.ch)

    def cap(self, k):
        return tm.select(entry_arr(self.ex, self.s, ("m", "R")), tm.app("fld:capacitance", (self.ch,), "P"), tm.num(k, "I"))

    def area_grams(self):
        return self.ch0("specific_area") * self.ch0("grams")

    def vector_idents(self):
        return sorted(_ident(self.s, v) for v in self.vectors)

    def local_holding(self, term):
        """name of a local whose value at the end of the iteration is `term`"""
        rev = {v: k for k, v in self.info["names"].items()}
        return sorted(rev[d] for d, v in self.s.locals.items() if v is term and d in rev)


def _charge_is_this_unknowns(r, row, tag):
    """the charge record used by the row is Find_charge(x[i]->surface_charge) of the surface in use"""
    if not row.fc:
        r.add(tag + ".charge_record_looked_up", FAILED, "symex", 0, "no Find_charge call in the iteration"); return False
    want = fld0(row.ex, row.s, "surface_charge", "P", row.xi)
    ok = all(any(want in tm.subterms(a) for a in e.args) for e in row.fc) and len({e.result for e in row.fc}) == 1
    r.add(tag + ".charge_record==Find_charge(x[i]->surface_charge)", DISCHARGED if ok else FAILED, "symex", 0, repr(row.fc[0].args)[:160])
    return ok


def _abs(t):
    return tm.ite(tm.lt(t, tm.num(0)), tm.neg(t), t)


def _convergence(r, row, tag, seen, hy=None, frame=True):
    """grams > MIN_RELATED_SURFACE and |residual| > convergence_tolerance  ==>  the flag residuals() returns is FALSE after the iteration;
    otherwise the flag keeps the value the earlier rows gave it (a row never re-arms it)"""
    hy = row.hy if hy is None else hy
    viol = tm.and_(tm.lt(row.minrel, row.ch0("grams")), tm.lt(row.toler, _abs(row.res)))
    for h, v in cases(hy, viol):
        if v:
            seen.add("violated")
            U.discharge_valid(r, tag + ".|residual|>convergence_tolerance=>not_converged", h, tm.eq(row.converge, tm.num(0, "I")))
        elif frame:
            seen.add("within")
            U.discharge_valid(r, tag + ".within_tolerance=>converge_flag_untouched", h, tm.eq(row.converge, row.converge0))
        else:
            seen.add("within")


def _consts(r):
    from fractions import Fraction as F
    for name, ref in (("F_C_MOL", "96485.33"), ("F_KJ_V_EQ", "96.48533"), ("R_KJ_DEG_MOL", "0.00831446"), ("EPSILON_ZERO", "8.8541878e-12")):
        ok = abs(K(name) - F(ref)) / F(ref) < F(1, 5000)
        r.add("const.%s~%s(rel 2e-4)" % (name, ref), DISCHARGED if ok else FAILED, "exact-rational", 0, str(float(K(name))), kind="const")


def _psi_master(r, row, tag, plane_code):
    """(master species record of the plane's potential, it belongs to this row's charge record)"""
    ms = [e for e in ev_named(row.s, "surface_get_psi_master") if tm.isnum(e.args[-1]) and int(e.args[-1].args[0]) == int(K(plane_code))]
    if not ms:
        r.add(tag + "_master_looked_up", FAILED, "symex", 0, "no surface_get_psi_master(.., %s)" % plane_code); return None
    names = ev_named(row.s, "Get_name")
    own = any(n.recv is row.ch and n.result in tm.subterms(ms[0].args[0]) for n in names)
    r.add(tag + "_master_is_of_this_charge_record", DISCHARGED if own else FAILED, "symex", 0, repr(ms[0].args[0])[:120])
    return ms[0].result


# ------------------------------------------------------------------------------------------------ plane 0
def _plane0_run():
    c = _ctx()
    ev = surface_enums(c)
    return concrete_type_iteration(MODEL, Q, int(K("SURFACE_CB")), c, surface_type=ev["CD_MUSIC"])


def unit_plane0(twin=False):
    fn0 = A.find_function(MODEL, Q)
    r = U.new_unit("C20.residuals.CD_MUSIC_plane0_row", MODEL, Q, fn0)
    fn, ex, its, info = _plane0_run()
    R_, FK, FC = KR("R_KJ_DEG_MOL"), KR("F_KJ_V_EQ"), KR("F_C_MOL")
    seen = set()
    for s in live(its, ("run", "cont")):
        row = Row(fn, ex, s, info)
        if not _charge_is_this_unknowns(r, row, "plane0"):
            continue
        grams = row.ch0("grams")
        n3 = tm.eq(tm.select(ex.heap_arr(s, ("f", "#vsize", "I")), row.cd), tm.num(3, "I"))
        r.add("plane0.one_potentials_vector_filled_and_read", DISCHARGED if len(row.vectors) == 1 else FAILED, "symex", 0, repr(row.vectors)[:160])
        for hy, zero in cases(row.hy, tm.eq(grams, tm.num(0))):
            if zero:
                seen.add("no_surface")
                U.discharge_valid(r, "zero_grams.residual==0", hy, tm.eq(row.res, tm.num(0)))
                U.discharge_valid(r, "zero_grams.three_potentials_all_0", hy, tm.and_(n3, *[tm.eq(row.psi_final(k), tm.num(0)) for k in range(3)]))
                continue
            seen.add("law")
            # potentials of the three planes from the activities of the three potential master species of THIS charge record
            for k, code in enumerate(("SURF_PSI", "SURF_PSI1", "SURF_PSI2")):
                m = _psi_master(r, row, "plane0.psi%d" % k, code)
                if m is None:
                    continue
                la = fld0(ex, s, "la", "R", fld0(ex, s, "s", "P", m))
                spec = tm.neg(la * row.ln10) * R_ * row.tk / FK
                if twin and k == 1:
                    spec = spec / tm.num(2)
                U.discharge_valid(r, "plane0.psi%d==-ln(a_psi%d)*R*T/F" % (k, k), hy, tm.eq(row.psi_final(k), spec))
            U.discharge_valid(r, "plane0.exactly_three_potentials", hy, n3)
            # sigma0 from the charge balance of plane 0 (species charge f plus the charge of the bare site masters)
            accs = [a for lp in _inner_loops(info) for a in accumulators(lp)]
            sums = [h for a in accs for h in havoc_sym(row.ch1("sigma0"), a)]
            if len(sums) != 1:
                r.add("plane0.sigma0_uses_site_master_sum", FAILED, "symex", 0, "sigma0 does not contain the sum over comp_unknowns: %r" % (row.ch1("sigma0"),)); continue
            U.discharge_valid(r, "plane0.sigma0==(f+sum_site_masters)*F/(A*g)", hy, tm.eq(row.ch1("sigma0"), (row.f + sums[0]) * FC / row.area_grams()))
            sep = tm.not_(tm.eq(row.cdv, tm.app("fld:capacitance", (row.ch,), "P")))      # the vector's buffer is not the capacitance array of the charge record
            U.discharge_valid(r, "plane0.residual==sigma0-C1*(psi0-psi1)", hy + [sep], tm.eq(row.res, row.ch1("sigma0") - row.cap(0) * (row.psi_final(0) - row.psi_final(1))))
            _convergence(r, row, "plane0", seen, hy)
    want = {"no_surface", "law", "violated", "within"}
    r.add("reach.zero_grams_and_law_and_both_convergence_cases", DISCHARGED if seen == want else UNDECIDED, "symex", 0, repr(sorted(seen)), kind="vacuity")
    _consts(r)
    r.assumptions += ["doubles as reals", "surface_get_psi_master(name, plane) and Find_charge are deterministic look-ups (bodies not under this contract)",
                      "the sum over comp_unknowns is the inner loop's result (its iteration contract is unit C20.residuals.CD_MUSIC_plane0_charge_from_site_masters)",
                      "cxxSurfaceCharge accessors are executed from their real inline definitions", "std::vector<double>::push_back appends the value",
                      "the surface in use is of type CD_MUSIC (the DDL / CCM rows of SURFACE_CB are units C20.residuals.DDL_/CCM_charge_potential_row)"]
    return r


def _inner_loops(info):
    return [loops_of_cached(MODEL, Q)[o] for o in sorted(info["inner_entries"])]


_LOOPS = {}


def loops_of_cached(rel, q):
    if (rel, q) not in _LOOPS:
        _LOOPS[(rel, q)] = loops_of(A.find_function(rel, q))
    return _LOOPS[(rel, q)]


# ------------------------------------------------------------------------------------------------ plane 1
_P0V = []


def _plane0_vectors():
    """the vector object(s) the plane-0 row pushes the three potentials into"""
    if not _P0V:
        fn, ex, its, info = _plane0_run()
        vs = set()
        for s in live(its, ("run", "cont")):
            vs |= {_ident(s, e.recv) for e in U.iter_events(s) if e.name == "vector.push_back"}
        _P0V.append(sorted(vs))
    return _P0V[0]


def unit_plane1(twin=False):
    fn0 = A.find_function(MODEL, Q)
    r = U.new_unit("C20.residuals.CD_MUSIC_plane1_row", MODEL, Q, fn0)
    fn, ex, its, info = concrete_type_iteration(MODEL, Q, int(K("SURFACE_CB1")), _ctx())
    FC = KR("F_C_MOL")
    seen = set()
    for s in live(its, ("run", "cont")):
        row = Row(fn, ex, s, info)
        if not _charge_is_this_unknowns(r, row, "plane1"):
            continue
        grams = row.ch0("grams")
        for hy, zero in cases(row.hy, tm.eq(grams, tm.num(0))):
            if zero:
                seen.add("no_surface")
                U.discharge_valid(r, "zero_grams.residual==0", hy, tm.eq(row.res, tm.num(0)))
                continue
            seen.add("law")
            r.add("plane1.reads_the_potentials_vector_filled_by_the_plane0_row", DISCHARGED if len(row.vectors) == 1 and row.vector_idents() == _plane0_vectors() else FAILED, "symex", 0,
                  "%r vs %r" % (row.vector_idents(), _plane0_vectors()))
            U.discharge_valid(r, "plane1.sigma1==f*F/(A*g)", hy, tm.eq(row.ch1("sigma1"), row.f * FC / row.area_grams()))
            U.discharge_valid(r, "plane1.sigma0_is_plane0's(not written)", hy, tm.eq(row.ch1("sigma0"), row.ch0("sigma0")))
            cap = row.cap(1) if not twin else row.cap(0)
            U.discharge_valid(r, "plane1.residual==(sigma0+sigma1)-C2*(psi1-psi2)", hy, tm.eq(row.res,
                              (row.ch0("sigma0") + row.f * FC / row.area_grams()) - cap * (row.psi_entry(1) - row.psi_entry(2))))
            U.discharge_valid(r, "plane1.potentials_not_written", hy, tm.and_(*[tm.eq(row.psi_final(k), row.psi_entry(k)) for k in range(3)]))
            _convergence(r, row, "plane1", seen, hy)
    want = {"no_surface", "law", "violated", "within"}
    r.add("reach.zero_grams_and_law_and_both_convergence_cases", DISCHARGED if seen == want else UNDECIDED, "symex", 0, repr(sorted(seen)), kind="vacuity")
    r.assumptions += ["doubles as reals", "cd_psi[k] and sigma0 are what the plane-0 row of the same charge record left (unit C20.residuals.CD_MUSIC_plane0_row); the order of the rows is not under this contract",
                      "cxxSurfaceCharge accessors are executed from their real inline definitions"]
    return r


# ------------------------------------------------------------------------------------------------ plane 2
def unit_plane2(twin=False):
    fn0 = A.find_function(MODEL, Q)
    r = U.new_unit("C20.residuals.CD_MUSIC_plane2_row", MODEL, Q, fn0)
    c = _ctx()
    ev = surface_enums(c)
    fn, ex, its, info = concrete_type_iteration(MODEL, Q, int(K("SURFACE_CB2")), c)
    FC, R_, E0 = KR("F_C_MOL"), KR("R_KJ_DEG_MOL"), KR("EPSILON_ZERO")
    NO_DL = tm.num(ev["NO_DL"], "I")
    roles = _plane2_loops(r, fn0, ex, info, NO_DL, twin)
    if roles is None:
        return r
    seen = set()
    for s in live(its, ("run", "cont")):
        row = Row(fn, ex, s, info)
        if not _charge_is_this_unknowns(r, row, "plane2"):
            continue
        grams = row.ch0("grams")
        s01 = row.ch0("sigma0") + row.ch0("sigma1")
        for hy0, zero in cases(row.hy, tm.eq(grams, tm.num(0))):
            if zero:
                seen.add("no_surface")
                U.discharge_valid(r, "zero_grams.residual==0", hy0, tm.eq(row.res, tm.num(0)))
                continue
            U.discharge_valid(r, "plane2.sigma0_sigma1_not_written", hy0, tm.and_(tm.eq(row.ch1("sigma0"), row.ch0("sigma0")), tm.eq(row.ch1("sigma1"), row.ch0("sigma1"))))
            for hy, explicit in cases(hy0, tm.not_(tm.eq(row.dl, NO_DL))):
                if explicit:
                    seen.add("explicit_layer")
                    # f accumulates the charge (mol) of plane 2 and of the diffuse layer; it must cancel the charge of planes 0 and 1
                    U.discharge_valid(r, "explicit_layer.residual==f(plane2+diffuse_layer,mol)+(sigma0+sigma1)*A*g/F", hy, tm.eq(row.res, row.f + s01 * row.area_grams() / FC))
                    sums = havoc_sym(row.ch1("sigma2"), roles["plane2_charge"])
                    if len(sums) != 1:
                        r.add("explicit_layer.sigma2_from_species_sum", FAILED, "symex", 0, repr(row.ch1("sigma2"))[:200]); continue
                    U.discharge_valid(r, "explicit_layer.sigma2==sum_plane2*F/(A*g)", hy, tm.eq(row.ch1("sigma2"), sums[0] * FC / row.area_grams()))
                    U.discharge_valid(r, "explicit_layer.sigma_ddl==(f-sum_plane2)*F/(A*g)", hy, tm.eq(row.ch1("sigmaddl"), (row.f - sums[0]) * FC / row.area_grams()))
                    _convergence(r, row, "plane2", seen, hy)
                    continue
                # Gouy-Chapman (Grahame) charge of the diffuse layer at psi2 for the mixed electrolyte
                m = _psi_master(r, row, "no_layer.psi2", "SURF_PSI2")
                if m is None:
                    continue
                nf = fld0(ex, s, "la", "R", fld0(ex, s, "s", "P", m)) * row.ln10       # -F psi2 / (R T)
                held = row.local_holding(nf)
                r.add("no_layer.loop_exponent_is_ln(a_psi2)=-F*psi2/RT", DISCHARGED if roles["exponent"] in held else FAILED, "symex", 0,
                      "the species loop multiplies z_i by local `%s`; locals holding ln(a_psi2) after the row: %r" % (roles["exponent"], held))
                S, S1 = havoc_sym(row.res, roles["grahame"]), havoc_sym(row.res, roles["net_charge"])
                if len(S) != 1 or len(S1) != 1:
                    r.add("no_layer.uses_species_sums", FAILED, "symex", 0, "residual does not contain both loop sums: %r %r" % (S, S1)); continue
                S, S1 = S[0], S1[0]
                # the balancing monovalent counter charge: an anion when the solution sum is positive, a cation otherwise
                bal = tm.ite(tm.le(tm.num(0), S1), tm.app("exp", (tm.neg(nf),), "R"), tm.app("exp", (nf,), "R")) - tm.num(1)
                tot = S + _abs(S1) * bal
                k8 = tm.num(8) * row.eps * E0 * (R_ * tm.num(1000)) * row.tk * tm.num(1000)
                sgn = tm.ite(tm.lt(nf, tm.num(0)), tm.num(-1), tm.num(1))           # psi2 > 0  <=>  nf < 0  =>  diffuse charge negative
                if twin:
                    sgn = tm.neg(sgn)
                sig_d = sgn * tm.num("0.5") * tm.app("sqrt", (k8,), "R") * tm.app("sqrt", (_abs(tot),), "R")
                seen.add("no_layer")
                U.discharge_valid(r, "no_layer.sigma2==f*F/(A*g)", hy, tm.eq(row.ch1("sigma2"), row.f * FC / row.area_grams()))
                U.discharge_valid(r, "no_layer.sigma_ddl==-sgn(psi2)*sqrt(2*eps*eps0*R*T*sum_i c_i*(exp(-z_i*F*psi2/RT)-1))", hy, tm.eq(row.ch1("sigmaddl"), sig_d))
                U.discharge_valid(r, "no_layer.residual==sigma0+sigma1+sigma2+sigma_ddl", hy, tm.eq(row.res, s01 + row.f * FC / row.area_grams() + sig_d))
                for h, neg in cases(hy, tm.lt(tot, tm.num(0))):
                    if neg:
                        seen.add("negative_sum")
                        U.discharge_valid(r, "no_layer.negative_ion_sum=>not_converged", h, tm.eq(row.converge, tm.num(0, "I")))
                    else:
                        _convergence(r, row, "plane2", seen, h)
    want = {"no_surface", "explicit_layer", "no_layer", "negative_sum", "violated", "within"}
    r.add("reach.zero_grams_explicit_and_implicit_layer", DISCHARGED if seen == want else UNDECIDED, "symex", 0, repr(sorted(seen)), kind="vacuity")
    r.assumptions += ["doubles as reals; exp/sqrt as real functions", "sigma0, sigma1 are what the plane-0 and plane-1 rows of the same charge record left",
                      "under(lm) is the molality of the species (pure function)", "surface_get_psi_master / Find_charge deterministic look-ups",
                      "0.5*sqrt(8 k) is written for sqrt(2 k)"]
    return r


def _plane2_loops(r, fn0, ex_row, info, NO_DL, twin):
    """the two species loops of the plane-2 row (reached only from that row): which species contribute what.
    Returns the role -> local name map {grahame, net_charge, exponent, plane2_charge}."""
    reached = sorted(info["inner_entries"])
    if len(reached) != 2:
        r.add("plane2.two_species_loops", UNDECIDED, "symex", 0, "inner loops reached from the plane-2 row: %r" % reached, kind="vacuity"); return None
    H2O, SURF = KI("H2O"), KI("SURF")
    roles = {}
    for k in reached:
        est = info["inner_entries"][k]
        dl = [fld(ex_row, st, "dl_type_x", "I") for st in est]
        explicit = all(proves(st.pc, tm.not_(tm.eq(d, NO_DL))) for st, d in zip(est, dl))
        implicit = all(proves(st.pc, tm.eq(d, NO_DL)) for st, d in zip(est, dl))
        if explicit == implicit:
            r.add("plane2.loop_belongs_to_one_layer_case", UNDECIDED, "symex", 0, "loop %d" % k, kind="vacuity"); return None
        lp = loops_of_cached(MODEL, Q)[k]
        accs = accumulators(lp)
        f, ex, its, inf = U.run_loop_isolated(MODEL, Q, k, ctx=_ctx())
        ind = induction_name(lp)
        n = 0
        for s in live(its, ("run", "cont")):
            n += 1
            sp = vec_elem(ex, s, "s_x", loc(inf, s, ind))
            ty = fld0(ex, s, "type", "I", sp)
            z = fld0(ex, s, "z", "R", sp)
            lm = fld0(ex, s, "lm", "R", sp)
            us = [e.result for e in ev_named(s, "under") if e.args and e.args[-1] is lm]
            m = us[0] if us else tm.app("call:under", (tm.NULL, lm), "R")          # molality of the species: under(log10 molality)
            hy0 = list(s.pc)
            new = {a: loc(inf, s, a) for a in accs}
            old = {a: tm.sym("iter_" + a, "R") for a in accs}
            if implicit:
                # roles: the accumulator whose update carries an exponential is the Grahame sum; the exponent multiplies z_i by a local
                for a in accs:
                    exps = [t for t in tm.subterms(new[a]) if t.op == "app" and t.args[0] == "exp"]
                    if exps and "grahame" not in roles:
                        roles["grahame"] = a
                        ls = sorted({str(t.args[0])[2:] for t in tm.subterms(exps[0]) if t.op == "sym" and str(t.args[0]).startswith("L_")})
                        if len(ls) == 1:
                            roles["exponent"] = ls[0]
                if "grahame" in roles and "net_charge" not in roles:
                    rest = [a for a in accs if a != roles["grahame"]]
                    if len(rest) == 1:
                        roles["net_charge"] = rest[0]
                if not {"grahame", "net_charge", "exponent"} <= set(roles):
                    continue
                g, q1 = roles["grahame"], roles["net_charge"]
                nf = tm.sym("L_" + roles["exponent"], "R")
                for hy, aq in cases(hy0, tm.lt(ty, H2O)):        # aqueous species: type AQ or HPLUS, i.e. < H2O
                    if aq:
                        U.discharge_valid(r, "no_layer.loop.aqueous:sum+=c_i*(exp(z_i*(-F*psi2/RT))-1)", hy, tm.eq(new[g], old[g] + m * (tm.app("exp", (z * nf,), "R") - tm.num(1))))
                        U.discharge_valid(r, "no_layer.loop.aqueous:net_charge+=c_i*z_i", hy, tm.eq(new[q1], old[q1] + m * z))
                    else:
                        U.discharge_valid(r, "no_layer.loop.other_species:sums_unchanged", hy, tm.and_(tm.eq(new[g], old[g]), tm.eq(new[q1], old[q1])))
            else:
                dz2 = tm.select(entry_arr(ex, s, ("m", "R")), tm.app("fld:dz", (sp,), "P"), tm.num(2, "I"))
                if "plane2_charge" not in roles:
                    # role: the accumulator of this loop that the row turns into sigma2
                    for srow in live(info["iter"], ("run", "cont")):
                        for _, val in writes(srow, ("f", "sigma2", "R")):
                            for a in accs:
                                if havoc_sym(val, a):
                                    roles.setdefault("plane2_charge", a)
                if "plane2_charge" not in roles:
                    continue
                p = roles["plane2_charge"]
                for hy, surf in cases(hy0, tm.eq(ty, SURF)):
                    if surf:
                        U.discharge_valid(r, "explicit_layer.loop.surface_species:sum+=c_i*dz2_i", hy, tm.eq(new[p], old[p] + m * dz2))
                    else:
                        U.discharge_valid(r, "explicit_layer.loop.other_species:sum_unchanged", hy, tm.eq(new[p], old[p]))
        for role in (("grahame", "net_charge") if implicit else ("plane2_charge",)):
            if role in roles:
                check_accumulator_init(r, fn0, MODEL, lp, roles[role], "plane2." + role)
    need = {"grahame", "net_charge", "exponent", "plane2_charge"}
    r.add("reach.plane2_species_loops", DISCHARGED if need <= set(roles) else UNDECIDED, "symex", 0, repr(roles), kind="vacuity")
    return roles if need <= set(roles) else None


# ------------------------------------------------------------------------------------------------ site balance
def unit_site_balance(twin=False):
    fn0 = A.find_function(MODEL, Q)
    r = U.new_unit("C20.residuals.SURFACE_site_balance_row", MODEL, Q, fn0)
    fn, ex, its, info = concrete_type_iteration(MODEL, Q, int(K("SURFACE")), _ctx())
    seen = set()
    for s in live(its, ("run", "cont")):
        row = Row(fn, ex, s, info)
        seen.add("row")
        spec = row.moles - row.f if not twin else row.moles + row.f
        U.discharge_valid(r, "site_balance.residual==sites_defined(moles)-sum_of_species(f)", row.hy, tm.eq(row.res, spec))
        # sites are conserved at convergence: a relative imbalance above the tolerance (and above 1% or above ineq_tol) is never accepted
        ineq = fld0(ex, s, "ineq_tol", "R")
        big = tm.lt(row.minrel, row.moles)
        a = _abs(row.res)
        viol_big = tm.and_(big, tm.lt(row.toler * row.moles, a), tm.or_(tm.le(ineq, a), tm.le(tm.num("0.01") * row.moles, a)))
        viol_small = tm.and_(tm.not_(big), tm.lt(row.toler, a))
        viol = tm.or_(viol_big, viol_small)
        for h, v in cases(row.hy, viol):
            if v:
                for tag, vv in (("large_surface.|residual|>tol*sites", viol_big), ("tiny_surface.|residual|>tol", viol_small)):
                    if sat(h + [vv]):
                        seen.add(tag)
                U.discharge_valid(r, "site_balance.imbalance_above_tolerance=>not_converged", h, tm.eq(row.converge, tm.num(0, "I")))
            else:
                seen.add("within")
                U.discharge_valid(r, "site_balance.within_tolerance=>converge_flag_untouched", h, tm.eq(row.converge, row.converge0))
        U.discharge_valid(r, "site_balance.sites_and_sum_not_written", row.hy, tm.and_(tm.eq(fld(ex, s, "moles", "R", row.xi), row.moles), tm.eq(fld(ex, s, "f", "R", row.xi), row.f)))
    want = {"row", "large_surface.|residual|>tol*sites", "tiny_surface.|residual|>tol", "within"}
    r.add("reach.row_and_both_size_classes", DISCHARGED if seen == want else UNDECIDED, "symex", 0, repr(sorted(seen)), kind="vacuity")
    r.assumptions += ["doubles as reals", "x[i]->f is the sum over the surface species of this site type (accumulated by sum_species through the sum_mb lists built by build_model; not under this contract)",
                      "a residual below ineq_tol AND below 1% of the sites is accepted by the code before the relative test: the contract follows that (the final convergence is then decided by the step size)"]
    return r
