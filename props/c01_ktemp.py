"""C01, "log K at the temperature and pressure of the solution": Phreeqc::k_temp recomputes every aqueous species' and every
participating phase's log K with k_calc (C01.k_calc) at T = tc + 273.15 and the solution's pressure, with the reaction volume change of
that same reaction; the cached values are reused only when temperature, pressure and ionic strength (within 0.1 %) are those of the last
evaluation and no log K depends on ionic strength; the cache keys are refreshed afterwards."""
from props.common import *
from vf.core import FAILED, DISCHARGED, UNDECIDED
from vf.astvc import hdr

PREP = "src/phreeqcpp/prep.cpp"
Q = "Phreeqc::k_temp"


def unit_k_temp(twin=False):
    fn = A.find_function(PREP, Q)
    r = U.new_unit("C01.k_temp.every_logK_at_solution_T_and_P", PREP, Q, fn)
    loops = [x for x in A.walk(fn) if x.get("kind") in ("ForStmt", "WhileStmt", "DoStmt")]
    ev = A.enum_values_compiled("global_structures.h", ["delta_v", "vm0"])
    tc = tm.sym("L_tc", "R"); tempk = tm.sym("L_tempk", "R"); pa = tm.sym("L_pa", "R")
    PPA = hdr.define_value("src/phreeqcpp/global_structures.h", "PASCAL_PER_ATM") if hasattr(hdr, "define_value") else None
    def cx():
        c = ctx(functional=("calc_delta_v", "k_calc")); c.enum_values.update(ev); return c
    # species loop
    k_sp = loop_ordinal(fn, PREP, init_text="i=0", cond_text="i<(int)this->s_x.size()")
    f, ex, its, info = U.run_loop_isolated(PREP, Q, k_sp, ctx=cx())
    nk = ns = 0
    for s in live(its, ("run", "cont")):
        sp = vec_elem(ex, s, "s_x", tm.sym("iter_i", "I"))
        dv = [e for e in U.iter_events(s) if e.name.endswith("calc_delta_v")]
        kc = [e for e in U.iter_events(s) if e.name.endswith("k_calc")]
        rx = tm.app("fld:rxn_x", (sp,), "P")
        ok_dv = len(dv) == 1 and "fld:s_x(this)" in repr(dv[0].args[0]) and "iter_i" in repr(dv[0].args[0]) and (dv[0].args[1] is tm.FALSE or (tm.isnum(dv[0].args[1]) and dv[0].args[1].args[0] == 0))
        r.add("species.volume_change_of_its_own_reaction(aqueous)", DISCHARGED if ok_dv else FAILED, "trace", 0, repr([e.args for e in dv])[:200])
        if not ok_dv:
            continue
        wl = [(ix, v) for ix, v in writes(s, ("m", "R"))]
        okw = len(wl) == 1 and wl[0][1] is dv[0].result and repr(wl[0][0][1]) in ("E.delta_v", str(ev["delta_v"])) and "fld:logk(fld:rxn_x(" in repr(wl[0][0][0])
        r.add("species.volume_change_stored_in_logk[delta_v]", DISCHARGED if okw else FAILED, "symex", 0, repr(wl)[:200])
        keep = tm.and_(tm.eq(tc, fld0(ex, s, "current_tc", "R")), tm.eq(dv[0].result, tm.num(0)))
        if twin:
            keep = tm.eq(dv[0].result, tm.num(0))
        lkw = writes(s, ("f", "lk", "R"))
        for hy, kept in cases(list(s.pc), keep):
            if kept:
                ns += 1
                r.add("species.same_T_and_no_volume_term.logK_kept#%d" % ns, DISCHARGED if not lkw and not kc else FAILED, "symex", 0, repr(lkw)[:120])
            else:
                nk += 1
                oka = len(kc) == 1 and len(lkw) == 1 and lkw[0][0] == (sp,) and lkw[0][1] is kc[0].result and "fld:logk(fld:rxn_x(" in repr(kc[0].args[0]) and "fld:s_x(this)" in repr(kc[0].args[0]) and kc[0].args[1] is tempk
                r.add("species.logK=k_calc(own_coefficients,T)#%d" % nk, DISCHARGED if oka else FAILED, "symex", 0, repr([e.args for e in kc])[:200])
                if oka:
                    U.discharge_eq_real(r, "species.pressure_in_Pa==pa*PASCAL_PER_ATM#%d" % nk, hy, kc[0].args[2], pa * tm.num(101325))
                U.discharge_valid(r, "species.ionic_strength_dependence_flagged#%d" % nk, hy, tm.to_bool(fld(ex, s, "mu_terms_in_logk", "B")))
    # phases loop
    k_ph = loop_ordinal(fn, PREP, init_text="i=0", cond_text="i<(int)phases.size()")
    f, ex, its, info = U.run_loop_isolated(PREP, Q, k_ph, ctx=cx())
    npi = npo = 0
    for s in live(its, ("run", "cont")):
        ph = vec_elem(ex, s, "phases", tm.sym("iter_i", "I"))
        kc = [e for e in U.iter_events(s) if e.name.endswith("k_calc")]
        dv = [e for e in U.iter_events(s) if e.name.endswith("calc_delta_v")]
        lkw = writes(s, ("f", "lk", "R"))
        for hy, inn in cases(list(s.pc), tm.eq(fld0(ex, s, "in", "I", ph), tm.num(1, "I"))):
            if inn:
                npi += 1
                oka = len(kc) == 1 and len(lkw) == 1 and lkw[0][0] == (ph,) and lkw[0][1] is kc[0].result and "fld:phases(this)" in repr(kc[0].args[0]) and "fld:logk(fld:rxn_x(" in repr(kc[0].args[0]) and kc[0].args[1] is tempk
                r.add("phase_in_model.logK=k_calc(own_coefficients,T)#%d" % npi, DISCHARGED if oka else FAILED, "symex", 0, repr([e.args for e in kc])[:200])
                if oka:
                    U.discharge_eq_real(r, "phase_in_model.pressure_in_Pa==pa*PASCAL_PER_ATM#%d" % npi, hy, kc[0].args[2], pa * tm.num(101325))
                wl = writes(s, ("m", "R"))
                okd = len(dv) == 1 and len(wl) == 1 and (dv[0].args[1] is tm.TRUE or (tm.isnum(dv[0].args[1]) and dv[0].args[1].args[0] == 1))
                if okd:
                    vm0 = tm.select(entry_arr(ex, s, ("m", "R")), tm.app("fld:logk", (ph,), "P"), tm.sym("E.vm0", "I") if "E.vm0" in repr(wl[0][1]) else tm.num(ev["vm0"], "I"))
                    U.discharge_eq_real(r, "phase_in_model.delta_v==reaction_volume-molar_volume_of_the_solid#%d" % npi, hy, wl[0][1], dv[0].result - vm0)
                else:
                    r.add("phase_in_model.delta_v==reaction_volume-molar_volume_of_the_solid#%d" % npi, FAILED, "symex", 0, repr(wl)[:160])
            else:
                npo += 1
                r.add("phase_not_in_model.untouched#%d" % npo, DISCHARGED if not lkw and not kc else FAILED, "symex", 0, "", kind="frame")
    r.add("reach.species_and_phases", DISCHARGED if nk and ns and npi and npo else UNDECIDED, "symex", 0, "%d/%d/%d/%d" % (nk, ns, npi, npo), kind="vacuity")
    # cache test and refresh, T and P used
    fn2, ex2, fin, info2 = U.run_function(PREP, Q, modes={i: "havoc" for i in range(len(loops))}, ctx=cx())
    TC = tm.sym("P0_tc", "R"); PA = tm.sym("P1_pa", "R")
    nskip = nrun = 0
    for s in live(fin, ("ret",)):
        mu = fld0(ex2, s, "mu_x", "R"); cm = fld0(ex2, s, "current_mu", "R")
        d = mu - cm
        absd = tm.ite(tm.lt(d, tm.num(0)), tm.neg(d), d)
        same = tm.and_(tm.eq(TC, fld0(ex2, s, "current_tc", "R")), tm.eq(PA, fld0(ex2, s, "current_pa", "R")),
                       tm.not_(tm.lt(tm.Q("1/1000") * mu if not twin else tm.Q("1/10") * mu, absd)), tm.not_(tm.to_bool(fld0(ex2, s, "mu_terms_in_logk", "B"))))
        recomputed = any(e.name.endswith("calc_vm") for e in s.events)
        if not recomputed:
            nskip += 1
            U.discharge_valid(r, "cache.reused_only_for_same_T_P_mu_and_no_mu_dependent_logK#%d" % nskip, list(s.pc), same)
            r.add("cache.reuse_writes_nothing#%d" % nskip, DISCHARGED if all(not writes(s, k) for k in s.heap) and not s.events else FAILED, "symex", 0, "", kind="frame")
        else:
            nrun += 1
            U.discharge_valid(r, "cache.recomputed_whenever_a_key_differs#%d" % nrun, list(s.pc), tm.not_(same))
            tk = s.locals.get(info2["names"]["tempk"])
            U.discharge_eq_real(r, "T_kelvin==tc+273.15#%d" % nrun, list(s.pc), tk, TC + tm.Q("273.15"))
            pav = s.locals.get(info2["names"]["pa"])
            r.add("P_is_the_solution_pressure(patm_x)#%d" % nrun, DISCHARGED if pav is fld0(ex2, s, "patm_x", "R") else FAILED, "symex", 0, repr(pav)[:80])
            for key, want in (("current_tc", TC), ("current_pa", pav), ("current_mu", fld(ex2, s, "mu_x", "R"))):
                U.discharge_eq_real(r, "cache_keys_refreshed.%s#%d" % (key, nrun), list(s.pc), fld(ex2, s, key, "R"), want)
    r.add("reach.cache", DISCHARGED if nskip and nrun else UNDECIDED, "symex", 0, "%d/%d" % (nskip, nrun), kind="vacuity")
    r.assumptions += ["k_calc per C01.k_calc; calc_delta_v(reaction, is_phase) returns the reaction's volume change", "the three loops are havocked for the cache obligations (a loop that wrote a cache key would make the refreshed value unknown and fail cache_keys_refreshed)", "solid-solution miscibility refresh (ss_prep) not under this contract", "doubles as reals"]
    return r
