"""C01 ext: BASIC read-outs of basicsubs.cpp — each answers for the item NAMED by its argument, and an item that is absent from the database
or not in the current model gives the documented sentinel, never a stale number."""
from props.c01_ext_util import *

BS = "src/phreeqcpp/basicsubs.cpp"

SENT = {"log_activity": "-99.99", "activity": "1e-99", "log_molality": "-99.99", "molality": "1e-99", "activity_coefficient": "0", "log_activity_coefficient": "0"}


def unit_species_sentinels(twin=False):
    r = U.new_unit("C01.species_readouts.absent_species_gives_the_sentinel", BS, "Phreeqc::molality", A.find_function(BS, "Phreeqc::molality"))
    n = 0
    for fname, sent in sorted(SENT.items()):
        q = "Phreeqc::" + fname
        c = ctx(functional=("s_search",))
        fn, ex, fin, info = U.run_function(BS, q, ctx=c)
        want = tm.Q(sent) if not (twin and fname == "molality") else tm.num(0)
        for s in lives(fin, ("ret",)):
            lk = events(s, "s_search", it=False)
            if not put(r, "%s.one_lookup_of_the_name_given" % fname, len(lk) == 1 and lk[0].args[0] is tm.sym("P0_species_name", "P"), repr([e.args for e in lk]), kind="trace"):
                continue
            p = lk[0].result
            G = lambda name, so: fld0(ex, s, name, so)
            hw, em = G("s_h2o", "P"), G("s_eminus", "P")
            base = list(s.pc) + [nonnull(hw), nonnull(em)]
            absent = tm.or_(isnull(p), tm.and_(tm.eq(fld0(ex, s, "in", "I", p), I(0)), tm.not_(tm.eq(p, hw)), tm.not_(tm.eq(p, em))))
            for hyc, ab in cases(base, absent):
                if ab:
                    n += 1
                    valid(r, "%s.absent_or_not_in_model=>%s" % (fname, sent), hyc, tm.eq(s.ret, want))
            put(r, "%s.writes_nothing" % fname, all(not writes(s, k) for k in s.heap), "", kind="frame")
    put(r, "reach.absent_cases", n >= 6, "%d" % n, kind="vacuity", undecided=True)
    r.assumptions += ["s_search is a pure look-up by name (0 when the name is not a species)", "s_h2o and s_eminus exist (build_model reports an error otherwise)",
                      "the values for species in the model: unit C01.species_readouts.LA==LM+LG"]
    return r


def unit_total_mole(twin=False):
    q = "Phreeqc::total_mole"
    fn = A.find_function(BS, q)
    r = U.new_unit("C01.total_mole.TOTMOLE_is_the_model_total_of_the_named_element", BS, q, fn)
    c = ctx(functional=("master_bsearch", "strcmp", "strcmp_nocase", "c_str"))
    f, ex, fin, info = U.run_function(BS, q, modes={0: "iter"}, ctx=c)
    name = tm.sym("P0_total_name", "P")
    seen = set()
    G = lambda s, n, so="R": fld0(ex, s, n, so)
    for s in lives(fin, ("ret",)):
        hy = list(s.pc)
        cmpH = [e for e in events(s, "strcmp", it=False) if e.args[0] is name and e.args[1] is tm.strc('"H"')]
        cmpO = [e for e in events(s, "strcmp", it=False) if e.args[0] is name and e.args[1] is tm.strc('"O"')]
        mb = events(s, "master_bsearch", it=False)
        if cmpH and proved(hy, tm.eq(cmpH[0].result, I(0))):
            seen.add("H"); put(r, "H.returns_total_h_x", s.ret is G(s, "total_h_x"), repr(s.ret)); continue
        if cmpO and proved(hy, tm.eq(cmpO[0].result, I(0))):
            seen.add("O"); put(r, "O.returns_total_o_x", s.ret is G(s, "total_o_x" if not twin else "total_h_x"), repr(s.ret)); continue
        if not put(r, "element.looked_up_once", len(mb) == 1, "%d" % len(mb), kind="trace"):
            continue
        put(r, "element.looked_up_under_the_name_given", "P0_total_name" in repr(mb[0].args[0]), repr(mb[0].args[0]), kind="trace")
        mp = mb[0].result
        for hyc, found in cases(hy, nonnull(mp)):
            if not found:
                w = [e for e in events(s, "strcmp_nocase", it=False) if e.args[1] is tm.strc('"water"')]
                ch = [e for e in events(s, "strcmp_nocase", it=False) if e.args[1] is tm.strc('"charge"')]
                if w and proved(hyc, tm.eq(w[0].result, I(0))):
                    seen.add("water"); eqr(r, "water.returns_moles_of_water(mass/gfw)", hyc, s.ret, G(s, "mass_water_aq_x") / G(s, "gfw_water"))
                elif ch and proved(hyc, tm.eq(ch[0].result, I(0))):
                    seen.add("charge"); put(r, "charge.returns_cb_x", s.ret is G(s, "cb_x"), repr(s.ret))
                else:
                    seen.add("unknown"); valid(r, "unknown_name.returns_0", hyc, tm.eq(s.ret, tm.num(0)))
                continue
            prim = tm.eq(fld0(ex, s, "primary", "I", mp), I(1))
            redox = nonnull(fld0(ex, s, "secondary", "P", fld0(ex, s, "s", "P", mp)))
            for h2, single in cases(hyc, tm.or_(tm.not_(prim), tm.not_(redox))):
                if single:
                    seen.add("single"); valid(r, "secondary_or_non_redox_primary.returns_its_own_total", h2, tm.eq(s.ret, fld0(ex, s, "total", "R", mp)))
                else:
                    seen.add("redox")
                    put(r, "redox_primary.returns_the_sum_over_valence_states", s.ret.op == "sym" and ("havoc" in str(s.ret.args[0]) or "iter" in str(s.ret.args[0])), repr(s.ret))
    put(r, "reach.branches", seen >= {"H", "O", "water", "charge", "unknown", "single", "redox"}, repr(sorted(seen)), kind="vacuity", undecided=True)
    its = lives(info["iter"].get(0, []), ("run", "cont"))
    for s in its:
        iv = [v for v in s.locals.values() if v is not None and not isinstance(v, tuple) and v.op == "sym" and str(v.args[0]).startswith("iter_") and v.sort == "I"]
        ok = False
        for i in iv:
            mi = vec_elem(ex, s, "master", i)
            t1 = local(info, s, "t"); t0 = tm.sym("iter_t", "R")
            if B.sympy_equal(t1, t0 + fld0(ex, s, "total", "R", mi))[0]:
                ok = True
                mp = events(s, "master_bsearch", it=False)[0].result
                valid(r, "redox_sum.only_valence_states_of_THIS_element", list(s.pc), tm.eq(fld0(ex, s, "primary", "P", fld0(ex, s, "elt", "P", mi)), mp))
        put(r, "redox_sum.t+=total_of_the_valence_state", ok, repr(local(info, s, "t")))
    put(r, "reach.redox_sum", bool(its), "%d" % len(its), kind="vacuity", undecided=True)
    for s in info["entry"].get(0, [])[:1]:
        v = s.locals.get(info["names"]["t"])
        put(r, "redox_sum.starts_from_0", v is not None and tm.isnum(v) and v.args[0] == 0, repr(v), kind="establishment")
        i0 = None
    lp = loops_of(fn)[0]
    f2, ex2, fin2, info2 = region(BS, q, [lp["inner"][0]])
    for s in lives(fin2):
        v = local(info2, s, "i")
        mp = tm.sym("L_master_ptr", "P")
        valid(r, "redox_sum.starts_after_the_primary_master", list(s.pc), tm.eq(v, fld0(ex2, s, "number", "I", mp) + I(1)), kind="establishment")
    drop_head(q, 0)
    r.assumptions += ["master_bsearch/strcmp/strcmp_nocase are pure; the valence states of an element follow its primary master in `master` (tidy_model)", "doubles as reals"]
    return r


def unit_si_sentinels(twin=False):
    r = U.new_unit("C01.saturation_index.named_phase_and_sentinels", BS, "Phreeqc::saturation_index", A.find_function(BS, "Phreeqc::saturation_index"))
    for fname in ("saturation_index", "saturation_ratio"):
        q = "Phreeqc::" + fname
        c = ctx(functional=("phase_bsearch",))
        fn, ex, fin, info = U.run_function(BS, q, modes={0: "iter"}, ctx=c)
        n = {"absent": 0, "out": 0, "in": 0}
        for s in lives(fin, ("ret",)):
            hy = list(s.pc) + [tm.not_(tm.eq(tm.sym("P1_iap", "P"), tm.sym("P2_si", "P")))]
            lk = events(s, "phase_bsearch", it=False)
            if not put(r, "%s.one_lookup_of_the_name_given" % fname, len(lk) == 1 and lk[0].args[0] is tm.sym("P0_phase_name", "P"), repr([e.args for e in lk]), kind="trace"):
                continue
            ph = lk[0].result
            mem = ex.heap_arr(s, ("m", "R"))
            si = tm.select(mem, tm.sym("P2_si", "P"), I(0)); iap = tm.select(mem, tm.sym("P1_iap", "P"), I(0))
            for hyc, absent in cases(hy, isnull(ph)):
                if absent:
                    n["absent"] += 1
                    if fname == "saturation_index":
                        valid(r, "SI.unknown_phase=>si=-99_iap=0", hyc, tm.and_(tm.eq(si, tm.num(-99)), tm.eq(iap, tm.num(0))))
                    else:
                        valid(r, "SR.unknown_phase=>1e-99", hyc, tm.eq(s.ret, tm.Q("1e-99")))
                    put(r, "%s.unknown_phase_is_warned_about" % fname, bool(events(s, "warning_msg", it=False)), "", kind="trace")
                    continue
                for h2, out in cases(hyc, tm.eq(fld0(ex, s, "in", "I", ph), I(0))):
                    if out:
                        n["out"] += 1
                        if fname == "saturation_index":
                            valid(r, "SI.phase_not_in_model=>si=-99.99_iap=0_and_ERROR", h2, tm.and_(tm.eq(si, tm.Q("-99.99") if not twin else tm.num(0)), tm.eq(iap, tm.num(0)), tm.eq(s.ret, I(0))))
                        else:
                            valid(r, "SR.phase_not_in_model=>0", h2, tm.eq(s.ret, tm.num(0)))
                    else:
                        n["in"] += 1
                        if fname == "saturation_index":
                            valid(r, "SI.phase_in_model=>OK", h2, tm.eq(s.ret, I(1)))
                        else:
                            okp = s.ret.op == "app" and s.ret.args[0] == "pow" and tm.isnum(s.ret.args[1]) and s.ret.args[1].args[0] == 10
                            put(r, "SR.phase_in_model=>10^SI", okp, repr(s.ret)[:120])
                            if okp:
                                e = s.ret.args[2]
                                put(r, "SR.SI==IAP_of_the_walk-logK_of_THE_phase", e.op == "-" and e.args[1] is fld0(ex, s, "lk", "R", ph) and e.args[0].op == "sym", repr(e)[:160])
        put(r, "reach.%s.three_cases" % fname, all(v >= 1 for v in n.values()), repr(n), kind="vacuity", undecided=True)
        # the walk: from token 1 of the model form (rxn_x) of THE phase found, to the NULL-species sentinel
        lp = loops_of(fn)[0]
        f2, ex2, fin2, info2 = region(BS, q, [lp["inner"][0]])
        for s in lives(fin2):
            v = local(info2, s, "rxn_ptr")
            pp = tm.sym("L_phase_ptr", "P")
            want = tm.select(entry_arr(ex2, s, ("f", "#vdata", "P")), tm.app("fld:token", (tm.app("fld:rxn_x", (pp,), "P"),), "P")) + I(1)
            valid(r, "%s.walk_starts_at_token_1_of_rxn_x_of_the_phase_found" % fname, list(s.pc), tm.eq(v, want), kind="establishment")
        for s in lives(info["iter"].get(0, []), ("run", "cont"))[:1]:
            rp = tm.sym("iter_rxn_ptr", "P")
            bound = [p for p in s.pc if rp in tm.subterms(p)]
            valid(r, "%s.walk_ends_at_the_null_species" % fname, [], tm.eq(tm.to_bool(bound[0]) if bound else tm.FALSE, nonnull(fld0(ex, s, "s", "P", rp))), kind="establishment")
        drop_head(q, 0)
    r.assumptions += ["phase_bsearch is a pure look-up by name", "iap and si point to different doubles", "IAP accumulation and SI = IAP - log K statement: units C01.saturation_index / C01.saturation_ratio", "OK == 1, ERROR == 0"]
    return r


UNITS = [
    ("C01.species_readouts.absent_species_gives_the_sentinel", unit_species_sentinels),
    ("C01.total_mole.TOTMOLE_is_the_model_total_of_the_named_element", unit_total_mole),
    ("C01.saturation_index.named_phase_and_sentinels", unit_si_sentinels),
]
