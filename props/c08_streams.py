"""C08: a failed or finished run leaves no input stream behind: every entry point that pushes a stream (directly or through
do_run) empties the stream stack (PHRQ_io::clear_istream) after its try block, on the path shared by normal completion and
the caught stop; clear_istream pops until the stack is empty."""
from props.common import *
from vf.core import FAILED, DISCHARGED, UNDECIDED

IPQ = "src/IPhreeqc.cpp"
PIO = "src/phreeqcpp/common/PHRQ_io.cpp"
ENTRIES = ["RunFile", "RunString", "RunAccumulated", "load_db", "load_db_str"]


def unit_stream_cleanup(twin=False):
    r = U.new_unit("C08.entry_points.no_input_stream_left_behind", IPQ, "IPhreeqc::RunFile", A.find_function(IPQ, "IPhreeqc::RunFile"))
    for name in ENTRIES:
        fn = A.find_function(IPQ, "IPhreeqc::" + name)
        body = A.body_of(fn).get("inner", [])
        tries = [k for k, x in enumerate(body) if x.get("kind") == "CXXTryStmt"]
        if not tries:
            r.add("%s.has_try_block" % name, FAILED, "syntactic", 0, ""); continue
        tail = body[tries[-1] + 1:]
        calls = []
        for x in tail:
            for y in A.walk(x):
                if y.get("kind") == "CXXMemberCallExpr":
                    calls.append(strip(y["inner"][0]).get("name"))
        want = "clear_istream" if not twin else "pop_all_streams"
        r.add("%s.tail_empties_the_stream_stack" % name, DISCHARGED if want in calls else FAILED, "syntactic", 0, "calls after the try block: %r" % (calls,), kind="structural")
        # the stop handler falls through to the tail (no return / rethrow inside `catch (const IPhreeqcStop&)`)
        t = body[tries[-1]]
        for h in t.get("inner", [])[1:]:
            if h.get("kind") != "CXXCatchStmt":
                continue
            var = h["inner"][0] if h.get("inner") else {}
            q = var.get("type", {}).get("qualType", "") if var.get("kind") == "VarDecl" else ""
            if "IPhreeqcStop" in q:
                esc = [y.get("kind") for y in A.walk(h["inner"][-1]) if y.get("kind") in ("ReturnStmt", "CXXThrowExpr")]
                r.add("%s.stop_handler_reaches_the_tail" % name, DISCHARGED if not esc else FAILED, "syntactic", 0, repr(esc), kind="structural")
    # clear_istream empties the stack: loop `while (istream_list.size() > 0) pop_istream()`
    fc = A.find_function(PIO, "PHRQ_io::clear_istream")
    loops = [x for x in A.walk(fc) if x.get("kind") == "WhileStmt"]
    ok = False
    if len(loops) == 1:
        cond = text_of(PIO, loops[0]["inner"][0 if len(loops[0]["inner"]) == 2 else 1])
        pops = [strip(y["inner"][0]).get("name") for y in A.walk(loops[0]["inner"][-1]) if y.get("kind") == "CXXMemberCallExpr"]
        ok = cond in ("istream_list.size()>0", "this->istream_list.size()>0", "!istream_list.empty()") and pops == ["pop_istream"]
        detail = "while (%s) %r" % (cond, pops)
    else:
        detail = "%d loops" % len(loops)
    r.add("clear_istream.pops_until_empty", DISCHARGED if ok else FAILED, "syntactic", 0, detail, kind="structural")
    r.proved_kind = "structural"
    r.assumptions += ["pop_istream removes exactly one entry (body not under contract)", "exceptions other than IPhreeqcStop are rethrown to the caller by design"]
    return r


def unit_ofstream_open(twin=False):
    """PHRQ_io::ofstream_open (every output file is opened through it): the caller's stream pointer is replaced only when the new file
    opened; on failure the new object is released and the caller's pointer is untouched (never left pointing at a deleted stream, which
    close_output_files would delete a second time)."""
    q = "PHRQ_io::ofstream_open"
    fn = A.find_function(PIO, q)
    r = U.new_unit("C08.ofstream_open.pointer_replaced_only_on_success", PIO, q, fn)
    c = ctx(); c.log_stores = True
    f, ex, fin, info = U.run_function(PIO, q, ctx=c)
    os_ = tm.sym("P0_os", "P")
    seen = set()
    for s in [s for s in fin if s.status == "ret" and B.z3_sat(list(s.pc)) != "unsat"]:
        news = [e.result for e in s.events if e.name.startswith("new ")]
        dels = [e.args[0] for e in s.events if e.name == "delete"]
        stores = [e.args[1] for e in s.events if e.name == "store" and e.recv is os_]
        closes = [e for e in s.events if e.name.endswith("safe_close")]
        names = [e.name.split("::")[-1] for e in s.events]
        if tm.isnum(s.ret) and s.ret.args[0] == 0 or s.ret is tm.FALSE:
            seen.add("failure")
            ok = not stores and not closes and dels == news and not twin
            r.add("failure.new_object_released_and_caller's_pointer_untouched", DISCHARGED if ok else FAILED, "trace", 0, repr(names))
        else:
            seen.add("success")
            ok = len(stores) == 1 and stores[0] is news[0] and len(closes) == 1 and not dels and names.index("safe_close") < names.index("store")
            r.add("success.old_stream_closed_then_pointer_set_to_the_open_stream", DISCHARGED if ok else FAILED, "trace", 0, repr(names))
            opened = [e.result for e in s.events if e.name.endswith("is_open")]
            r.add("success.only_when_the_file_is_open", DISCHARGED if opened and B.z3_prove(list(s.pc), tm.to_bool(opened[0]))[0] == "proved" else FAILED, "z3", 0, repr(s.pc)[:120])
    r.add("reach.both_outcomes", DISCHARGED if seen == {"failure", "success"} else UNDECIDED, "symex", 0, repr(sorted(seen)), kind="vacuity")
    r.assumptions += ["operator new / delete and std::ofstream are opaque (events)", "safe_close releases and nulls the pointer it is given (not under this unit)"]
    return r
