"""C09: the selected-output row writers called from punch_all() read the model only (same typed-AST frame as C09.frame.print_* of props/c09_ext4.py):
whether a quantity is punched must not change what the run stores.  punch_user_punch and punch_calculate_values run BASIC programs (which may SAVE / PUT) and
are not under this frame."""
from props import c09_ext4 as M

M.SINKS |= {"fpunchf", "fpunchf_user", "fpunchf_end_row", "punch_msg", "punch_flush"}
M.PURE_C |= {"strcmp_nocase"}
PUNCHERS = ["punch_identifiers", "punch_totals", "punch_molalities", "punch_activities", "punch_pp_assemblage", "punch_ss_assemblage", "punch_gas_phase", "punch_kinetics",
            "punch_saturation_indices", "punch_isotopes"]
_calc0 = M.CALCULATORS


class _Calc(object):
    def match(self, name):
        return _calc0.match(name) or name in ("log_activity", "log_molality", "activity", "molality", "total", "saturation_ratio", "saturation_index")


M.CALCULATORS = _Calc()
UNITS = [("C09.frame.%s.reads_the_model_only" % nm, M._frame_unit(nm)) for nm in PUNCHERS]
