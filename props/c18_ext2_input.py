"""C18 (second extension, input side): tidy_inverse (tidy.cpp) and read_inverse (read.cpp).

The uncertainty u(m, q) that bounds the adjustment of element m in solution q (unit C18.setup_inverse.uncertainty_rows) is what the user
declared only if tidy_inverse expands the declarations as documented:
   -uncertainty list            one value per solution, the last one repeated, 0.05 when none is given (same for -balances pH and force flags);
   -balances  element list      the element's own list, last value repeated; no list -> the per-solution defaults;
   an element-level list applies to every valence state of a redox element, a valence-state list only to that state;
and the unknowns of the model are what setup_inverse expects: every master species marked `in` (elements of the phases and of -balances,
e-, alkalinity; for redox elements the valence states instead of the element) except H+ and H2O, count_redox_rxns = number of valence
states among them that are secondary species (one redox column each)."""
from props.common import *
from vf.core import FAILED, DISCHARGED, UNDECIDED
from fractions import Fraction
from props.c18_ext import (I0, I1, mkctx, all_loops, ordinal, nested, same, F, spec_cases, at)
from props.c18_ext2_search import proves, short, start_value

TIDY = "src/phreeqcpp/tidy.cpp"
TQ = "Phreeqc::tidy_inverse"
LOOKUPS = ("master_bsearch", "master_bsearch_primary", "phase_bsearch")


def hd(lp):
    if lp.get("kind") != "ForStmt":
        return ("", "", "")
    return (text_of(TIDY, lp["inner"][0]).rstrip(";"), text_of(TIDY, lp["inner"][2]), text_of(TIDY, lp["inner"][3]))


def body_text(lp):
    return text_of(TIDY, lp["inner"][-1])


def tctx(extra=()):
    return mkctx(functional=LOOKUPS + tuple(extra))


def vd(ex, s, name, owner, entry=False):
    arr = entry_arr(ex, s, ("f", "#vdata", "P")) if entry else ex.heap_arr(s, ("f", "#vdata", "P"))
    return tm.select(arr, tm.app("fld:" + name, (owner,), "P"))


def vs(ex, s, name, owner, entry=False):
    arr = entry_arr(ex, s, ("f", "#vsize", "I")) if entry else ex.heap_arr(s, ("f", "#vsize", "I"))
    return tm.select(arr, tm.app("fld:" + name, (owner,), "P"))


def invrec(ex, s, i=None):
    """address of inverse[i] (i = the outer loop's index, a free symbol in an isolated inner loop)"""
    i = tm.sym("L_i", "I") if i is None else i
    return at(vd(ex, s, "inverse", THIS, entry=True), i)


def real_writes(s):
    return [(ix, v) for ix, v in writes(s, ("m", "R")) if isinstance(ix, tuple) and len(ix) == 2]


def loop_range(r, tag, ex, info, loop, iters, var, start_of, bound_of, hyp=()):
    """semantic range of an isolated loop: value of the induction variable after the initialiser, loop condition equivalent to var < bound"""
    sts = [s for s in iters if s.pc]
    if not sts:
        r.add(tag + ".range", UNDECIDED, "symex", 0, "no iteration state"); return
    s = sts[0]
    v = tm.sym("iter_" + var, "I")
    cond = s.pc[0]
    want = tm.lt(v, bound_of(s))
    r.add(tag + ".runs_up_to_%s" % bound_of.__doc__, DISCHARGED if proves(list(hyp) + [want], cond) and proves(list(hyp) + [cond], want) else FAILED, "z3", 0, repr(cond)[:200])
    e = info["entry_state"]
    v0 = start_value(ex, info, loop, e, var)
    st = start_of(e)
    r.add(tag + ".starts_at_%s" % start_of.__doc__, DISCHARGED if v0 is not None and (v0 is st or proves(list(hyp), tm.eq(v0, st))) else FAILED, "z3", 0, repr(v0)[:200])
    inc = hd(loop)[2]
    r.add(tag + ".unit_steps", DISCHARGED if inc in (var + "++", "++" + var) else FAILED, "syntactic", 0, inc, kind="structural")


def decl_id(node, name):
    for x in A.walk(node):
        if x.get("kind") == "VarDecl" and x.get("name") == name:
            return x["id"]
    return None


# ------------------------------------------------------------------------------------------------ defaults per solution
def unit_defaults(twin=False):
    """-uncertainty / pH uncertainty / force flags of the solutions: a list shorter than the number of solutions is extended to one entry per
    solution, the new entries taking the LAST value given (0.05 for the two uncertainties when nothing was given, false for the force flag);
    entries that were given are kept; a list that is long enough is left alone."""
    fn = A.find_function(TIDY, TQ)
    r = U.new_unit("C18.tidy_inverse.defaults.one_value_per_solution_last_value_repeated_0.05_when_none", TIDY, TQ, fn)
    L0 = all_loops(fn)[0]
    ifs = []
    for x in L0["inner"][-1].get("inner", []):        # located by shape: a guarded block of the per-model loop that resizes a list and then runs one loop
        if x.get("kind") != "IfStmt":
            continue
        loops_in = [y for y in A.walk(x["inner"][1]) if y.get("kind") in ("ForStmt", "WhileStmt")]
        if len(loops_in) == 1 and ".resize(" in text_of(TIDY, x["inner"][1]):
            ifs.append(x)
    fills = [[y for y in A.walk(x["inner"][1]) if y.get("kind") in ("ForStmt", "WhileStmt")][0] for x in ifs]
    if len(fills) != 3:
        raise Undecided("the three guarded resize-and-fill blocks of the per-solution defaults not found (%d)" % len(fills))
    seenv = set()
    for lp in fills:
        ifn = [x for x in ifs if any(y is lp for y in A.walk(x))]
        if len(ifn) != 1:
            raise Undecided("guard of a fill loop not found")
        ifn = ifn[0]
        # (1) one arbitrary iteration of the fill loop
        f, ex, its, info = U.run_loop_isolated(TIDY, TQ, ordinal(fn, lp), ctx=tctx())
        its = live(its, ("run", "cont"))
        j = tm.sym("iter_j", "I")
        vec = None
        for s in its:
            rec = invrec(ex, s)
            wr = real_writes(s) + [(ix, v) for ix, v in writes(s, ("m", "I")) if isinstance(ix, tuple) and len(ix) == 2] + [(ix, v) for ix, v in writes(s, ("m", "B")) if isinstance(ix, tuple) and len(ix) == 2]
            if not wr:
                # std::vector<bool>: the store goes through the bit proxy (an event on the address data + index)
                for e in U.iter_events(s):
                    if short(e) == "operator=" and e.recv is not None and e.recv.op == "+" and len(e.args) == 1:
                        wr.append(((e.recv.args[0], e.recv.args[1]), e.args[0]))
            if len(wr) != 1:
                r.add("fill.one_entry_per_iteration", FAILED, "symex", 0, repr(wr)[:200]); continue
            (base, idx), val = wr[0]
            nm = [n_ for n_ in ("uncertainties", "ph_uncertainties", "force_solns") if base is vd(ex, s, n_, rec, entry=True)]
            if len(nm) != 1:
                r.add("fill.writes_a_per-solution_list_of_inverse[i]", FAILED, "symex", 0, repr(base)[:200]); continue
            vec = nm[0]
            seenv.add(vec)
            r.add("%s.fill.entry_j_written" % vec, DISCHARGED if same(list(s.pc), idx, j) else FAILED, "symex", 0, repr(idx)[:100])
            vid = decl_id(ifn, "value")
            if vec == "force_solns":
                okv = val is tm.FALSE or (tm.isnum(val) and val.args[0] == 0)
                r.add("%s.fill.new_entries_are_false(not_forced)" % vec, DISCHARGED if okv else FAILED, "symex", 0, repr(val))
            else:
                want = s.locals.get(vid)
                r.add("%s.fill.new_entries_take_the_saved_value" % vec, DISCHARGED if vid is not None and val is want else FAILED, "symex", 0, repr(val)[:100])
        if vec is None:
            continue
        cid = decl_id(ifn, "count")
        loop_range(r, "%s.fill" % vec, ex, info, lp, its, "j",
                   type("S", (), {"__call__": lambda self, e: e.locals[cid], "__doc__": "the_old_length"})(),
                   type("Bd", (), {"__call__": lambda self, s: F(ex, s, "count_solns", "I", invrec(ex, s)), "__doc__": "count_solns"})())
        # (2) the guarded block from an arbitrary state (the fill loop havocked): what is saved before the list is resized
        f, ex, fin, info = region(TIDY, TQ, [ifn], tctx())
        seen = set()
        for s in live(fin):
            hy = list(s.pc)
            rec = invrec(ex, s, local(info, s, "i"))
            n0 = vs(ex, s, vec, rec, entry=True)
            ns = fld0(ex, s, "count_solns", "I", rec)
            rs = [e for e in s.events if short(e) == "vector.resize" or e.name == "vector.resize"]
            for h, shortl in cases(hy, tm.lt(n0, ns)):
                if not shortl:
                    seen.add("long_enough")
                    r.add("%s.long_enough_list_left_alone" % vec, DISCHARGED if not rs and not real_writes(s) else FAILED, "symex", 0, repr(rs)[:100], kind="frame")
                    continue
                seen.add("extended")
                okr = len(rs) == 1 and rs[0].recv is tm.app("fld:" + vec, (rec,), "P") and same(h, rs[0].args[1], ns)
                r.add("%s.extended_to_one_entry_per_solution" % vec, DISCHARGED if okr else FAILED, "trace", 0, repr([e.args for e in rs])[:200])
                cv = s.locals.get(cid)
                r.add("%s.fill_starts_at_the_old_length" % vec, DISCHARGED if cv is not None and not isinstance(cv, tuple) and same(h, cv, n0) else FAILED, "symex", 0, repr(cv)[:100])
                if vec != "force_solns":
                    vv = s.locals.get(decl_id(ifn, "value"))
                    R0 = entry_arr(ex, s, ("m", "R"))
                    lastv = tm.select(R0, vd(ex, s, vec, rec, entry=True), n0 - I1)
                    dflt = tm.num(Fraction(5, 100)) if not twin else tm.num(Fraction(5, 10))
                    for h2, some in cases(h, tm.lt(I0, n0)):
                        want = lastv if some else dflt
                        U.discharge_eq_real(r, "%s.saved_value==%s" % (vec, "last_value_given" if some else "0.05"), h2, vv, want)
        r.add("reach.%s" % vec, DISCHARGED if seen == {"long_enough", "extended"} else UNDECIDED, "symex", 0, repr(sorted(seen)), kind="vacuity")
    r.add("reach.three_lists", DISCHARGED if seenv == {"uncertainties", "ph_uncertainties", "force_solns"} else FAILED, "symex", 0, repr(sorted(seenv)))
    r.assumptions += ["std::vector model: resize keeps the entries below the old length; back() is the entry at length - 1",
                      "the three blocks are located by shape (guarded block of the per-model loop with a resize and one loop); their range and effect are semantic", "doubles as reals (0.05 exactly)"]
    return r


# ------------------------------------------------------------------------------------------------ element lists of -balances
def unit_element_uncertainties(twin=False):
    """-balances element: master = primary master species of the name (missing -> input error, nothing else); its uncertainty list gets one entry
    per solution: no list -> the per-solution defaults u(q); a short list -> its last value repeated; given entries are kept."""
    fn = A.find_function(TIDY, TQ)
    r = U.new_unit("C18.tidy_inverse.balances.element_uncertainties_per_solution_default_or_last_value", TIDY, TQ, fn)
    outer = [lp for lp in all_loops(fn) if "master_bsearch_primary(" in body_text(lp) and "i<count_inverse" not in hd(lp)[1]]
    if len(outer) != 1 or len(nested(outer[0])) != 2:
        raise Undecided("-balances element loop not found")
    ol = outer[0]
    f, ex, its, info = U.run_loop_isolated(TIDY, TQ, ordinal(fn, ol), ctx=tctx(), inner_modes={"*": "iter"})
    j = tm.sym("iter_j", "I")
    seen = set()
    def parts(s):
        rec = invrec(ex, s)
        el = at(vd(ex, s, "elts", rec, entry=True), j)
        return rec, el
    all_ents = [e for k_ in info["inner_entries"] for e in info["inner_entries"][k_] if B.z3_sat(list(e.pc)) != "unsat"]
    for s in live(its, ("run", "cont")):
        hy = list(s.pc)
        rec, el = parts(s)
        lk = [e for e in U.iter_events(s) if short(e) == "master_bsearch_primary"]
        okl = len(lk) == 1 and lk[0].args[0] is fld0(ex, s, "name", "P", el)
        r.add("element.looked_up_by_its_own_name", DISCHARGED if okl else FAILED, "trace", 0, repr([e.args for e in lk])[:200], kind="pairing")
        if not lk:
            continue
        through = [e for e in all_ents if len(e.pc) <= len(s.pc) and all(a is b for a, b in zip(e.pc, s.pc[:len(e.pc)]))]
        for st_ in (through or [s]):          # a fill loop havocs the heap: read the store in the state in which the loop is reached
            wm = writes(st_, ("f", "master", "P"))
            okm = len(wm) == 1 and (wm[0][0] == (el,) or wm[0][0] is el) and wm[0][1] is lk[0].result
            r.add("element.master_is_the_primary_master_species_found", DISCHARGED if okm else FAILED, "symex", 0, repr(wm)[:200])
        rs = [e for e in U.iter_events(s) if e.name == "vector.resize"]
        for h, found in cases(hy, tm.not_(tm.eq(lk[0].result, tm.NULL))):
            if not found:
                seen.add("unknown_element")
                ie = writes(s, ("f", "input_error", "I"))
                r.add("unknown_element.is_an_input_error_and_nothing_else", DISCHARGED if len(ie) == 1 and not rs and s.status == "cont" else FAILED, "symex", 0, repr(ie)[:100])
                continue
            seen.add("found")
            ns = fld0(ex, s, "count_solns", "I", rec)
            okr = len(rs) == 1 and rs[0].recv is tm.app("fld:uncertainties", (el,), "P") and same(h, rs[0].args[1], ns)
            r.add("element.list_resized_to_one_entry_per_solution", DISCHARGED if okr else FAILED, "trace", 0, repr([e.args for e in rs])[:200])
    r.add("reach.element", DISCHARGED if seen == {"unknown_element", "found"} else UNDECIDED, "symex", 0, repr(sorted(seen)), kind="vacuity")
    # the two fill loops, in the context in which they are reached
    seen = set()
    for lp in nested(ol):
        k = ordinal(fn, lp)
        ents = [e for e in info["inner_entries"].get(k, []) if B.z3_sat(list(e.pc)) != "unsat"]
        iters = live(info["inner_iters"].get(k, []), ("run", "cont"))
        if not ents or not iters:
            r.add("fill.reached", UNDECIDED, "symex", 0, "loop %d" % k); continue
        for s in iters:
            hy = list(s.pc)
            rec, el = parts(s)
            n0 = vs(ex, s, "uncertainties", el, entry=True)         # length of the list as given (before the resize)
            ent = [e for e in ents if len(e.pc) < len(s.pc) and all(a is b for a, b in zip(e.pc, s.pc[:len(e.pc)]))]
            if not ent:
                continue
            ent = max(ent, key=lambda e: len(e.pc))
            n_given = None
            for ev in ent.events[::-1]:
                if ev.name == "vector.resize":
                    n_given = ev.args[0]; break
            if n_given is None:
                r.add("fill.follows_the_resize", FAILED, "trace", 0, ""); continue
            wr = real_writes(s)
            if len(wr) != 1 or wr[0][0][0] is not vd(ex, s, "uncertainties", el, entry=True):
                r.add("fill.writes_one_entry_of_the_element's_own_list", FAILED, "symex", 0, repr(wr)[:200]); continue
            idx, val = wr[0][0][1], wr[0][1]
            ns = fld0(ex, s, "count_solns", "I", rec)
            cond = s.pc[len(ent.pc)]
            R0 = ex.heap_arr(ent, ("m", "R"))
            for h, none in cases(hy, tm.eq(n_given, I0)):
                if none:
                    seen.add("no_list")
                    want = tm.select(ex.heap_arr(s, ("m", "R")), vd(ex, s, "uncertainties", rec), idx)
                    if twin:
                        want = tm.select(ex.heap_arr(s, ("m", "R")), vd(ex, s, "ph_uncertainties", rec), idx)
                    r.add("no_list.entry_q==default_uncertainty_of_solution_q", DISCHARGED if val is want or same(h, val, want) else FAILED, "symex", 0, repr(val)[:200])
                    v0 = start_value(ex, info, lp, ent, hd(lp)[0].split("=")[0].replace("size_t", "").replace("int", ""))
                    r.add("no_list.every_solution_filled(0..count_solns-1)", DISCHARGED if proves(list(ent.pc) + [tm.le(I0, idx), tm.lt(idx, ns)], cond) and proves(list(ent.pc) + [cond], tm.lt(idx, ns)) and v0 is not None and proves(list(ent.pc), tm.eq(v0, I0)) else FAILED, "z3", 0, repr(cond)[:200])
                else:
                    seen.add("short_list")
                    want = tm.select(R0, vd(ex, ent, "uncertainties", el), n_given - I1)
                    r.add("short_list.missing_entries==last_value_given", DISCHARGED if val is want or same(h, val, want) else FAILED, "symex", 0, repr(val)[:200])
                    U.discharge_valid(r, "short_list.only_when_shorter_than_the_number_of_solutions", h, tm.lt(n_given, ns))
                    var = hd(lp)[0].split("=")[0].replace("size_t", "").replace("int", "")
                    v0 = start_value(ex, info, lp, ent, var)
                    r.add("short_list.filled_from_the_old_length_to_count_solns-1(given_entries_kept)", DISCHARGED if proves(list(ent.pc) + [tm.lt(idx, ns)], cond) and proves(list(ent.pc) + [cond], tm.lt(idx, ns)) and v0 is not None and proves(list(ent.pc), tm.eq(v0, n_given)) else FAILED, "z3", 0, "cond %r start %r" % (cond, v0))
    r.add("reach.fills", DISCHARGED if seen == {"no_list", "short_list"} else UNDECIDED, "symex", 0, repr(sorted(seen)), kind="vacuity")
    r.assumptions += ["master_bsearch_primary is functional", "std::vector model (resize keeps entries below the old length)",
                      "a list longer than the number of solutions is cut by the resize (extra values ignored)", "doubles as reals"]
    return r


# ------------------------------------------------------------------------------------------------ unknowns of the model
def unit_unknowns(twin=False):
    """Which master species become unknowns (rows / epsilon columns) of the model:
       marking   : every master species unmarked, then marked: the master of every element of the phases' formulas (elt_list), of every -balances
                   element, e- and alkalinity;
       redox     : a marked primary master species that is followed by secondary ones is unmarked and each of its valence states is marked instead;
                   count_redox_rxns counts exactly the marked valence states whose species is itself secondary (s->primary == NULL): one redox column each;
       list      : the new element list holds every marked master species except H+ and H2O, in database order, each with the per-solution defaults;
       carbon    : pH / dAlk unknowns are requested exactly when C(4) is marked."""
    fn = A.find_function(TIDY, TQ)
    r = U.new_unit("C18.tidy_inverse.unknowns.marked_master_species_redox_states_and_redox_reaction_count", TIDY, TQ, fn)
    L = all_loops(fn)
    # --- marking loops: located by what they write (master->in)
    marks = []
    for lp in L:
        if nested(lp) or lp is L[0]:
            continue
        t = body_text(lp)
        if "->in=" in t and "if(" not in t:
            marks.append(lp)
    if len(marks) != 3:
        raise Undecided("marking loops not found (%d)" % len(marks))
    kinds = set()
    for lp in marks:
        f, ex, its, info = U.run_loop_isolated(TIDY, TQ, ordinal(fn, lp), ctx=tctx())
        j = tm.sym("iter_j", "I")
        for s in live(its, ("run", "cont")):
            w = writes(s, ("f", "in", "I"))
            if len(w) != 1:
                r.add("mark.one_master_per_iteration", FAILED, "symex", 0, repr(w)[:200]); continue
            tgt = w[0][0][0] if isinstance(w[0][0], tuple) else w[0][0]
            val = w[0][1]
            mj = tm.select(ex.heap_arr(s, ("m", "P")), vd(ex, s, "master", THIS), j)
            rec = invrec(ex, s)
            ej = F(ex, s, "master", "P", at(vd(ex, s, "elts", rec), j))
            lj = F(ex, s, "master", "P", F(ex, s, "elt", "P", at(vd(ex, s, "elt_list", THIS), j)))
            if tgt is mj:
                kinds.add("clear")
                r.add("mark.every_master_species_unmarked_first", DISCHARGED if tm.isnum(val) and val.args[0] == 0 else FAILED, "symex", 0, repr(val))
                loop_range(r, "mark.clear", ex, info, lp, live(its, ("run", "cont")), "j", type("S", (), {"__call__": lambda self, e: I0, "__doc__": "0"})(),
                           type("Bd", (), {"__call__": lambda self, s_: vs(ex, s_, "master", THIS), "__doc__": "master.size()"})())
            elif tgt is ej:
                kinds.add("balances")
                r.add("mark.master_of_every_-balances_element_marked", DISCHARGED if tm.isnum(val) and val.args[0] == 1 else FAILED, "symex", 0, repr(val))
                loop_range(r, "mark.balances", ex, info, lp, live(its, ("run", "cont")), "j", type("S", (), {"__call__": lambda self, e: I0, "__doc__": "0"})(),
                           type("Bd", (), {"__call__": lambda self, s_: vs(ex, s_, "elts", invrec(ex, s_)), "__doc__": "elts.size()"})())
            elif tgt is lj:
                kinds.add("phases")
                r.add("mark.master_of_every_element_of_the_phases_marked", DISCHARGED if tm.isnum(val) and val.args[0] == 1 else FAILED, "symex", 0, repr(val))
                loop_range(r, "mark.phases", ex, info, lp, live(its, ("run", "cont")), "j", type("S", (), {"__call__": lambda self, e: I0, "__doc__": "0"})(),
                           type("Bd", (), {"__call__": lambda self, s_: F(ex, s_, "count_elts"), "__doc__": "count_elts"})())
            else:
                r.add("mark.target_is_a_master_species_of_the_model", FAILED, "symex", 0, repr(tgt)[:200])
    r.add("reach.marking", DISCHARGED if kinds == {"clear", "balances", "phases"} else FAILED, "symex", 0, repr(sorted(kinds)))
    order = [ordinal(fn, lp) for lp in marks]
    # --- the phases' formulas are accumulated into elt_list: add_elt_list(phase->next_elt, 1.0) for every phase found
    pl = [lp for lp in L if "phase_bsearch(" in body_text(lp) and lp is not L[0]]
    if len(pl) != 1:
        raise Undecided("phase loop not found")
    f, ex, its, info = U.run_loop_isolated(TIDY, TQ, ordinal(fn, pl[0]), ctx=tctx())
    j = tm.sym("iter_j", "I")
    seen = set()
    for s in live(its, ("run", "cont")):
        hy = list(s.pc)
        rec = invrec(ex, s)
        ph = at(vd(ex, s, "phases", rec, entry=True), j)
        lk = [e for e in U.iter_events(s) if short(e) == "phase_bsearch"]
        if len(lk) != 1 or lk[0].args[0] is not fld0(ex, s, "name", "P", ph):
            r.add("phase.looked_up_by_its_own_name", FAILED, "trace", 0, repr([e.args for e in lk])[:200]); continue
        ad = [e for e in U.iter_events(s) if short(e) == "add_elt_list"]
        for h, found in cases(hy, tm.not_(tm.eq(lk[0].result, tm.NULL))):
            if not found:
                seen.add("unknown_phase")
                r.add("unknown_phase.is_an_input_error_and_adds_no_element", DISCHARGED if not ad and len(writes(s, ("f", "input_error", "I"))) >= 1 else FAILED, "trace", 0, "")
            else:
                seen.add("phase")
                pp = F(ex, s, "phase", "P", ph)
                a0 = ad[0].args[0] if ad else None
                Y = a0.args[1] if (a0 is not None and a0.op == "app" and a0.args[0] == "fld:next_elt") else None
                okY = Y is not None and (Y is lk[0].result or (Y.op == "select" and ".phase:P" in repr(Y.args[0])[:40] and "fld:phases(" in repr(Y) and "iter_j" in repr(Y)))
                oka = len(ad) == 1 and same(h, ad[0].args[1], tm.num(1)) and okY
                wp = writes(s, ("f", "phase", "P"))
                if wp:      # (hidden when the isotope loop havocs the heap)
                    r.add("phase.pointer_of_the_phase_found_is_stored_in_the_entry", DISCHARGED if len(wp) == 1 and (wp[0][0] == (ph,) or wp[0][0] is ph) and wp[0][1] is lk[0].result else FAILED, "symex", 0, repr(wp)[:200])
                    seen.add("stored")
                r.add("phase.every_element_of_its_formula_collected_once(add_elt_list(next_elt,1))", DISCHARGED if oka else FAILED, "trace", 0, repr([e.args for e in ad])[:300])
    r.add("reach.phases", DISCHARGED if seen == {"unknown_phase", "phase", "stored"} else UNDECIDED, "symex", 0, repr(sorted(seen)), kind="vacuity")
    # --- e- and alkalinity, count_elts reset, carbon
    body0 = [x for x in A.walk(L[0]["inner"][-1])]
    txt = [text_of(TIDY, x).rstrip(";") for x in L[0]["inner"][-1].get("inner", [])]
    r.add("mark.electron_always_an_unknown(s_eminus->primary->in=TRUE)", DISCHARGED if "s_eminus->primary->in=TRUE" in txt else FAILED, "syntactic", 0, "", kind="structural")
    r.add("collect.element_list_emptied_before_the_phases(count_elts=0)", DISCHARGED if "count_elts=0" in txt and txt.index("count_elts=0") < [k for k, x in enumerate(L[0]["inner"][-1]["inner"]) if x is pl[0]][0] else FAILED, "syntactic", 0, "", kind="establishment")
    r.add("collect.elements_combined_before_marking(elt_list_combine)", DISCHARGED if "elt_list_combine()" in txt else FAILED, "syntactic", 0, "", kind="structural")
    stm = L[0]["inner"][-1]["inner"]
    cif = [x for x in stm if x.get("kind") == "IfStmt" and ".carbon=TRUE" in text_of(TIDY, x["inner"][1])]
    aif = [x for x in stm if x.get("kind") == "IfStmt" and "->in=TRUE" in text_of(TIDY, x["inner"][1]) and "Alkalinity" in text_of(TIDY, x)]
    if len(cif) != 1 or len(aif) != 1:
        raise Undecided("carbon / alkalinity statements not found (%d, %d)" % (len(cif), len(aif)))
    f, ex, fin, info = region(TIDY, TQ, cif, tctx())
    seen = set()
    for s in live(fin):
        rec = invrec(ex, s, local(info, s, "i"))
        c4 = fld0(ex, s, "in", "I", fld0(ex, s, "secondary", "P", fld0(ex, s, "s_co3", "P")))
        for h, on in cases(list(s.pc), tm.eq(c4, I1)):
            seen.add(on)
            want = I1 if on else I0
            if twin:
                want = I1
            U.discharge_valid(r, "carbon.pH_unknowns_requested_exactly_when_C(4)_is_marked[%s]" % ("marked" if on else "not_marked"), h, tm.eq(F(ex, s, "carbon", "I", rec), want))
    r.add("reach.carbon", DISCHARGED if seen == {True, False} else UNDECIDED, "symex", 0, repr(seen), kind="vacuity")
    f, ex, fin, info = region(TIDY, TQ, aif, tctx())
    for s in live(fin):
        ma = local(info, s, "master_alk_ptr")
        for h, have in cases(list(s.pc), tm.not_(tm.eq(ma, tm.NULL))):
            if have:
                U.discharge_valid(r, "mark.alkalinity_always_an_unknown", h, tm.eq(F(ex, s, "in", "I", ma), I1))
            else:
                r.add("mark.missing_alkalinity_is_an_input_error", DISCHARGED if writes(s, ("f", "input_error", "I")) else FAILED, "symex", 0, "")
    # --- redox switch
    rl = [lp for lp in L if "count_redox_rxns++" in body_text(lp) and len(nested(lp)) == 1]
    if len(rl) != 1:
        raise Undecided("redox marking loop not found (%d)" % len(rl))
    ol, il = rl[0], nested(rl[0])[0]
    ko, ki = ordinal(fn, ol), ordinal(fn, il)
    f, ex, its, info = U.run_loop_isolated(TIDY, TQ, ko, ctx=tctx(), inner_modes={ki: "iter"})
    j = tm.sym("iter_j", "I")
    M = lambda s, ix: tm.select(entry_arr(ex, s, ("m", "P")), vd(ex, s, "master", THIS, entry=True), ix)
    cin0 = tm.sym("iter_count_in", "I")
    seen = set()
    ents = [e for e in info["inner_entries"].get(ki, []) if B.z3_sat(list(e.pc)) != "unsat"]
    for s in live(its, ("run", "cont")):
        hy = list(s.pc)
        mj, mn = M(s, j), M(s, j + I1)
        prim = lambda m: tm.not_(tm.eq(fld0(ex, s, "primary", "I", m), I0))
        marked = tm.not_(tm.eq(fld0(ex, s, "in", "I", mj), I0))
        last = tm.eq(j + I1, vs(ex, s, "master", THIS, entry=True))
        conds = [("counted", tm.and_(prim(mj), marked)), ("last", last), ("redox", tm.eq(fld0(ex, s, "primary", "I", mn), I0))]
        reached_inner = any(len(e.pc) <= len(s.pc) and all(a is b for a, b in zip(e.pc, s.pc[:len(e.pc)])) for e in ents)
        for case, h in spec_cases(hy, conds):
            sw = case["counted"] and not case["last"] and case["redox"]
            if not sw:
                tag = "plain_element" if case["counted"] else "skipped"
                seen.add(tag)
                r.add("redox.%s:no_switch" % tag, DISCHARGED if not reached_inner and not writes(s, ("f", "in", "I")) and not writes(s, ("f", "count_redox_rxns", "I")) else FAILED, "symex", 0, "", kind="frame")
                U.discharge_valid(r, "redox.%s:count_in%s" % (tag, "+=1" if case["counted"] else "_unchanged"), h, tm.eq(local(info, s, "count_in"), cin0 + (I1 if case["counted"] else I0)))
            else:
                seen.add("switch")
                r.add("redox.switch:valence_states_scanned", DISCHARGED if reached_inner else FAILED, "symex", 0, "")
    for e in ents:
        hy = list(e.pc)
        w = writes(e, ("f", "in", "I"))
        jv = e.locals[info["names"]["j"]]
        mjv = M(e, jv)
        okw = len(w) == 1 and (w[0][0] == (mjv,) or w[0][0] is mjv) and tm.isnum(w[0][1]) and w[0][1].args[0] == 0
        r.add("redox.switch:the_element_itself_is_unmarked", DISCHARGED if okw else FAILED, "symex", 0, repr(w)[:200])
        U.discharge_valid(r, "redox.switch:count_in_back_to_its_value_before_the_element", hy, tm.eq(e.locals[info["names"]["count_in"]], cin0))
    kk = None
    for s in live(info["inner_iters"].get(ki, []), ("run", "cont", "brk")):
        hy = list(s.pc)
        ent = [e for e in ents if len(e.pc) < len(s.pc) and all(a is b for a, b in zip(e.pc, s.pc[:len(e.pc)]))]
        if not ent:
            continue
        ent = max(ent, key=lambda e: len(e.pc))
        cond = s.pc[len(ent.pc)]
        # the scan index lives in memory (its address is taken elsewhere in the function): read it from the loop condition
        kterms = [t for t in tm.subterms(cond) if t.op == "select" and "&L_k" in repr(t) and t.sort == "I"] + [t for t in tm.subterms(cond) if t.op == "sym" and str(t.args[0]) == "iter_k"]
        if not kterms:
            r.add("redox.scan.index_found", UNDECIDED, "symex", 0, repr(cond)[:200]); continue
        kk = kterms[0]
        mk = M(s, kk)
        sec = tm.eq(F(ex, s, "primary", "I", mk), I0)
        r.add("redox.scan.runs_to_the_end_of_the_master_list", DISCHARGED if proves(hy[:len(ent.pc)] + [tm.lt(kk, vs(ex, s, "master", THIS))], cond) and proves(hy[:len(ent.pc)] + [cond], tm.lt(kk, vs(ex, s, "master", THIS))) else FAILED, "z3", 0, repr(cond)[:200])
        wi = writes(s, ("f", "in", "I")); wr = writes(s, ("f", "count_redox_rxns", "I"))
        c_in0 = tm.sym("iter_count_in", "I")
        for case, h in spec_cases(hy, [("secondary", sec), ("redox_species", tm.eq(F(ex, s, "primary", "P", F(ex, s, "s", "P", mk)), tm.NULL))]):
            if not case["secondary"]:
                seen.add("scan_stop")
                r.add("redox.scan.stops_at_the_next_primary_master_species", DISCHARGED if s.status == "brk" and not wi and not wr else FAILED, "symex", 0, s.status)
                continue
            seen.add("valence_state" + ("_redox" if case["redox_species"] else ""))
            okm = len(wi) == 1 and (wi[0][0] == (mk,) or wi[0][0] is mk) and tm.isnum(wi[0][1]) and wi[0][1].args[0] == 1
            r.add("redox.scan.valence_state_marked", DISCHARGED if okm else FAILED, "symex", 0, repr(wi)[:200])
            U.discharge_valid(r, "redox.scan.valence_state_counted(count_in+=1)", h, tm.eq(local(info, s, "count_in"), c_in0 + I1))
            rec = invrec(ex, s)
            if case["redox_species"] != twin:
                okc = len(wr) == 1 and (wr[0][0] == (rec,) or wr[0][0] is rec) and same(h, wr[0][1], tm.select(entry_arr(ex, s, ("f", "count_redox_rxns", "I")), rec) + I1)
                r.add("redox.scan.secondary_species=>one_more_redox_reaction", DISCHARGED if okc else FAILED, "symex", 0, repr(wr)[:200])
            else:
                r.add("redox.scan.state_that_is_the_primary_species_adds_no_redox_reaction", DISCHARGED if not wr else FAILED, "symex", 0, repr(wr)[:200], kind="frame")
    if ents:
        v0 = None
        try:
            for s0 in ex.exec(il["inner"][0], [ents[0].clone()]):
                for t in [ents[0].locals[info["names"]["j"]] + I1]:
                    kv = s0.locals.get(info["names"]["k"])
                    if isinstance(kv, tuple):
                        kv = tm.select(ex.heap_arr(s0, ("m", "I")), kv[1], I0) if kv[0] == "obj" else None
                    v0 = kv
        except Exception:
            v0 = None
        r.add("redox.scan.starts_right_after_the_element(k=j+1)", DISCHARGED if v0 is not None and proves(list(ents[0].pc), tm.eq(v0, ents[0].locals[info["names"]["j"]] + I1)) else FAILED, "z3", 0, repr(v0)[:200])
    a1 = initial_value_before(fn, TIDY, ol, "count_in")
    r.add("redox.count_in=0_before_the_loop", DISCHARGED if a1 is not None and a1[0] == "=" and a1[1] == "0" else FAILED, "syntactic", 0, repr(a1), kind="establishment")
    st = [text_of(TIDY, x).rstrip(";") for x in L[0]["inner"][-1]["inner"]]
    r.add("redox.count_redox_rxns=0_before_the_loop", DISCHARGED if "inverse[i].count_redox_rxns=0" in st and st.index("inverse[i].count_redox_rxns=0") < [k for k, x in enumerate(L[0]["inner"][-1]["inner"]) if x is ol][0] else FAILED, "syntactic", 0, "", kind="establishment")
    need = {"plain_element", "skipped", "switch", "scan_stop", "valence_state", "valence_state_redox"}
    r.add("reach.redox", DISCHARGED if need <= seen else UNDECIDED, "symex", 0, repr(sorted(seen)), kind="vacuity")
    # --- the new element list
    sl = [lp for lp in L if "inv_elts[count_in].master=" in body_text(lp) and len(nested(lp)) == 1]
    if len(sl) != 1:
        raise Undecided("loop that saves the element list not found")
    ol, il = sl[0], nested(sl[0])[0]
    f, ex, its, info = U.run_loop_isolated(TIDY, TQ, ordinal(fn, ol), ctx=tctx(), inner_modes={ordinal(fn, il): "iter"})
    seen = set()
    IE = tm.sym("&L_inv_elts", "P")
    for s in live(its, ("run", "cont")):
        hy = list(s.pc)
        mj = M(s, j)
        sp = fld0(ex, s, "s", "P", mj)
        water = tm.or_(tm.eq(sp, fld0(ex, s, "s_hplus", "P")), tm.eq(sp, fld0(ex, s, "s_h2o", "P")))
        conds = [("water", water), ("marked", tm.eq(fld0(ex, s, "in", "I", mj), I1))]
        wm = writes(s, ("f", "master", "P"))
        for case, h in spec_cases(hy, conds):
            keep = case["marked"] and not case["water"]
            if twin:
                keep = case["marked"]
            if not keep:
                seen.add("left_out")
                r.add("list.%s_is_no_unknown" % ("H+_/_H2O" if case["water"] else "unmarked_master_species"), DISCHARGED if not wm and proves(h, tm.eq(local(info, s, "count_in"), cin0)) else FAILED, "symex", 0, repr(wm)[:200], kind="frame")
            else:
                seen.add("kept")
                es = [e for e in info["inner_entries"].get(ordinal(fn, il), []) if len(e.pc) <= len(s.pc) and all(a is b for a, b in zip(e.pc, s.pc[:len(e.pc)]))]
                st_ = es[-1] if es else s         # the fill loop havocs the heap: the store is read where that loop is reached
                wm = writes(st_, ("f", "master", "P"))
                slot = at(tm.select(entry_arr(ex, s, ("f", "#vdata", "P")), IE), cin0)
                okw = len(wm) == 1 and same(h, (wm[0][0][0] if isinstance(wm[0][0], tuple) else wm[0][0]), slot) and wm[0][1] is mj
                r.add("list.marked_master_species_appended_at_the_next_slot", DISCHARGED if okw else FAILED, "symex", 0, repr(wm)[:300])
                U.discharge_valid(r, "list.next_slot_advances_by_one", h, tm.eq(local(info, s, "count_in"), cin0 + I1))
    for s in live(info["inner_iters"].get(ordinal(fn, il), []), ("run", "cont")):
        wr = real_writes(s)
        rec = invrec(ex, s)
        ok = False
        if len(wr) == 1:
            idx, val = wr[0][0][1], wr[0][1]
            ok = val is tm.select(ex.heap_arr(s, ("m", "R")), vd(ex, s, "uncertainties", rec), idx) or same(list(s.pc), val, tm.select(ex.heap_arr(s, ("m", "R")), vd(ex, s, "uncertainties", rec), idx))
        seen.add("defaults")
        r.add("list.every_unknown_starts_with_the_per-solution_default_uncertainties", DISCHARGED if ok else FAILED, "symex", 0, repr(wr)[:300])
    a2 = initial_value_before(fn, TIDY, ol, "count_in")
    r.add("list.next_slot_starts_at_0", DISCHARGED if a2 is not None and a2[0] == "=" and a2[1] == "0" else FAILED, "syntactic", 0, repr(a2), kind="establishment")
    r.add("reach.list", DISCHARGED if seen == {"left_out", "kept", "defaults"} else UNDECIDED, "symex", 0, repr(sorted(seen)), kind="vacuity")
    r.assumptions += ["master species are sorted so that the valence states of an element follow it directly (database order, tidy_species)",
                      "add_elt_list / elt_list_combine are opaque; phase_bsearch, master_bsearch* are functional",
                      "setup_inverse gives one redox column to every element of the list whose species is secondary (unit C18.setup_inverse.redox_columns...): the same test as count_redox_rxns",
                      "single statements (e- mark, count_elts = 0, elt_list_combine, count_redox_rxns = 0) are text anchors: which statement exists"]
    return r


# ------------------------------------------------------------------------------------------------ copy of the declared uncertainties
def unit_copy_uncertainties(twin=False):
    """The declared list of a -balances name is copied into the unknowns it speaks about, entry q to entry q for every solution:
       a redox ELEMENT (primary master species with valence states)  -> EVERY unknown that is a valence state of it,
       any other name (valence state or non-redox element)           -> the one unknown that is that master species,
    and into no other unknown."""
    fn = A.find_function(TIDY, TQ)
    r = U.new_unit("C18.tidy_inverse.balances.declared_uncertainties_reach_exactly_the_unknowns_they_name", TIDY, TQ, fn)
    L = all_loops(fn)
    cl = [lp for lp in L if "master_bsearch(inverse[i].elts[j].name)" in body_text(lp) and lp is not L[0] and len(nested(lp)) == 2]
    if len(cl) != 2:
        raise Undecided("the two copy loops not found (%d)" % len(cl))
    IE = tm.sym("&L_inv_elts", "P")
    kinds = set()
    for lp in cl:
        kl = [x for x in nested(lp) if nested(x)][0]
        ll = nested(kl)[0]
        f, ex, its, info = U.run_loop_isolated(TIDY, TQ, ordinal(fn, lp), ctx=tctx(), inner_modes={ordinal(fn, kl): "iter", ordinal(fn, ll): "iter"})
        j = tm.sym("iter_j", "I")
        # outer: which names take part
        which = None
        kents = [e for e in info["inner_entries"].get(ordinal(fn, kl), []) if B.z3_sat(list(e.pc)) != "unsat"]
        for s in live(its, ("run", "cont")):
            hy = list(s.pc)
            rec = invrec(ex, s)
            el = at(vd(ex, s, "elts", rec, entry=True), j)
            lk = [e for e in U.iter_events(s) if short(e) == "master_bsearch"]
            if len(lk) != 1 or lk[0].args[0] is not fld0(ex, s, "name", "P", el):
                r.add("copy.name_looked_up", FAILED, "trace", 0, repr([e.args for e in lk])[:200]); continue
            mp = lk[0].result
            redox_elt = tm.and_(tm.not_(tm.eq(fld0(ex, s, "primary", "I", mp), I0)), tm.not_(tm.eq(fld0(ex, s, "secondary", "P", fld0(ex, s, "s", "P", mp)), tm.NULL)))
            scanned = any(len(e.pc) <= len(s.pc) and all(a is b for a, b in zip(e.pc, s.pc[:len(e.pc)])) for e in kents)
            for case, h in spec_cases(hy, [("found", tm.not_(tm.eq(mp, tm.NULL))), ("redox_element", redox_elt)]):
                if not case["found"]:
                    r.add("copy.unknown_name_is_an_input_error", DISCHARGED if writes(s, ("f", "input_error", "I")) and not scanned else FAILED, "symex", 0, ""); continue
                if which is None and scanned:
                    which = "redox_element" if case["redox_element"] else "other"
                    if proves(h, redox_elt):
                        which = "redox_element"
                    elif proves(h, tm.not_(redox_elt)):
                        which = "other"
            # classify the loop by the names it handles: every scanning path must decide the split the same way
        dec = set()
        for s in live(its, ("run", "cont")):
            lk = [e for e in U.iter_events(s) if short(e) == "master_bsearch"]
            if not lk:
                continue
            mp = lk[0].result
            redox_elt = tm.and_(tm.not_(tm.eq(fld0(ex, s, "primary", "I", mp), I0)), tm.not_(tm.eq(fld0(ex, s, "secondary", "P", fld0(ex, s, "s", "P", mp)), tm.NULL)))
            scanned = any(len(e.pc) <= len(s.pc) and all(a is b for a, b in zip(e.pc, s.pc[:len(e.pc)])) for e in kents)
            pf = fld0(ex, s, "primary", "I", mp)
            hy = list(s.pc) + [tm.or_(tm.eq(pf, I0), tm.eq(pf, I1))]        # master::primary is a TRUE / FALSE flag
            if proves(hy, tm.eq(mp, tm.NULL)):
                continue
            if scanned:
                dec.add("redox_element" if proves(hy, redox_elt) else ("other" if proves(hy, tm.not_(redox_elt)) else "undecided"))
            else:
                dec.add("skip:" + ("redox_element" if proves(hy, redox_elt) else ("other" if proves(hy, tm.not_(redox_elt)) else "undecided")))
        kind = None
        if dec == {"redox_element", "skip:other"}:
            kind = "redox_element"
        elif dec == {"other", "skip:redox_element"}:
            kind = "other"
        r.add("copy.loop_handles_either_the_redox_elements_or_all_other_names", DISCHARGED if kind else FAILED, "symex", 0, repr(sorted(dec)))
        if not kind:
            continue
        kinds.add(kind)
        # k loop: which unknowns receive the list
        kits = live(info["inner_iters"].get(ordinal(fn, kl), []), ("run", "cont", "brk"))
        lents = [e for e in info["inner_entries"].get(ordinal(fn, ll), []) if B.z3_sat(list(e.pc)) != "unsat"]
        seen = set()
        for s in kits:
            hy = list(s.pc)
            ent = [e for e in kents if len(e.pc) < len(s.pc) and all(a is b for a, b in zip(e.pc, s.pc[:len(e.pc)]))]
            if not ent:
                continue
            ent = max(ent, key=lambda e: len(e.pc))
            cond = s.pc[len(ent.pc)]
            cin = ent.locals[info["names"]["count_in"]]
            if not (cond.op == "<" and cond.args[1] is cin):
                r.add("copy[%s].scans_every_unknown(k<count_in)" % kind, FAILED, "z3", 0, repr(cond)[:200]); continue
            kk = cond.args[0]
            r.add("copy[%s].scans_every_unknown(k<count_in)" % kind, DISCHARGED if proves(list(ent.pc) + [tm.lt(kk, cin)], cond) and proves(list(ent.pc) + [cond], tm.lt(kk, cin)) else FAILED, "z3", 0, repr(cond)[:200])
            unk = at(tm.select(entry_arr(ex, s, ("f", "#vdata", "P")), IE), kk)
            um = fld0(ex, s, "master", "P", unk)
            mp = s.locals.get(info["names"]["master_ptr"])
            if kind == "redox_element":
                target = tm.eq(mp, fld0(ex, s, "primary", "P", fld0(ex, s, "elt", "P", um)))
            else:
                target = tm.eq(mp, um)
            copied = any(len(e.pc) <= len(s.pc) and all(a is b for a, b in zip(e.pc, s.pc[:len(e.pc)])) and len(e.pc) > len(ent.pc) for e in lents)
            for h, hit in cases(hy, target):
                seen.add(hit)
                if hit:
                    r.add("copy[%s].unknown_named_by_the_declaration_receives_the_list" % kind, DISCHARGED if copied else FAILED, "symex", 0, s.status)
                    if kind == "redox_element":
                        stops = s.status == "brk"
                        if twin:
                            stops = not stops
                        r.add("copy[redox_element].scan_goes_on_to_the_other_valence_states", DISCHARGED if not stops else FAILED, "symex", 0, s.status)
                else:
                    r.add("copy[%s].other_unknowns_untouched" % kind, DISCHARGED if not copied and not real_writes(s) and s.status != "brk" else FAILED, "symex", 0, s.status, kind="frame")
        r.add("reach.copy[%s]" % kind, DISCHARGED if seen == {True, False} else UNDECIDED, "symex", 0, repr(seen), kind="vacuity")
        # l loop: entry q to entry q
        n = 0
        for s in live(info["inner_iters"].get(ordinal(fn, ll), []), ("run", "cont")):
            ent = [e for e in lents if len(e.pc) < len(s.pc) and all(a is b for a, b in zip(e.pc, s.pc[:len(e.pc)]))]
            if not ent:
                continue
            ent = max(ent, key=lambda e: len(e.pc))
            n += 1
            hy = list(s.pc)
            cond = s.pc[len(ent.pc)]
            wr = real_writes(s)
            if len(wr) != 1:
                r.add("copy[%s].one_entry_per_solution" % kind, FAILED, "symex", 0, repr(wr)[:200]); continue
            (base, idx), val = wr[0]
            rec = invrec(ex, s)
            jj = s.locals.get(info["names"]["j"])
            el = at(vd(ex, s, "elts", rec), jj)
            cin = s.locals.get(info["names"]["count_in"])
            kcands = [p_.args[0] for p_ in s.pc if p_.op == "<" and p_.args[1] is cin]       # the scan index: the k-loop's condition k < count_in
            okb = bool(kcands) and base is vd(ex, s, "uncertainties", at(tm.select(ex.heap_arr(s, ("f", "#vdata", "P")), IE), kcands[-1]))
            r.add("copy[%s].into_the_list_of_the_unknown_scanned" % kind, DISCHARGED if okb else FAILED, "symex", 0, repr(base)[:200])
            want = tm.select(ex.heap_arr(s, ("m", "R")), vd(ex, s, "uncertainties", el), idx)
            r.add("copy[%s].entry_q_of_the_declared_list_to_entry_q" % kind, DISCHARGED if val is want or same(hy, val, want) else FAILED, "symex", 0, repr(val)[:200])
            ns = F(ex, s, "count_solns", "I", rec)
            r.add("copy[%s].every_solution(l<count_solns)" % kind, DISCHARGED if proves(list(ent.pc) + [tm.lt(idx, ns)], cond) and proves(list(ent.pc) + [cond], tm.lt(idx, ns)) else FAILED, "z3", 0, repr(cond)[:200])
            v0 = start_value(ex, info, ll, ent, "l")
            r.add("copy[%s].from_the_first_solution(l=0)" % kind, DISCHARGED if v0 is not None and proves(list(ent.pc), tm.eq(v0, I0)) else FAILED, "z3", 0, repr(v0))
        r.add("reach.copy_entries[%s]" % kind, DISCHARGED if n else UNDECIDED, "symex", 0, "%d" % n, kind="vacuity")
    r.add("copy.both_kinds_of_names_handled", DISCHARGED if kinds == {"redox_element", "other"} else FAILED, "symex", 0, repr(sorted(kinds)))
    r.assumptions += ["master_bsearch is functional", "the two copy loops are located by the look-up they make (master_bsearch(inverse[i].elts[j].name)) - text anchor; what they do is semantic",
                      "the redox-element copy runs before the valence-state copy so that a valence-state declaration overrides the element-level one (order not checked)"]
    return r


# ------------------------------------------------------------------------------------------------ read_inverse: option -> member
READ = "src/phreeqcpp/read.cpp"
RQ = "Phreeqc::read_inverse"
OPT_MEMBERS = {"range": "I", "range_max": "R", "tolerance": "R", "minimal": "I", "water_uncertainty": "R", "mineral_water": "I", "mp": "I",
               "mp_tolerance": "R", "mp_censor": "R", "count_solns": "I", "netpath": "P", "pat": "P", "new_def": "I", "n_user": "I"}
LIST_OPTIONS = {"balances": "read_inv_balances", "balance": "read_inv_balances", "bal": "read_inv_balances",
                "phase_data": "read_inv_phases", "phases": "read_inv_phases", "phase": "read_inv_phases", "isotopes": "read_inv_isotopes"}
VECTOR_OPTIONS = {"solutions": ("read_vector_ints", "solns"), "sol": ("read_vector_ints", "solns"),
                  "uncertainty": ("read_vector_doubles", "uncertainties"), "uncertainties": ("read_vector_doubles", "uncertainties"),
                  "force": ("read_vector_t_f", "force_solns"), "force_solution": ("read_vector_t_f", "force_solns"), "force_solutions": ("read_vector_t_f", "force_solns")}
FLAG_OPTIONS = {"minimal": "minimal", "minimum": "minimal"}
SCAN_OPTIONS = {"range": ("range_max", False), "ranges": ("range_max", False), "tolerance": ("tolerance", False), "u_water": ("water_uncertainty", False),
                "uncertainty_water": ("water_uncertainty", False), "mp_tolerance": ("mp_tolerance", True), "censor_mp": ("mp_censor", True)}
TF_OPTIONS = {"mineral_water": "mineral_water", "multiple_precision": "mp"}
NAME_OPTIONS = {"lon_netpath": "netpath", "pat_netpath": "pat"}


def rctx():
    c = mkctx(functional=("get_true_false",))
    c.enum_values.update({k.split("::")[-1]: v for k, v in A.enum_values_compiled("Phreeqc.h", ["OPTION_EOF", "OPTION_KEYWORD", "OPTION_ERROR", "OPTION_DEFAULT", "KEYWORD", "UNKNOWN"]).items()})
    return c


def option_names(fn):
    import re as _re
    for x in A.walk(fn):
        if x.get("kind") == "VarDecl" and x.get("name") == "opt_list":
            b, e = A.src_range_text(x)
            txt = src(READ)[b:e].decode("latin1")
            txt = _re.sub(r"/\*.*?\*/", "", txt, flags=_re.S)
            return _re.findall(r'"([^"]*)"', txt)
    raise Undecided("opt_list of read_inverse not found")


def unit_read_inverse(twin=False):
    """Every option of INVERSE_MODELING reaches the member it is documented to set, and only that member, of the model being read (inverse[n]):
       -solutions list        -> solns (in the order given: the last one is the final solution), count_solns = its length
       -uncertainty list      -> uncertainties;   -force_solutions list -> force_solns (emptied first)
       -balances / -phases / -isotopes lines (and their continuation lines) -> read_inv_balances / read_inv_phases / read_inv_isotopes of this model
       -range [v]             -> range = TRUE, range_max = v when a number follows;   -minimal -> minimal = TRUE
       -tolerance v           -> tolerance;  -u_water v -> water_uncertainty;  -mp_tolerance v -> |v|;  -censor_mp v -> |v|
       -mineral_water [t/f]   -> mineral_water;   -multiple_precision [t/f] -> mp
    Defaults before any option: range off (max 1000), tolerance 1e-10, minimal off, water uncertainty 0, mineral_water on, mp off (1e-12, 1e-20);
    no -solutions line: solutions 1 and 2."""
    fn = A.find_function(READ, RQ)
    r = U.new_unit("C18.read_inverse.every_option_sets_its_own_member_of_the_model_being_read", READ, RQ, fn)
    names = option_names(fn)
    c = rctx()
    OD, OE = c.enum_values["OPTION_DEFAULT"], c.enum_values["OPTION_ERROR"]
    loops = all_loops(fn)
    if len(loops) != 1:
        raise Undecided("read_inverse has %d loops" % len(loops))
    f, ex, its, info = U.run_loop_isolated(READ, RQ, 0, ctx=c)
    seen = set()
    import re as _re
    for s in live(its, ("run", "cont", "brk")):
        hy = list(s.pc)
        evs = U.iter_events(s)
        go = [e for e in evs if short(e) == "get_option"]
        if len(go) != 1:
            r.add("line.one_option_per_line", FAILED, "trace", 0, "%d" % len(go)); continue
        ret = go[0].result
        save0 = tm.sym("iter_opt_save", "I")
        eff = tm.ite(tm.eq(ret, tm.num(OD, "I")), save0, ret)
        cand = sorted(set(int(x) for p_ in s.pc[:3] for x in _re.findall(r"== (-?\d+)\)", repr(p_))))
        k = next((v for v in cand if proves(hy, tm.eq(eff, tm.num(v, "I")))), None)
        no_case = k is None      # a value that matches no case label (get_option never returns one): the line must have no effect
        nval = tm.select(entry_arr(ex, s, ("m", "I")), tm.sym("&L_n", "P"), I0)
        rec = at(vd(ex, s, "inverse", THIS, entry=True), nval)
        # everything written to option members on this path
        wrote = {}
        for m, so in OPT_MEMBERS.items():
            for ix, v in writes(s, ("f", m, so)):
                tgt = ix[0] if isinstance(ix, tuple) else ix
                wrote.setdefault(m, []).append((tgt, v))
        calls = [e for e in evs if short(e) in ("read_vector_ints", "read_vector_doubles", "read_vector_t_f", "read_inv_balances", "read_inv_phases", "read_inv_isotopes")]
        nextc = tm.select(ex.heap_arr(s, ("m", "P")), tm.sym("&L_next_char", "P"), I0)
        save1 = local(info, s, "opt_save")
        name = "<no_case>" if no_case else names[k] if 0 <= k < len(names) else {c.enum_values["OPTION_EOF"]: "<eof>", c.enum_values["OPTION_KEYWORD"]: "<keyword>", OE: "<error>", OD: "<error>"}.get(k, "<other>")
        seen.add(name)
        tag = "-" + name

        def only(members, ncalls):
            extra = sorted(m for m in wrote if m not in members)
            r.add("%s.writes_no_other_option_member" % tag, DISCHARGED if not extra and len(calls) == ncalls and all((t is rec) for m in wrote for t, _ in wrote[m]) else FAILED, "symex", 0,
                  "extra %r, %d reader calls" % (extra, len(calls)), kind="frame")

        def one_line():
            r.add("%s.continuation_lines_not_accepted(opt_save=OPTION_ERROR)" % tag, DISCHARGED if proves(hy, tm.eq(save1, tm.num(OE, "I"))) else FAILED, "symex", 0, repr(save1)[:80])

        if name in LIST_OPTIONS:
            only((), 1)
            ok = len(calls) == 1 and short(calls[0]) == LIST_OPTIONS[name] and calls[0].args[0] is rec and calls[0].args[1] is nextc
            r.add("%s.line_handed_to_%s_of_this_model" % (tag, LIST_OPTIONS[name]), DISCHARGED if ok else FAILED, "trace", 0, repr([(short(e), e.args) for e in calls])[:300])
            r.add("%s.continuation_lines_belong_to_the_same_option(opt_save=option)" % tag, DISCHARGED if proves(hy, tm.eq(save1, tm.num(k, "I"))) else FAILED, "symex", 0, repr(save1)[:80])
        elif name in VECTOR_OPTIONS:
            callee, member = VECTOR_OPTIONS[name]
            if twin and member == "uncertainties":
                member = "ph_uncertainties"
            only(("count_solns",) if member == "solns" else (), 1)
            vec = tm.app("fld:" + member, (rec,), "P")
            ok = len(calls) == 1 and short(calls[0]) == callee and calls[0].args[1] is vec and calls[0].args[0] is tm.sym("&L_next_char", "P")
            r.add("%s.list_read_into_%s_of_this_model" % (tag, member), DISCHARGED if ok else FAILED, "trace", 0, repr([(short(e), e.args) for e in calls])[:300])
            if member == "solns":
                w = wrote.get("count_solns", [])
                okc = len(w) == 1 and w[0][0] is rec and same(hy, w[0][1], vs(ex, s, "solns", rec))
                r.add("%s.count_solns==number_of_solutions_read" % tag, DISCHARGED if okc else FAILED, "symex", 0, repr(w)[:200])
            if member == "force_solns":
                wz = [(ix, v) for ix, v in writes(s, ("f", "#vsize", "I")) if (ix[0] if isinstance(ix, tuple) else ix) is vec]
                okf = len(wz) >= 1 and tm.isnum(wz[0][1]) and wz[0][1].args[0] == 0
                r.add("%s.earlier_flags_discarded_first" % tag, DISCHARGED if okf else FAILED, "trace", 0, repr(wz)[:200])
            one_line()
        elif name in FLAG_OPTIONS:
            m = FLAG_OPTIONS[name]
            only((m,), 0)
            w = wrote.get(m, [])
            r.add("%s.%s=TRUE" % (tag, m), DISCHARGED if len(w) == 1 and w[0][0] is rec and same(hy, w[0][1], I1) else FAILED, "symex", 0, repr(w)[:200])
            one_line()
        elif name in SCAN_OPTIONS:
            m, absval = SCAN_OPTIONS[name]
            members = (m, "range") if name in ("range", "ranges") else (m,)
            only(members, 0)
            sc = [e for e in evs if short(e) == "sscanf"]
            if len(sc) != 1 or len(sc[0].args) != 3 or sc[0].args[0] is not nextc:
                r.add("%s.value_scanned_from_the_rest_of_the_line" % tag, FAILED, "trace", 0, repr([e.args for e in sc])[:200]); continue
            dst = sc[0].args[2]
            val = tm.select(ex.heap_arr(s, ("m", "R")), dst, I0)
            w = wrote.get(m, [])
            for h, got in cases(hy, tm.eq(sc[0].result, I1)):
                if got:
                    want = val
                    if absval:
                        want = tm.ite(tm.lt(val, tm.num(0)), tm.neg(val), val)
                    okv = len(w) == 1 and w[0][0] is rec and (w[0][1] is want or same(h + FABS_AX(w[0][1]), w[0][1], want))
                    r.add("%s.%s==%svalue_read" % (tag, m, "|" if absval else ""), DISCHARGED if okv else FAILED, "symex", 0, repr(w)[:200])
                else:
                    r.add("%s.no_number=>%s_keeps_its_value" % (tag, m), DISCHARGED if not w else FAILED, "symex", 0, repr(w)[:200], kind="frame")
            if name in ("range", "ranges"):
                wr_ = wrote.get("range", [])
                r.add("%s.range=TRUE" % tag, DISCHARGED if len(wr_) == 1 and wr_[0][0] is rec and same(hy, wr_[0][1], I1) else FAILED, "symex", 0, repr(wr_)[:200])
            one_line()
        elif name in TF_OPTIONS:
            m = TF_OPTIONS[name]
            only((m,), 0)
            w = wrote.get(m, [])
            want = tm.app("call:get_true_false", (THIS, nextc, I1), "I")
            r.add("%s.%s==true/false_read_from_the_line(default_true)" % (tag, m), DISCHARGED if len(w) == 1 and w[0][0] is rec and w[0][1] is want else FAILED, "symex", 0, repr(w)[:200])
            one_line()
        elif name in NAME_OPTIONS:
            only((NAME_OPTIONS[name],), 0)
        elif name == "<no_case>":
            only((), 0)
        elif name in ("<eof>", "<keyword>"):
            only((), 0)
            r.add("%s.ends_the_block" % tag, DISCHARGED if s.status == "brk" else FAILED, "symex", 0, s.status)
        elif name == "<error>":
            only((), 0)
            r.add("%s.unknown_input_is_an_input_error" % tag, DISCHARGED if writes(s, ("f", "input_error", "I")) else FAILED, "symex", 0, "")
        else:
            r.add("%s.option_known_to_the_contract" % tag, FAILED, "symex", 0, "option index %d" % k)
    need = set(LIST_OPTIONS) | set(VECTOR_OPTIONS) | set(FLAG_OPTIONS) | set(SCAN_OPTIONS) | set(TF_OPTIONS) | {"<eof>", "<keyword>", "<error>"}
    r.add("reach.options", DISCHARGED if need <= seen else UNDECIDED, "symex", 0, repr(sorted(need - seen)), kind="vacuity")
    # defaults and the default pair of solutions
    body = A.body_of(fn)["inner"]
    kl = next(k_ for k_, x in enumerate(body) if x is loops[0])
    k0 = next((k_ for k_, x in enumerate(body) if text_of(READ, x).startswith("inverse[n].new_def=")), None)
    if k0 is None:
        raise Undecided("initialisation of the new model not found")
    f, ex, fin, info = region(READ, RQ, body[k0:kl], rctx())
    n_ = 0
    DEF = {"range": (I0, "I"), "range_max": (tm.num(1000), "R"), "tolerance": (tm.num(Fraction(1, 10**10)), "R"), "minimal": (I0, "I"), "water_uncertainty": (tm.num(0), "R"),
           "mineral_water": (I1, "I"), "mp": (I0, "I"), "mp_tolerance": (tm.num(Fraction(1, 10**12)), "R"), "mp_censor": (tm.num(Fraction(1, 10**20)), "R"), "new_def": (I1, "I")}
    if twin:
        DEF["tolerance"] = (tm.num(Fraction(1, 10**8)), "R")
    for s in live(fin):
        n_ += 1
        nval = tm.select(ex.heap_arr(s, ("m", "I")), tm.sym("&L_n", "P"), I0)
        rec = at(vd(ex, s, "inverse", THIS), nval)
        for m, (v, so) in sorted(DEF.items()):
            got = F(ex, s, m, so, rec)
            ok = got is v or same(list(s.pc), got, v) or (so == "R" and tm.isnum(got) and abs(got.args[0] - v.args[0]) <= abs(v.args[0]) * Fraction(1, 10**9))
            r.add("default.%s==%s" % (m, repr(v)), DISCHARGED if ok else FAILED, "symex", 0, repr(got)[:100])
    r.add("reach.defaults", DISCHARGED if n_ == 1 else UNDECIDED, "symex", 0, "%d" % n_, kind="vacuity")
    dif = [x for x in body[kl + 1:] if x.get("kind") == "IfStmt" and "push_back" in text_of(READ, x["inner"][1]) and "solns" in text_of(READ, x["inner"][1])]
    if len(dif) != 1:
        r.add("no_-solutions_line.default_pair", FAILED, "syntactic", 0, "block not found (%d)" % len(dif))
    else:
        f, ex, fin, info = region(READ, RQ, dif, rctx())
        seenb = set()
        for s in live(fin):
            nval = tm.select(entry_arr(ex, s, ("m", "I")), tm.sym("&L_n", "P"), I0)
            rec = at(vd(ex, s, "inverse", THIS, entry=True), nval)
            pb = [e for e in s.events if e.name == "vector.push_back"]
            for h, none in cases(list(s.pc), tm.eq(fld0(ex, s, "count_solns", "I", rec), I0)):
                seenb.add(none)
                if none:
                    okp = len(pb) == 2 and all(e.recv is tm.app("fld:solns", (rec,), "P") for e in pb) and [e.args[-1] for e in pb] == [I1, tm.num(2, "I")]
                    r.add("no_-solutions_line.solution_1_is_initial_and_solution_2_final", DISCHARGED if okp and proves(h, tm.eq(F(ex, s, "count_solns", "I", rec), tm.num(2, "I"))) else FAILED, "trace", 0, repr([e.args for e in pb])[:200])
                else:
                    r.add("solutions_given.kept_as_given", DISCHARGED if not pb and not writes(s, ("f", "count_solns", "I")) else FAILED, "trace", 0, "", kind="frame")
        r.add("reach.default_pair", DISCHARGED if seenb == {True, False} else UNDECIDED, "symex", 0, repr(seenb), kind="vacuity")
    r.assumptions += ["get_option returns the index of the option in opt_list (or OPTION_DEFAULT for a continuation line, OPTION_EOF / OPTION_KEYWORD at the end): the option NAMES "
                      "are read from the initialiser of opt_list, the contract is stated per name",
                      "read_vector_ints / _doubles / _t_f append the values of the line to the vector they are given, in order (opaque); sscanf(\"%lf\") stores the number read",
                      "get_true_false is functional; fabs(x) = |x|", "-lon_netpath / -pat_netpath only set their own name members (not part of the property)"]
    return r


def FABS_AX(t):
    """instances of fabs(x) = |x| for the fabs applications inside t"""
    out = []
    for u in tm.subterms(t):
        if u.op == "app" and str(u.args[0]) in ("fabs", "call:fabs") and len(u.args) >= 2:
            x = u.args[-1]
            out.append(tm.eq(u, tm.ite(tm.lt(x, tm.num(0)), tm.neg(x), x)))
    return out



# ------------------------------------------------------------------------------------------------ -balances and -phases lines
def tok_ctx():
    c = mkctx(functional=("strcmp_nocase_arg1", "string_hsave", "copy_token", "c_str"))
    from vf.astvc import hdr
    for nm in ("EMPTY", "UPPER", "LOWER", "DIGIT"):
        c.enum_values[nm] = int(hdr.define_value("src/phreeqcpp/global_structures.h", nm))
    return c


def unit_read_inv_balances(twin=False):
    """One -balances line:  `pH u...` replaces the pH uncertainties of the model; `Element u...` appends one element entry whose name is the token
    (with "(+" written "(") and reads the numbers of the line into THAT entry's list; an empty line or a lower-case word changes nothing."""
    q = "Phreeqc::read_inv_balances"
    fn, ex, fin, info = U.run_function(READ, q, ctx=tok_ctx())
    r = U.new_unit("C18.read_inv_balances.element_line_appends_one_entry_with_its_own_uncertainties", READ, q, fn)
    inv = tm.sym("P0_inverse_ptr", "P")
    seen = set()
    for s in live(fin, ("ret",)):
        hy = list(s.pc)
        evs = list(s.events)
        ct = [e for e in evs if short(e) == "copy_token"]
        if not ct:
            r.add("line.first_token_read", FAILED, "trace", 0, ""); continue
        tokbuf = ct[0].args[0]
        kind = ct[0].result
        ph = tm.eq(tm.app("call:strcmp_nocase_arg1", (tm.NULL, tokbuf, tm.strc('"ph"')), "I"), I0)
        c_ = tok_ctx().enum_values
        rv = [e for e in evs if short(e) == "read_vector_doubles"]
        rs = [e for e in evs if e.name == "vector.resize"]
        n0 = vs(ex, s, "elts", inv, entry=True)
        conds = [("empty", tm.eq(kind, tm.num(c_["EMPTY"], "I"))), ("lower", tm.eq(kind, tm.num(c_["LOWER"], "I"))), ("ph", ph)]
        for case, h in spec_cases(hy, conds):
            if case["empty"]:
                seen.add("empty")
                r.add("empty_line.changes_nothing", DISCHARGED if not rv and not rs and not writes(s, ("f", "name", "P")) else FAILED, "trace", 0, "", kind="frame")
            elif case["ph"]:
                seen.add("pH")
                vec = tm.app("fld:ph_uncertainties", (inv,), "P")
                wz = [(ix, v) for ix, v in writes(s, ("f", "#vsize", "I")) if (ix[0] if isinstance(ix, tuple) else ix) is vec]
                ok = len(rv) == 1 and rv[0].args[1] is (vec if not twin else tm.app("fld:uncertainties", (inv,), "P")) and wz and tm.isnum(wz[0][1]) and wz[0][1].args[0] == 0 and not rs
                r.add("pH_line.replaces_the_pH_uncertainties_and_adds_no_element", DISCHARGED if ok else FAILED, "trace", 0, repr([e.args for e in rv])[:200])
            elif case["lower"]:
                seen.add("lower")
                r.add("lower-case_word.is_an_input_error_and_adds_nothing", DISCHARGED if not rv and not rs and writes(s, ("f", "input_error", "I")) else FAILED, "trace", 0, "", kind="frame")
            else:
                seen.add("element")
                el = at(vd(ex, s, "elts", inv), n0)
                okr = len(rs) == 1 and rs[0].recv is tm.app("fld:elts", (inv,), "P") and same(h, rs[0].args[1], n0 + I1)
                r.add("element_line.appends_exactly_one_entry", DISCHARGED if okr else FAILED, "trace", 0, repr([e.args for e in rs])[:200])
                wn = writes(s, ("f", "name", "P"))
                hs = [e for e in evs if short(e) == "string_hsave"]
                okn = len(wn) == 1 and (wn[0][0] == (el,) or wn[0][0] is el) and len(hs) == 1 and hs[0].args[0] is tokbuf and wn[0][1] is hs[0].result
                r.add("element_line.new_entry_is_named_by_the_token", DISCHARGED if okn else FAILED, "symex", 0, repr(wn)[:200])
                okv = len(rv) == 1 and rv[0].args[1] is tm.app("fld:uncertainties", (el,), "P")
                r.add("element_line.numbers_read_into_the_new_entry's_own_list", DISCHARGED if okv else FAILED, "trace", 0, repr([e.args for e in rv])[:200], kind="pairing")
    r.add("reach.lines", DISCHARGED if seen == {"empty", "pH", "lower", "element"} else UNDECIDED, "symex", 0, repr(sorted(seen)), kind="vacuity")
    r.assumptions += ["copy_token / strcmp_nocase_arg1 / string_hsave are functional; read_vector_doubles appends the numbers of the rest of the line to the vector it is given",
                      "std::vector model: resize(n + 1) keeps the earlier entries"]
    return r


def unit_read_inv_phases(twin=False):
    """One -phases line appends one phase entry: name = first token, constraint EITHER and not forced unless a later word says so:
       a word whose lower-cased first letter is p -> precipitate only, d -> dissolve only; a word starting with f -> forced; a number starts an
       isotope triple (number+element, ratio, uncertainty) that is stored; every stored isotope is copied into the phase entry field by field."""
    q = "Phreeqc::read_inv_phases"
    c = tok_ctx()
    fn, ex, fin, info = U.run_function(READ, q, ctx=c, modes={0: "iter", 1: "iter"})
    r = U.new_unit("C18.read_inv_phases.constraint_force_and_isotopes_of_the_phase_entry_appended", READ, q, fn)
    inv = tm.sym("P0_inverse_ptr", "P")
    PREC, DISS, EITH = [tm.num(c.enum_values[k], "I") for k in ("PRECIPITATE", "DISSOLVE", "EITHER")]
    L = all_loops(fn)
    if len(L) != 2:
        raise Undecided("read_inv_phases has %d loops" % len(L))
    # the token loop is the one reached first; its entry state carries the new entry and its defaults
    ents = [e for e in info["entry"].get(0, []) if B.z3_sat(list(e.pc)) != "unsat"]
    n0 = None
    for e in ents:
        n0 = vs(ex, e, "phases", inv, entry=True) if False else tm.select(tm.sym("H0.#vsize:I", ("A", "P", "I")), tm.app("fld:phases", (inv,), "P"))
        ph = at(vd(ex, e, "phases", inv), n0)
        rs = [x for x in e.events if x.name == "vector.resize" and x.recv is tm.app("fld:phases", (inv,), "P")]
        r.add("line.appends_exactly_one_phase_entry", DISCHARGED if len(rs) == 1 and same(list(e.pc), rs[0].args[1], n0 + I1) else FAILED, "trace", 0, repr([x.args for x in rs])[:200])
        ct = [x for x in e.events if short(x) == "copy_token"]
        hs = [x for x in e.events if short(x) == "string_hsave"]
        wn = writes(e, ("f", "name", "P"))
        okn = len(wn) == 1 and same(list(e.pc), wn[0][0][0] if isinstance(wn[0][0], tuple) else wn[0][0], ph) and len(hs) == 1 and ct and hs[0].args[0] is ct[0].args[0] and wn[0][1] is hs[0].result
        r.add("line.entry_named_by_the_first_token", DISCHARGED if okn else FAILED, "symex", 0, repr(wn)[:200])
        U.discharge_valid(r, "line.default:either_direction", list(e.pc), tm.eq(F(ex, e, "constraint", "I", ph), EITH if not twin else DISS), kind="establishment")
        U.discharge_valid(r, "line.default:not_forced", list(e.pc), tm.eq(F(ex, e, "force", "I", ph), I0), kind="establishment")
    r.add("reach.entry", DISCHARGED if ents else UNDECIDED, "symex", 0, "%d" % len(ents), kind="vacuity")
    seen = set()
    for s in live(info["iter"].get(0, []), ("run", "cont", "brk")):
        hy = list(s.pc)
        evs = U.iter_events(s)
        ct = [e for e in evs if short(e) == "copy_token"]
        if not ct:
            r.add("word.read", FAILED, "trace", 0, ""); continue
        tokbuf = ct[0].args[0]
        low = [e for e in evs if short(e) == "str_tolower"]
        cp = [e for e in evs if short(e) == "strcpy_safe"]
        lowbuf = low[0].args[0] if low else None
        ph = None
        wc = writes(s, ("f", "constraint", "I")); wf = writes(s, ("f", "force", "I"))
        first = lambda buf: tm.select(ex.heap_arr(s, ("m", "I")), buf, I0)
        if wc or wf:
            okl = lowbuf is not None and len(cp) == 1 and cp[0].args[0] is lowbuf and cp[0].args[-1] is tokbuf and evs.index(cp[0]) < evs.index(low[0])
            r.add("word.compared_in_lower_case(copy_of_the_word_lower-cased)", DISCHARGED if okl else FAILED, "trace", 0, repr([(short(e), e.args) for e in cp + low])[:200])
        if wc:
            tgt = wc[0][0][0] if isinstance(wc[0][0], tuple) else wc[0][0]
            okt = n0 is not None and len(wc) == 1 and "fld:phases(P0_inverse_ptr)" in repr(tgt) and same(hy, tgt, at(vd(ex, s, "phases", inv, entry=True), n0))
            v = wc[0][1]
            if same(hy, v, PREC):
                seen.add("precipitate")
                U.discharge_valid(r, "word.precipitate_only_for_a_word_starting_with_p", hy, tm.eq(first(lowbuf), tm.num(ord("p"), "I")) if lowbuf is not None else tm.FALSE)
            elif same(hy, v, DISS):
                seen.add("dissolve")
                U.discharge_valid(r, "word.dissolve_only_for_a_word_starting_with_d", hy, tm.eq(first(lowbuf), tm.num(ord("d"), "I")) if lowbuf is not None else tm.FALSE)
            else:
                r.add("word.constraint_is_precipitate_or_dissolve", FAILED, "symex", 0, repr(v))
            r.add("word.constraint_of_the_entry_just_appended", DISCHARGED if okt else FAILED, "symex", 0, repr(tgt)[:200])
            r.add("word.constraint_word_does_not_force", DISCHARGED if not wf else FAILED, "symex", 0, "", kind="frame")
        elif wf:
            seen.add("force")
            tgt = wf[0][0][0] if isinstance(wf[0][0], tuple) else wf[0][0]
            okt = n0 is not None and len(wf) == 1 and same(hy, tgt, at(vd(ex, s, "phases", inv, entry=True), n0)) and same(hy, wf[0][1], I1)
            r.add("word.force_of_the_entry_just_appended", DISCHARGED if okt else FAILED, "symex", 0, repr(wf)[:200])
            f_ = tm.num(ord("f"), "I")
            goal = tm.or_(tm.eq(first(tokbuf), f_), tm.eq(first(lowbuf), f_)) if lowbuf is not None else tm.eq(first(tokbuf), f_)
            U.discharge_valid(r, "word.forced_only_for_a_word_starting_with_f", hy, goal)
        else:
            # neither constraint nor force written: demanded only that p / d words do not get here
            if lowbuf is not None:
                U.discharge_valid(r, "word.p_and_d_words_always_set_the_constraint", hy, tm.and_(tm.not_(tm.eq(first(lowbuf), tm.num(ord("p"), "I"))), tm.not_(tm.eq(first(lowbuf), tm.num(ord("d"), "I")))))
                U.discharge_valid(r, "word.f_words_always_force", hy, tm.not_(tm.and_(tm.eq(first(tokbuf), tm.num(ord("f"), "I")), tm.eq(first(lowbuf), tm.num(ord("f"), "I")))))
            pb = [e for e in evs if e.name == "vector.push_back"]
            if pb:
                seen.add("isotope")
                nm = [short(e) for e in evs]
                want = ["Set_isotope_number", "Set_elt_name", "copy_token", "Set_ratio", "copy_token", "Set_ratio_uncertainty", "Set_ratio_uncertainty_defined"]
                got = [x for x in nm if x in want][1:] if nm and nm[0] == "copy_token" else [x for x in nm if x in want]
                got = [x for x in nm[nm.index("Set_isotope_number"):] if x in want] if "Set_isotope_number" in nm else []
                r.add("isotope.number+element_then_ratio_from_the_next_token_then_uncertainty_from_the_one_after", DISCHARGED if got == want else FAILED, "trace", 0, repr(got))
                sets = [e for e in evs if short(e).startswith("Set_")]
                one = len(set(id(e.recv) for e in sets)) == 1 and pb[0].args[-1] is sets[0].recv if sets else False
                r.add("isotope.the_record_filled_is_the_record_stored", DISCHARGED if one else FAILED, "trace", 0, repr([e.recv for e in sets])[:200], kind="pairing")
                dg = tm.eq(ct[0].result, tm.num(c.enum_values["DIGIT"], "I"))
                U.discharge_valid(r, "isotope.only_for_a_word_starting_with_a_digit", hy, dg)
    r.add("reach.words", DISCHARGED if {"precipitate", "dissolve", "force", "isotope"} <= seen else UNDECIDED, "symex", 0, repr(sorted(seen)), kind="vacuity")
    # copy of the stored isotopes into the entry
    PAIRS = {"isotope_number": "Get_isotope_number", "ratio": "Get_ratio", "total": "Get_total", "coef": "Get_coef", "x_ratio_uncertainty": "Get_x_ratio_uncertainty"}
    n = 0
    for s in live(info["iter"].get(1, []), ("run", "cont")):
        n += 1
        hy = list(s.pc)
        evs = U.iter_events(s)
        i = tm.sym("iter_i", "I")
        src_i = [e for e in evs if e.name.endswith("operator[]") or short(e) == "operator[]"]
        for fld_, getter in sorted(PAIRS.items()):
            w = writes(s, ("f", fld_, "R"))
            g = [e for e in evs if short(e) == getter]
            ok = len(w) == 1 and len(g) >= 1 and w[0][1] is g[0].result and "iter_i" in repr(g[0].recv) and "isotopes" in repr(g[0].recv) and "iter_i" in repr(w[0][0])
            if twin and fld_ == "ratio":
                ok = ok and False
            r.add("copy.%s_of_isotope_i<-%s_of_stored_isotope_i" % (fld_, getter), DISCHARGED if ok else FAILED, "symex", 0, repr(w)[:200], kind="pairing")
        w = writes(s, ("f", "ratio_uncertainty", "R"))
        g = [e for e in evs if short(e) == "Get_ratio_uncertainty"]
        d = [e for e in evs if short(e) == "Get_ratio_uncertainty_defined"]
        if not d or len(w) != 1:
            r.add("copy.ratio_uncertainty", FAILED, "symex", 0, repr(w)[:200]); continue
        for h, defd in cases(hy, tm.to_bool(d[0].result) if d[0].result.sort != "B" else d[0].result):
            ok = (defd and g and w[0][1] is g[0].result) or (not defd and "nan" in repr(w[0][1]).lower())
            r.add("copy.ratio_uncertainty<-%s" % ("declared_uncertainty" if defd else "NaN_when_none_declared"), DISCHARGED if ok else FAILED, "symex", 0, repr(w)[:200])
        for fld_ in ("master", "primary"):
            w = writes(s, ("f", fld_, "P"))
            r.add("copy.%s_unresolved_until_tidy" % fld_, DISCHARGED if len(w) == 1 and w[0][1] is tm.NULL else FAILED, "symex", 0, repr(w)[:100])
    r.add("reach.copy", DISCHARGED if n >= 2 else UNDECIDED, "symex", 0, "%d" % n, kind="vacuity")
    ch = (text_of(READ, L[1]["inner"][0]).rstrip(";"), text_of(READ, L[1]["inner"][2]), text_of(READ, L[1]["inner"][3]))
    r.add("copy.every_stored_isotope(0..isotopes.size()-1)", DISCHARGED if ch[0] in ("size_ti=0", "i=0") and ch[1] == "i<isotopes.size()" and ch[2] in ("i++", "++i") else FAILED, "syntactic", 0, repr(ch), kind="structural")
    r.assumptions += ["copy_token, string_hsave functional; strcpy_safe(dst, n, src) copies src, str_tolower lower-cases in place (opaque: only their order and buffers are checked)",
                      "which buffer's first character decides `force` is accepted either way (the word as typed or its lower-cased copy)",
                      "the header of the isotope copy loop is compared as text", "the setters / getters of cxxSolutionIsotope are opaque accessors"]
    return r


# ------------------------------------------------------------------------------------------------ isotopes of the phases
def unit_phase_isotopes(twin=False):
    """Isotope data of a phase: the element is looked up by the isotope's own name and must be a primary master species (else input error and the entry
    stays unresolved); then primary = master = that species and coef = the coefficient of the element in the PHASE's formula (the entry of
    phase->next_elt whose element is the master species' element; the walk starts at the first entry and stops at the terminator)."""
    fn = A.find_function(TIDY, TQ)
    r = U.new_unit("C18.tidy_inverse.phase_isotopes.element_resolved_and_coefficient_taken_from_the_phase_formula", TIDY, TQ, fn)
    kl = [lp for lp in all_loops(fn) if ".isotopes[k].primary=" in body_text(lp).replace("NULL", "") or ".isotopes[k].primary=NULL" in body_text(lp)]
    kl = [lp for lp in kl if len(nested(lp)) == 1]
    if len(kl) != 1:
        raise Undecided("phase isotope loop not found (%d)" % len(kl))
    wl = nested(kl[0])[0]
    f, ex, its, info = U.run_loop_isolated(TIDY, TQ, ordinal(fn, kl[0]), ctx=tctx(), inner_modes={ordinal(fn, wl): "iter"})
    ents = [e for e in info["inner_entries"].get(ordinal(fn, wl), []) if B.z3_sat(list(e.pc)) != "unsat"]
    seen = set()
    def iso_of(s, st=None):
        st = st or s
        kv = tm.select(entry_arr(ex, s, ("m", "I")), tm.sym("&L_k", "P"), I0)
        rec = invrec(ex, s)
        ph = at(vd(ex, s, "phases", rec, entry=True), tm.sym("L_j", "I"))
        return ph, at(vd(ex, s, "isotopes", ph, entry=True), kv)
    for s in live(its, ("run", "cont")):
        hy = list(s.pc)
        ph, iso = iso_of(s)
        lk = [e for e in U.iter_events(s) if short(e) == "master_bsearch"]
        if len(lk) != 1 or lk[0].args[0] is not fld0(ex, s, "elt_name", "P", iso):
            r.add("isotope.element_looked_up_by_the_isotope's_own_name", FAILED, "trace", 0, repr([e.args for e in lk])[:200]); continue
        mp = lk[0].result
        through = [e for e in ents if len(e.pc) <= len(s.pc) and all(a is b for a, b in zip(e.pc, s.pc[:len(e.pc)]))]
        for case, h in spec_cases(hy, [("unknown", tm.eq(mp, tm.NULL)), ("primary", tm.eq(fld0(ex, s, "primary", "I", mp), I1))]):
            if case["unknown"] or not case["primary"]:
                seen.add("rejected")
                wp, wm = writes(s, ("f", "primary", "P")), writes(s, ("f", "master", "P"))
                ok = not through and writes(s, ("f", "input_error", "I")) and all(len(w) == 1 and w[0][1] is tm.NULL for w in (wp, wm))
                r.add("isotope.%s_is_an_input_error_and_stays_unresolved" % ("unknown_element" if case["unknown"] else "valence_state"), DISCHARGED if ok else FAILED, "symex", 0, "")
            else:
                seen.add("resolved")
                e = through[-1] if through else None
                if e is None:
                    r.add("isotope.formula_searched", FAILED, "symex", 0, "walk over the phase formula not reached"); continue
                for nm in ("primary", "master"):
                    w = writes(e, ("f", nm, "P"))
                    okw = len(w) >= 1 and (w[-1][0] == (iso,) or w[-1][0] is iso) and w[-1][1] is (mp if not (twin and nm == "master") else tm.NULL)
                    r.add("isotope.%s_is_the_element's_primary_master_species" % nm, DISCHARGED if okw else FAILED, "symex", 0, repr(w)[-200:])
    r.add("reach.isotope", DISCHARGED if seen == {"rejected", "resolved"} else UNDECIDED, "symex", 0, repr(sorted(seen)), kind="vacuity")
    seen = set()
    for s in live(info["inner_iters"].get(ordinal(fn, wl), []), ("run", "cont", "brk")):
        hy = list(s.pc)
        e = [x for x in ents if len(x.pc) < len(s.pc) and all(a is b for a, b in zip(x.pc, s.pc[:len(x.pc)]))]
        if not e:
            continue
        e = max(e, key=lambda x: len(x.pc))
        p_ = tm.sym("iter_elt_list_ptr", "P")
        cond = s.pc[len(e.pc)]
        want = tm.not_(tm.eq(F(ex, s, "elt", "P", p_), tm.NULL))
        r.add("walk.runs_to_the_terminator_of_the_formula", DISCHARGED if proves(list(e.pc) + [want], cond) and proves(list(e.pc) + [cond], want) else FAILED, "z3", 0, repr(cond)[:200])
        mp = s.locals.get(info["names"]["master_ptr"])
        hit = tm.eq(F(ex, s, "elt", "P", p_), F(ex, s, "elt", "P", mp))
        wc = writes(s, ("f", "coef", "R"))
        for h, is_hit in cases(hy, hit):
            seen.add(is_hit)
            if is_hit:
                tgt = (wc[0][0][0] if isinstance(wc[0][0], tuple) else wc[0][0]) if wc else None
                okc = len(wc) == 1 and "fld:isotopes(" in repr(tgt) and wc[0][1] is tm.select(entry_arr(ex, s, ("f", "coef", "R")), p_) and s.status == "brk"
                r.add("walk.coefficient_of_the_element_in_the_phase_formula_is_stored_and_the_walk_stops", DISCHARGED if okc else FAILED, "symex", 0, repr(wc)[:200])
            else:
                r.add("walk.other_elements_of_the_formula_are_passed_over", DISCHARGED if not wc and s.status != "brk" else FAILED, "symex", 0, s.status, kind="frame")
    for e in ents:
        init = wl["inner"][0]
        v0 = None
        try:
            for s0 in ex.exec(init, [e.clone()]):
                v0 = s0.locals.get(info["names"]["elt_list_ptr"])
        except Exception:
            v0 = None
        rec_ = invrec(ex, e)
        php = F(ex, e, "phase", "P", at(vd(ex, e, "phases", rec_), tm.sym("L_j", "I")))
        first = vd(ex, e, "next_elt", php)          # address of next_elt[0] of this phase
        okv = v0 is not None and not isinstance(v0, tuple) and (v0 is first or proves(list(e.pc), tm.eq(v0, first)))
        r.add("walk.starts_at_the_first_element_of_this_phase's_formula", DISCHARGED if okv else FAILED, "symex", 0, repr(v0)[:200])
    r.add("reach.walk", DISCHARGED if seen == {True, False} else UNDECIDED, "symex", 0, repr(seen), kind="vacuity")
    r.assumptions += ["master_bsearch functional; phase->next_elt is a list terminated by an entry without element",
                      "an isotope whose element does not occur in the phase formula is NOT detected by the source (its test `elt_list_ptr == NULL` can never hold after the walk): "
                      "the coefficient then keeps the value read_inv_phases gave it; not part of the property, reported as an observation",
                      "next_elt is a std::vector of the phase record (element block address = its first entry)"]
    return r


UNITS = [("C18.tidy_inverse.defaults.one_value_per_solution_last_value_repeated_0.05_when_none", unit_defaults),
         ("C18.tidy_inverse.balances.element_uncertainties_per_solution_default_or_last_value", unit_element_uncertainties),
         ("C18.tidy_inverse.unknowns.marked_master_species_redox_states_and_redox_reaction_count", unit_unknowns),
         ("C18.tidy_inverse.balances.declared_uncertainties_reach_exactly_the_unknowns_they_name", unit_copy_uncertainties),
         ("C18.read_inverse.every_option_sets_its_own_member_of_the_model_being_read", unit_read_inverse),
         ("C18.read_inv_balances.element_line_appends_one_entry_with_its_own_uncertainties", unit_read_inv_balances),
         ("C18.read_inv_phases.constraint_force_and_isotopes_of_the_phase_entry_appended", unit_read_inv_phases),
         ("C18.tidy_inverse.phase_isotopes.element_resolved_and_coefficient_taken_from_the_phase_formula", unit_phase_isotopes)]
