"""C11: dispersion as convex mixing (transport.cpp init_mix).  (a) Every cell's mixing record is a partition of unity: fraction
m with the lower neighbour, m1 with the higher neighbour and 1 - m - m1 with itself.  (b) The stability bookkeeping sees every
factor pair: whenever m[j] or m1[j] is (re)defined, maxmix is raised to at least m[j] + m1[j] before the number of sub-mixes is
derived from it, so that (m[j] + m1[j]) / nmix <= 2/3 and the self fraction stays positive."""
from props.common import *
from vf.core import FAILED, DISCHARGED, UNDECIDED

TR = "src/phreeqcpp/transport.cpp"
Q = "Phreeqc::init_mix"


def _pair_bound(r, name, ex, s, info, idx):
    """final maxmix >= final m[idx] + m1[idx]"""
    mem = s.heap.get(("m", "R")) or ex.heap_arr(s, ("m", "R"))
    m, m1 = local(info, s, "m"), local(info, s, "m1")
    mm = local(info, s, "maxmix")
    a, b = tm.select(mem, m, idx), tm.select(mem, m1, idx)
    sep = [tm.not_(tm.eq(m, m1))]
    return U.discharge_valid(r, name, list(s.pc) + sep, tm.le(a + b, mm))


def unit_init_mix(twin=False):
    fn = A.find_function(TR, Q)
    r = U.new_unit("C11.init_mix.partition_of_unity_and_stability_bookkeeping", TR, Q, fn)
    c0 = lambda: ctx(functional=())
    cc = lambda ex, s: fld0(ex, s, "count_cells", "I")
    # (b) boundary blocks
    for which, idxf in (("bcon_first==1", lambda ex, s: tm.num(1, "I")), ("bcon_last==1", cc)):
        blocks = [x for x in A.walk(fn) if x.get("kind") == "IfStmt" and text_of(TR, x["inner"][0]) == which and "mf12" in text_of(TR, x["inner"][1])]
        if len(blocks) != 2:
            raise Undecided("expected two `%s` blocks in init_mix, found %d" % (which, len(blocks)))
        for j, blk in enumerate(blocks):
            f, ex, fin, info = region(TR, Q, [blk["inner"][1]], c0())
            n = 0
            for s in live(fin):
                idx = idxf(ex, s)
                wrote = any(ix[1] is idx or B.z3_prove(list(s.pc), tm.eq(ix[1], idx))[0] == "proved" for ix, v in writes(s, ("m", "R")) if isinstance(ix, tuple) and len(ix) == 2)
                if not wrote and not writes(s, ("m", "R")):
                    continue
                n += 1
                if twin and which == "bcon_last==1":
                    idx = idx - tm.num(1, "I")
                _pair_bound(r, "%s[%s].maxmix>=m+m1_of_the_boundary_cell" % (which, "multi_D" if j == 0 else "single_D"), ex, s, info, idx)
            r.add("reach.%s[%d]" % (which, j), DISCHARGED if n else UNDECIDED, "symex", 0, "%d" % n, kind="vacuity")
    # (b) inner-cell loops: iteration i defines m[i], m1[i] and raises maxmix
    inner = [k for k, lp in enumerate([x for x in A.walk(fn) if x.get("kind") in ("ForStmt", "WhileStmt", "DoStmt")])
             if lp.get("kind") == "ForStmt" and text_of(TR, lp["inner"][2]) == "i<=count_cells" and "mf12" in text_of(TR, lp["inner"][-1])]
    if len(inner) != 2:
        raise Undecided("expected two inner-cell loops with mf12 in init_mix, found %d" % len(inner))
    for j, k in enumerate(inner):
        f, ex, its, info = U.run_loop_isolated(TR, Q, k, ctx=c0())
        n = 0
        for s in live(its, ("run", "cont")):
            n += 1
            if j == 0:
                # multi_D: pairs are only summed when there is advection (ishift != 0); otherwise m, m1 stay 0 (diffusion is handled by multi_D)
                if B.z3_prove(list(s.pc), tm.eq(fld0(ex, s, "ishift", "I"), tm.num(0, "I")))[0] == "proved":
                    r.add("inner[multi_D].no_dispersive_factor_without_advection", DISCHARGED if not writes(s, ("m", "R")) else FAILED, "symex", 0, "", kind="frame")
                    continue
            _pair_bound(r, "inner[%s].maxmix>=m[i]+m1[i]" % ("multi_D" if j == 0 else "single_D"), ex, s, info, tm.sym("iter_i", "I"))
        r.add("reach.inner[%d]" % j, DISCHARGED if n else UNDECIDED, "symex", 0, "%d paths" % n, kind="vacuity")
    # (b) number of sub-mixes exceeds 1.5*maxmix (explicit scheme)
    t = text_of(TR, fn)
    for pat in ("l_nmix=1+(int)floor(1.5*maxmix);",):
        r.add("nmix.explicit_scheme_1+floor(1.5*maxmix)", DISCHARGED if t.count(pat) >= 2 else FAILED, "syntactic", 0, "%d occurrences" % t.count(pat), kind="structural")
    # (a) fill loops: partition of unity
    fills = [k for k, lp in enumerate([x for x in A.walk(fn) if x.get("kind") in ("ForStmt", "WhileStmt", "DoStmt")])
             if lp.get("kind") == "ForStmt" and "temp_mix.Add(" in text_of(TR, lp["inner"][-1])]
    if len(fills) != 2:
        raise Undecided("expected two fill loops in init_mix, found %d" % len(fills))
    for j, k in enumerate(fills):
        f, ex, its, info = U.run_loop_isolated(TR, Q, k, ctx=c0())
        for s in live(its, ("run", "cont")):
            adds = [e for e in U.iter_events(s) if e.name.endswith("::Add")]
            I = tm.sym("iter_i", "I")
            if len(adds) != 3:
                r.add("fill[%d].three_entries" % j, FAILED, "symex", 0, "%d Add calls" % len(adds)); continue
            cells = [e.args[0] for e in adds]
            okc = all(B.z3_prove(list(s.pc), tm.eq(a, b))[0] == "proved" for a, b in zip(cells, (I - tm.num(1, "I"), I + tm.num(1, "I"), I)))
            r.add("fill[%d].neighbours_i-1,i+1_and_self" % j, DISCHARGED if okc else FAILED, "z3", 0, repr(cells)[:120])
            tot = adds[0].args[1] + adds[1].args[1] + adds[2].args[1]
            U.discharge_eq_real(r, "fill[%d].fractions_sum_to_one" % j, list(s.pc) + [tm.not_(tm.eq(local(info, s, "m"), local(info, s, "m1")))], tot, tm.num(1) if not twin else tm.num(2))
            nm = local(info, s, "l_nmix")
            mem0 = entry_arr(ex, s, ("m", "R")); m, m1 = local(info, s, "m"), local(info, s, "m1")
            U.discharge_eq_real(r, "fill[%d].lower_fraction==m[i]/nmix" % j, list(s.pc) + [tm.not_(tm.eq(m, m1))], adds[0].args[1], tm.select(mem0, m, I) / nm)
            su = [e for e in U.iter_events(s) if e.name.endswith("Set_n_user")]
            r.add("fill[%d].record_numbered_i" % j, DISCHARGED if su and su[0].args[0] is I else FAILED, "symex", 0, "")
    r.assumptions += ["m and m1 are distinct allocations (two PHRQ_malloc calls)", "equal exchange between neighbours (m[i] == m1[i-1]) is the user's cell geometry (the code warns)",
                      "nmix > 1.5*maxmix is read from the explicit-scheme statement; the implicit scheme and mcd_substeps are not pinned", "doubles as reals"]
    return r


def unit_transport_defaults(twin=False):
    """read_transport: when a per-cell property (length, dispersivity, ...) is not given, the announced default is given to EVERY cell
    of the column (1 .. max_cells), so that a column announced as uniform is uniform (mixing factors of neighbours then agree)."""
    import re
    RT = "src/phreeqcpp/readtr.cpp"
    q = "Phreeqc::read_transport"
    fn = A.find_function(RT, q)
    r = U.new_unit("C11.read_transport.defaults_cover_every_cell", RT, q, fn, kind="structural")
    n = 0
    for x in A.walk(fn):
        if x.get("kind") != "IfStmt":
            continue
        m = re.match(r"^count_(\w+)==0$", text_of(RT, x["inner"][0]))
        if not m:
            continue
        for lp in A.walk(x["inner"][1]):
            if lp.get("kind") != "ForStmt":
                continue
            body = text_of(RT, lp["inner"][-1])
            mm = re.match(r"^\{?cell_data\[i\]\.(\w+)=([\d\.]+);?\}?$", body)
            if not mm:
                continue
            n += 1
            init, cond = text_of(RT, lp["inner"][0]), text_of(RT, lp["inner"][2])
            ok = init.rstrip(";") == "i=1" and cond in ("i<=max_cells", "i<=all_cells")
            if twin and n == 1:
                ok = False
            r.add("default_%s=%s.assigned_to_cells_1..max" % (mm.group(1), mm.group(2)), DISCHARGED if ok else FAILED, "syntactic", 0, "for (%s %s; ...)" % (init, cond))
    r.add("reach.default_loops", DISCHARGED if n >= 2 else UNDECIDED, "syntactic", 0, "%d" % n, kind="vacuity")
    r.assumptions += ["text anchors on the default-filling loops of read_transport"]
    return r
