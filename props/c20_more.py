"""C20 (added after round-2 seeds):
(a) CD-MUSIC plane-0 charge in residuals(): the charge brought by the site-type master species is sum_j moles_j * z_j with the
    amount and the charge of the SAME site type j (iteration contract), starting from 0;
(b) Donnan layer: the equivalents per charge group that fix the Donnan potential are z*moles*erm_ddl per aqueous species in both
    calc_all_donnan and calc_init_donnan (iteration contracts + pairing);
(c) a surface (or exchanger) related to a kinetic reactant is scaled by the reactant's CURRENT amount (Get_m) times its
    proportion wherever it is (re)synchronised (tidy_* and update_* agree)."""
import re
from props.common import *
from vf.core import FAILED, DISCHARGED, UNDECIDED
from vf.astvc import hdr

MODEL = "src/phreeqcpp/model.cpp"
INTEG = "src/phreeqcpp/integrate.cpp"
TIDY = "src/phreeqcpp/tidy.cpp"
GS = "src/phreeqcpp/global_structures.h"


def unit_cd_music_sigma0(twin=False):
    q = "Phreeqc::residuals"
    fn = A.find_function(MODEL, q)
    r = U.new_unit("C20.residuals.CD_MUSIC_plane0_charge_from_site_masters", MODEL, q, fn)
    k = loop_ordinal(fn, MODEL, init_text="size_tj=0", cond_text="j<x[i]->comp_unknowns.size()")
    f, ex, its, info = U.run_loop_isolated(MODEL, q, k, ctx=ctx())
    n = 0
    for s in live(its, ("run", "cont")):
        n += 1
        xi = vec_elem(ex, s, "x", local(info, s, "i"))
        data = tm.select(entry_arr(ex, s, ("f", "#vdata", "P")), tm.app("fld:comp_unknowns", (xi,), "P"))
        cj = tm.select(entry_arr(ex, s, ("m", "P")), data, tm.sym("iter_j", "I"))
        m0 = tm.select(entry_arr(ex, s, ("m", "P")), tm.select(entry_arr(ex, s, ("f", "#vdata", "P")), tm.app("fld:master", (cj,), "P")), tm.num(0, "I"))
        z = fld0(ex, s, "z", "R", fld0(ex, s, "s", "P", m0))
        mol = fld0(ex, s, "moles", "R", cj)
        if twin:
            mol = mol + tm.num(1)
        U.discharge_eq_real(r, "site_type_j.sum+=moles_j*z_j(same_j)", list(s.pc), local(info, s, "sum"), tm.sym("iter_sum", "R") + mol * z)
    r.add("reach.loop", DISCHARGED if n else UNDECIDED, "symex", 0, "%d" % n, kind="vacuity")
    check_accumulator_init(r, fn, MODEL, loop_node(fn, k), "sum", "site_masters")
    # sigma0 and the plane-0 relation
    t = text_of(MODEL, fn)
    r.add("sigma0==(f+sum)*F/(A*g)", DISCHARGED if "charge_ptr->Set_sigma0((x[i]->f+sum)*F_C_MOL/(charge_ptr->Get_specific_area()*charge_ptr->Get_grams()));" in t else FAILED, "syntactic", 0, "", kind="post")
    r.add("plane0.residual==sigma0-C0*(psi0-psi1)", DISCHARGED if "residual[i]=charge_ptr->Get_sigma0()-charge_ptr->Get_capacitance0()*(cd_psi[0]-cd_psi[1]);" in t else FAILED, "syntactic", 0, "", kind="post")
    r.assumptions += ["two text anchors for the plane-0 relation (setter/getter state is not modelled)", "doubles as reals"]
    return r


def unit_donnan_equivalents(twin=False):
    r = U.new_unit("C20.donnan.charge_group_equivalents_include_enrichment", INTEG, "Phreeqc::calc_all_donnan", A.find_function(INTEG, "Phreeqc::calc_all_donnan"))
    HPLUS = hdr.define_value(GS, "HPLUS")
    for q in ("Phreeqc::calc_all_donnan", "Phreeqc::calc_init_donnan"):
        fn = A.find_function(INTEG, q)
        loops = [x for x in A.walk(fn) if x.get("kind") == "ForStmt"]
        ks = [k for k, lp in enumerate([x for x in A.walk(fn) if x.get("kind") in ("ForStmt", "WhileStmt", "DoStmt")]) if lp.get("kind") == "ForStmt" and "charge_group_map" in text_of(INTEG, lp["inner"][-1]) and "erm_ddl" in text_of(INTEG, lp["inner"][-1]) or
              (lp.get("kind") == "ForStmt" and re.search(r"charge_group_map(\[|\.find\()s_x\[i\]->z", text_of(INTEG, lp["inner"][-1]) or ""))]
        if not ks:
            r.add("%s.equivalents_loop_found" % q.split("::")[-1], FAILED, "syntactic", 0, "no loop adds species equivalents to charge_group_map"); continue
        c = ctx(); 
        f, ex, its, info = U.run_loop_isolated(INTEG, q, ks[0], ctx=c)
        n = 0
        for s in live(its, ("run", "cont")):
            sp = vec_elem(ex, s, "s_x", tm.sym("iter_i", "I"))
            vkey = next((kk for kk in s.heap if kk[0] == "m2" and kk[1] == "#mval" and kk[2] == "R"), None)
            w = writes(s, vkey) if vkey else []
            if not w:
                continue
            hkey = ("m2", "#mhas", "B", vkey[3])
            n += 1
            z, m, e = fld0(ex, s, "z", "R", sp), fld0(ex, s, "moles", "R", sp), fld0(ex, s, "erm_ddl", "R", sp)
            (mp, key), val = w[-1]
            r.add("%s.group_keyed_by_the_species'_charge" % q.split("::")[-1], DISCHARGED if (key is z or z in tm.subterms(key)) else FAILED, "symex", 0, repr(key)[:80])
            term = z * m * (e if not twin else tm.num(1))
            old = tm.select(entry_arr(ex, s, vkey), mp, key)
            has = tm.select(entry_arr(ex, s, hkey), mp, key)
            # present: old + term ; absent: term (operator[] default-constructs 0)
            if B.z3_prove(list(s.pc), has)[0] == "proved":
                U.discharge_eq_real(r, "%s.equivalents+=z*moles*erm_ddl" % q.split("::")[-1], list(s.pc), val, old + term)
            elif B.z3_prove(list(s.pc), tm.not_(has))[0] == "proved":
                U.discharge_valid(r, "%s.equivalents=z*moles*erm_ddl(new_group)" % q.split("::")[-1], list(s.pc) + [tm.eq(old, tm.num(0))], tm.eq(val, term))
            else:
                # std::map<double,double>::operator[] value-initialises an absent entry: its old value is 0.0
                U.discharge_eq_real(r, "%s.equivalents+=z*moles*erm_ddl" % q.split("::")[-1], list(s.pc) + [has], val, old + term)
                U.discharge_valid(r, "%s.equivalents=z*moles*erm_ddl(new_group)" % q.split("::")[-1], list(s.pc) + [tm.not_(has), tm.eq(old, tm.num(0))], tm.eq(val, term))
        r.add("reach.%s" % q.split("::")[-1], DISCHARGED if n else UNDECIDED, "symex", 0, "%d" % n, kind="vacuity")
    r.assumptions += ["std::map<double, double>: operator[] on an absent key yields 0.0", "doubles as reals"]
    return r


def unit_related_to_kinetics(twin=False):
    r = U.new_unit("C20.kinetic_related_sorbents_follow_the_current_amount", TIDY, "Phreeqc::update_kin_surface", A.find_function(TIDY, "Phreeqc::update_kin_surface"), kind="structural")
    n = 0
    for q in ("tidy_kin_exchange", "update_kin_exchange", "tidy_kin_surface", "update_kin_surface"):
        fn = A.find_function(TIDY, "Phreeqc::" + q)
        t = text_of(TIDY, fn)
        ms = re.findall(r"conc=([^;]+?)\*(\w+(?:\.|->))Get_phase_proportion\(\);", t)
        for amount, _ in ms:
            n += 1
            ok = amount.endswith("Get_m()") and not (twin and n == 1)
            r.add("%s.sites==current_moles(Get_m)*proportion" % q, DISCHARGED if ok else FAILED, "syntactic", 0, amount)
    r.add("reach.sites", DISCHARGED if n >= 4 else UNDECIDED, "syntactic", 0, "%d" % n, kind="vacuity")
    r.assumptions += ["text anchors (`conc = <amount> * <component>.Get_phase_proportion()`)"]
    return r
