"""C17 extension 2: the tokenizer PBasic::parse.

One token of a BASIC line is produced per pass of the outer do-loop of parse: blanks are passed over, the first other character `ch`
(the cursor `i`, 1-based, already points behind it) selects the token class in one switch.  The units below put the switch, the scans inside
its cases and the code around it under contract, each executed from an ARBITRARY state (every local a free symbol)."""
from props.c17_ext_model import *
from props.c17_ext_loops import pv

Q = "PBasic::parse"
INBUF = tm.sym("L_l_inbuf", "P")
I0 = tm.sym("L_i", "I")
TOKBUF = tm.sym("&L_token", "P")


def strlen_of(p):
    return tm.app("call:strlen", (tm.NULL, p), "I")


LEN = strlen_of(INBUF)


def char_at(arr, k1):
    """character of the line at the 1-based position k1"""
    return tm.select(arr, INBUF, k1 - 1)


def thrower(ex_, st, n, name, recv, args):
    st.events.append(SX.Event(name, recv, args, ZI, n))
    st.status = "throw"
    return [(st, ZI)]


def _c_isalpha(v): return (65 <= v <= 90) or (97 <= v <= 122)
def _c_isdigit(v): return 48 <= v <= 57


def pctx(symbolic_ctype=False):
    """executor configuration for parse: strlen is a function of its argument (the line is not written while it is tokenized), the
    <ctype.h> classifiers are evaluated in the C locale for a concrete character (and are uninterpreted functions of a symbolic one),
    error_msg(..., STOP) and malloc_error do not return"""
    c = mkctx()
    c.functional.update({"strlen", "strtod", "strchr", "strcmp"})
    stop_on_error_msg(c)

    def cty(f):
        def h(ex_, st, n, name, recv, args):
            a = args[0]
            if tm.isnum(a) and not symbolic_ctype:
                return [(st, tm.num(1 if f(int(a.args[0])) else 0, "I"))]
            return [(st, tm.app("call:" + name.split("::")[-1], (tm.NULL, a), "I"))]
        return h
    c.handlers["isalpha"] = cty(_c_isalpha)
    c.handlers["isdigit"] = cty(_c_isdigit)
    c.handlers["isalnum"] = cty(lambda v: _c_isalpha(v) or _c_isdigit(v))
    c.handlers["Phreeqc::malloc_error"] = thrower
    c.handlers["exit"] = thrower
    return c


def parse_fn():
    return A.find_function(PB, Q)


def the_switch(fn):
    sws = [x for x in A.walk(fn) if x.get("kind") == "SwitchStmt"]
    sws = [x for x in sws if len([y for y in x["inner"][-1].get("inner", []) if y.get("kind") == "CaseStmt"]) >= 10]
    if len(sws) != 1:
        raise Undecided("parse: the switch on the first character of a token was not found")
    return sws[0]


def tok_of(info, s):
    return local(info, s, "t")


def quiet(s):
    return not any(e.name.endswith("malloc_error") for e in s.events)


# ------------------------------------------------------------------------------------------------------------------ unit 1
OPERATORS = {"+": "tokplus", "-": "tokminus", "*": "toktimes", "/": "tokdiv", "^": "tokup", "(": "toklp", "[": "toklp", ")": "tokrp", "]": "tokrp",
             ",": "tokcomma", ";": "toksemi", ":": "tokcolon", "?": "tokprint", "=": "tokeq"}
PAREN = {"(": 1, "[": 1, ")": -1, "]": -1}


def unit_characters(twin=False):
    """The first character of a token decides its class, for EVERY character value (the switch is executed once per value): an operator
    character gives the operator's token and consumes exactly that character; `<` / `>` look one character ahead inside the line
    (`<=` `<>` `>=` are one token of two characters); brackets are counted; a letter starts a name, a digit or `.` a number, `"` or `'`
    a string; any other character becomes the error token {ch} (reported as a syntax error when it is executed), never something else."""
    fn = parse_fn()
    r = U.new_unit("C17.parse.every_character_starts_the_token_of_its_class", PB, Q, fn)
    sw = the_switch(fn)
    T = tokens()
    bad_other, n_other, n_op = [], 0, 0
    classes = {"name": 0, "number": 0, "string": 0}
    mem0 = arr0(("m", "I"))
    nxt = char_at(mem0, I0)
    inside = tm.le(I0, LEN)
    lp0, q0 = tm.sym("L_lp", "I"), tm.sym("L_q", "I")
    for v in list(range(1, 128)) + list(range(-128, 0)):
        if v == 32:
            continue                               # a blank is never handed to the switch (guard `ch != ' '`, unit C17.parse.line_is_tokenized...)
        chs = chr(v) if v > 0 else None
        def prep(ex, st, names, v=v):
            st.locals[names["ch"]] = tm.num(v, "I")
        f, ex, fin, info = run_stmts(Q, [sw], pctx(), prepare=prep)
        live_ = [s for s in alive(fin) if quiet(s)]
        tag = "chr(%d)" % v if (v < 33 or v > 126) else chs
        if not live_:
            bad_other.append((tag, "no path")); continue
        if chs in OPERATORS or chs in ("<", ">"):
            n_op += 1
            for s in live_:
                t = tok_of(info, s)
                kind = F(ex, s, "kind", "I", t)
                hy = hyp(s) + [tm.le(I0, LEN + 1), tm.eq(tm.select(mem0, INBUF, LEN), ZI)]
                if chs == "<":
                    want = tm.ite(tm.and_(inside, tm.eq(nxt, tm.num(ord("="), "I"))), tk("tokle"), tm.ite(tm.and_(inside, tm.eq(nxt, tm.num(ord(">"), "I"))), tk("tokne"), tk("toklt")))
                    two = tm.and_(inside, tm.or_(tm.eq(nxt, tm.num(ord("="), "I")), tm.eq(nxt, tm.num(ord(">"), "I"))))
                elif chs == ">":
                    want = tm.ite(tm.and_(inside, tm.eq(nxt, tm.num(ord("="), "I"))), tk("tokge") if not twin else tk("tokle"), tk("tokgt"))
                    two = tm.and_(inside, tm.eq(nxt, tm.num(ord("="), "I")))
                else:
                    want, two = tk(OPERATORS[chs]), tm.FALSE
                U.discharge_valid(r, "char[%s].token" % tag, hy, tm.eq(kind, want))
                U.discharge_valid(r, "char[%s].consumes_exactly_its_characters" % tag, hy, tm.eq(local(info, s, "i"), tm.ite(two, I0 + 1, I0)))
                U.discharge_valid(r, "char[%s].bracket_depth_and_quote_count" % tag, hy, tm.and_(tm.eq(local(info, s, "lp"), lp0 + PAREN.get(chs, 0)), tm.eq(local(info, s, "q"), q0)))
                ok(r, "char[%s].ends_the_switch_normally" % tag, s.status == "run", s.status)
            continue
        for s in live_:
            t = tok_of(info, s)
            kind = F(ex, s, "kind", "I", t)
            names = set(e.name.split("::")[-1] for e in s.events)
            if v > 0 and _c_isalpha(v):
                good = "str_tolower" in names and "strtod" not in names and s.status == "run"
                classes["name"] += 1
            elif v > 0 and (_c_isdigit(v) or chs == "."):
                good = "strtod" in names and "str_tolower" not in names and s.status in ("run", "brk")
                classes["number"] += 1
            elif chs in ('"', "'"):
                good = kind is tk("tokstr") and "strtod" not in names and "str_tolower" not in names and s.status == "run"
                classes["string"] += 1
            else:
                n_other += 1
                good = kind is tk("toksnerr") and F(ex, s, "snch", "I", UUo(t)) is tm.num(v, "I") and local(info, s, "i") is I0 and not names and s.status == "run" \
                    and local(info, s, "lp") is lp0 and local(info, s, "q") is q0
            if not good:
                bad_other.append((tag, "kind %r calls %s" % (kind, sorted(names))))
    ok(r, "letters_start_a_name;digits_and_dot_a_number;quotes_a_string;every_other_character_is_the_error_token_of_that_character(all_254_values)", not bad_other, "%s" % bad_other[:5], backend="exhaustive-by-character")
    reach(r, "reach.operator_characters", n_op, 16)
    reach(r, "reach.classes(name,number,string,other)", min(min(classes.values()), n_other))
    r.assumptions += ["at the switch the cursor is at most one behind the end of the line (unit C17.parse.line_is_tokenized...: the blank scan reads a character only inside the line) and the line ends in its NUL (definition of strlen)",
                      "the switch is executed once per character value with the <ctype.h> classifiers of the C locale (bytes above 127 are no letters)",
                      "strlen(l_inbuf) is the length of the line; the line is not written while it is tokenized", "allocation failure (malloc_error) ends the run",
                      "the bodies of the name / number / string cases are under their own units; here only which case a character selects"]
    return r


# ------------------------------------------------------------------------------------------------------------------ unit 2
def assigned_names(node):
    out = set()
    for x in A.walk(node):
        k = x.get("kind")
        tgt = None
        if k == "BinaryOperator" and x.get("opcode") == "=":
            tgt = x["inner"][0]
        elif k == "CompoundAssignOperator" or (k == "UnaryOperator" and x.get("opcode") in ("++", "--")):
            tgt = x["inner"][0]
        if tgt is not None:
            tgt = strip(tgt)
            if tgt.get("kind") == "DeclRefExpr":
                out.add(tgt["referencedDecl"].get("name"))
            elif tgt.get("kind") == "ArraySubscriptExpr":
                b = strip(tgt["inner"][0])
                if b.get("kind") == "DeclRefExpr":
                    out.add(b["referencedDecl"].get("name") + "[]")
    return out


def parse_loops(fn):
    """the loops of parse, told apart by what they assign: {'outer','blank','string','name','lookup'} -> syntactic ordinal"""
    lps = loops_of(fn)
    out = {}
    for k, l in enumerate(lps):
        a = assigned_names(l)
        if l["kind"] == "DoStmt" and "outer" not in out:
            out["outer"] = k
        elif "ch" in a and len(a) <= 2:
            out["blank"] = k
        elif "token[]" in a:
            out["name"] = k
        elif a == {"v"}:
            out["lookup"] = k
        elif a == {"i", "j"}:
            out["string"] = k
    if set(out) != {"outer", "blank", "string", "name", "lookup"}:
        raise Undecided("parse: loops not identified (%s)" % sorted(out))
    return out


def array_capacity(fn, name):
    for x in A.walk(fn):
        if x.get("kind") == "VarDecl" and x.get("name") == name:
            m = re.match(r"char\s*\[(\d+)\]", x["type"].get("desugaredQualType") or x["type"]["qualType"])
            if m:
                return int(m.group(1))
    raise Undecided("parse: capacity of %s not found" % name)


def is_ident_char(c, isalnum_of):
    return tm.or_(tm.eq(c, tm.num(ord("$"), "I")), tm.eq(c, tm.num(ord("_"), "I")), tm.not_(tm.eq(isalnum_of(c), ZI)))


def summarize_by(keys_of, store=None):
    """summarize() of the model with the memory components a loop may write given per loop ordinal"""
    def h(ex, st, n, o):
        return summarize(keys_of.get(o, []), store)(ex, st, n, o)
    return h


def exit_value(s, ordinal, name):
    """the value a summarised loop leaves in a local it assigns (the fresh symbol after_loop<ordinal>_<name>)"""
    pre = "after_loop%d_%s!" % (ordinal, name)
    found = set()
    for t in list(s.pc) + [v for v in s.locals.values() if isinstance(v, tm.T)] + [a for a in s.heap.values() if a is not None]:
        for x in tm.subterms(t):
            if x.op == "sym" and x.args[0].startswith(pre):
                found.add(x)
    if len(found) != 1:
        raise Undecided("exit value of %s behind loop %d not found" % (name, ordinal))
    return found.pop()


def loop_condition(ordinal, c):
    """the condition of loop `ordinal` as one term over the free locals L_<name> and the entry memory (short-circuit paths joined)"""
    fn = parse_fn()
    node = loops_of(fn)[ordinal]
    c.loop = lambda ex, st, n, o: ex.havoc_loop(n, st)
    ex, st, names = arbitrary_state(fn, c)
    init, cond, inc, body = ex.loop_parts(node)
    outs = ex.ev(cond, st)
    return tm.or_(*[tm.and_(*(list(s.pc) + [tm.to_bool(v)])) for s, v in outs]) if len(outs) > 1 else tm.and_(*(list(outs[0][0].pc) + [tm.to_bool(outs[0][1])]))


def equivalent(a, b):
    return prove([a], b) and prove([b], a)


def unit_name(twin=False):
    """A name: the letters, digits, `_` and `$` from the first letter on form ONE word (the whole run of such characters is consumed, the
    first varnamelen = 20 are significant); the word is lower-cased and looked up AS A WHOLE in command_tokens: found -> the keyword's
    token (REM keeps the rest of the line as its text and ends the line), not found -> a variable token for the variable of exactly that
    name, created on first use (front of the variable list, no dimensions, a string variable exactly when the name ends in `$`, value 0 /
    no string).  A variable whose name merely begins with a keyword is therefore a variable."""
    fn = parse_fn()
    r = U.new_unit("C17.parse.name_is_a_keyword_as_a_whole_lowercased_word_else_a_variable", PB, Q, fn)
    sw = the_switch(fn)
    LP = parse_loops(fn)
    TL = int(define("varnamelen")) + (1 if twin else 0)
    cap = array_capacity(fn, "token")
    T = tokens()
    ok(r, "buffers.token_and_variable_name_hold_a_significant_name_and_its_terminator", cap >= TL + 1 and int(define("varnamelen")) + 1 >= TL + 1, "token[%d]" % cap, kind="safety")
    # ---- A: entry of the scan
    snaps = {}
    def prep(ex, st, names):
        st.locals[names["ch"]] = tm.num(ord("a"), "I")
    f, ex, fin, info = run_stmts(Q, [sw], pctx(), loop=summarize_by({LP["name"]: [("m", "I")]}, snaps), prepare=prep)
    na = 0
    for s in alive(snaps.get(LP["name"], [])):
        na += 1
        pv(r, "scan.starts_at_the_first_letter_with_an_empty_word", s, tm.and_(tm.eq(local(info, s, "i"), I0 - 1), tm.eq(local(info, s, "j"), ZI)))
    # ---- B: one character of the scan
    cond = loop_condition(LP["name"], pctx(symbolic_ctype=True))
    spec_c = tm.and_(tm.le(I0, LEN), is_ident_char(char_at(arr0(("m", "I")), I0), lambda x: tm.app("call:isalnum", (tm.NULL, x), "I")))
    ok(r, "scan.goes_on_exactly_while_the_next_character_is_a_letter_digit_underscore_or_dollar_inside_the_line", equivalent(cond, spec_c), repr(cond)[:300])
    f2, ex2, its, info2 = run_iter(Q, LP["name"], pctx(symbolic_ctype=True))
    i_, j_ = tm.sym("iter_i", "I"), tm.sym("iter_j", "I")
    nb = {"kept": 0, "dropped": 0}
    for s in alive(its, ("run", "cont")):
        mem_e = entry_arr(ex2, s, ("m", "I"))
        c = char_at(mem_e, i_)
        inv = [tm.le(ZI, j_), tm.le(j_, tm.num(TL, "I"))]
        hy = hyp(s) + inv
        j1, i1 = local(info2, s, "j"), local(info2, s, "i")
        U.discharge_valid(r, "scan.every_character_of_the_word_is_consumed", hy, tm.eq(i1, i_ + 1))
        U.discharge_valid(r, "scan.word_length_stays_within_the_significant_length", hy, tm.and_(tm.le(ZI, j1), tm.le(j1, tm.num(TL, "I"))), kind="invariant")
        w = [(k, ix, v) for k, ix, v in U.iter_writes(s)]
        for hy2, room in cases(hy, tm.lt(j_, tm.num(TL, "I"))):
            if room:
                nb["kept"] += 1
                U.discharge_valid(r, "scan.significant_character_appended_to_the_word", hy2, tm.and_(tm.eq(j1, j_ + 1), tm.eq(tm.select(ex2.heap_arr(s, ("m", "I")), TOKBUF, j_), c)))
            else:
                nb["dropped"] += 1
                U.discharge_valid(r, "scan.character_behind_the_significant_length_is_dropped", hy2, tm.eq(j1, j_))
                ok(r, "scan.nothing_stored_for_a_dropped_character", not w, "%s" % w[:2])
        for k, ix, v in w:
            good = k == ("m", "I") and ix[0] is TOKBUF
            ok(r, "scan.stores_only_into_the_word_buffer", good, repr((k, ix)), kind="frame")
            if good:
                U.discharge_valid(r, "scan.store_inside_the_word_buffer", hy, tm.and_(tm.le(ZI, ix[1]), tm.lt(ix[1], tm.num(cap, "I"))), kind="safety")
    # ---- C: behind the scan
    nc = {"keyword": 0, "rem": 0, "found": 0, "new_num": 0, "new_str": 0}
    for s in alive(fin, ("run",)):
        if not quiet(s):
            continue
        j = local(info, s, "j")
        t = tok_of(info, s)
        kind = F(ex, s, "kind", "I", t)
        i1 = local(info, s, "i")
        mem1 = ex.heap_arr(s, ("m", "I"))
        inv = [tm.le(ZI, j), tm.le(j, tm.num(TL, "I"))] if j.op == "sym" else []
        hy = hyp(s) + inv
        af = after(s)
        wt = [(ix, v) for ix, v in writes(s, ("m", "I")) if ix[0] is TOKBUF]
        ok(r, "word.terminated_once_behind_its_last_significant_character", len(wt) == 1 and wt[0][0][1] is j and wt[0][1] is ZI, "%s" % wt)
        if wt:
            U.discharge_valid(r, "word.terminator_inside_the_word_buffer", hy, tm.and_(tm.le(ZI, wt[0][0][1]), tm.lt(wt[0][0][1], tm.num(cap, "I"))), kind="safety")
        lo = evs(s, "str_tolower")
        ok(r, "word.lower-cased_once_before_the_lookup(keywords_are_case-insensitive)", len(lo) == 1 and lo[0].args[0] is TOKBUF, "%s" % lo)
        key = tm.app("string_of", (TOKBUF,), "S")
        cmdmap = tm.sym("&G.command_tokens", "P")
        has = tm.select(ex.heap_arr(s, ("m2", "#mhas", "B", "S")), cmdmap, key)
        mval = tm.select(ex.heap_arr(s, ("m2", "#mval", "I", "S")), cmdmap, key)
        for hy2, found in cases(hy, has):
            if found:
                U.discharge_valid(r, "keyword.token_is_the_one_command_tokens_maps_the_whole_word_to", hy2, tm.eq(kind, mval))
                ok(r, "keyword.no_variable_is_created", not evs(s, "strcpy") and not writes(s, ("f", "varbase", "P")) and not writes(s, ("f", "vp", "P")), "", kind="frame")
                for hy3, isrem in cases(hy2, tm.eq(mval, tk("tokrem"))):
                    al = evs(s, "PHRQ_calloc")
                    sp = evs(s, "snprintf")
                    if isrem:
                        nc["rem"] += 1
                        U.discharge_valid(r, "REM.rest_of_the_line_is_swallowed", hy3, tm.eq(i1, LEN + 1))
                        if ok(r, "REM.text_kept_in_a_fresh_buffer_of_the_token", len(al) == 1 and len(sp) == 1 and sp[0].args[0] is al[0].result and F(ex, s, "sp", "P", UUo(t)) is al[0].result, ""):
                            i_b = [x for x in tm.subterms(sp[0].args[4]) if x.op == "sym" and x.sort == "I"]
                            ib = i_b[0] if len(i_b) == 1 else None
                            good = ib is not None and sp[0].args[2].op == "str" and sp[0].args[2].args[0].strip('"') == "%.*s"
                            if ok(r, "REM.text_is_copied_with_a_length-limited_string_conversion", good, repr(sp[0].args[2:])):
                                U.discharge_valid(r, "REM.text_is_the_rest_of_the_line_behind_the_keyword", hy3, tm.and_(tm.eq(sp[0].args[4], INBUF + (ib - 1)), tm.eq(sp[0].args[3], LEN - ib + 1)))
                                capm = al[0].args[0] * al[0].args[1]
                                U.discharge_valid(r, "REM.buffer_holds_the_rest_of_the_line_and_its_terminator", hy3 + [tm.le(tm.num(1, "I"), ib), tm.le(ZI, LEN)], tm.and_(tm.le(sp[0].args[3] + 1, capm), tm.le(sp[0].args[1], capm)), kind="safety")
                    else:
                        nc["keyword"] += 1
                        ok(r, "keyword.consumes_the_word_only", not al and not sp and i1 is exit_value(s, LP["name"], "i"), repr(i1))
            else:
                U.discharge_valid(r, "variable.any_other_word_is_a_variable_token", hy2, tm.eq(kind, tk("tokvar")))
                vp = F(ex, s, "vp", "P", UUo(t))
                al = evs(s, "PHRQ_calloc")
                if not al:
                    nc["found"] += 1
                    v = local(info, s, "v")
                    ok(r, "variable.existing_variable_is_reused", vp is v, repr(vp))
                    U.discharge_valid(r, "variable.reused_only_when_its_name_equals_the_word", hy2, tm.and_(tm.not_(tm.eq(v, NULLP)), tm.eq(tm.app("call:strcmp", (tm.NULL, tm.app("fld:name", (v,), "P"), TOKBUF), "I"), ZI)))
                    ok(r, "variable.reuse_writes_no_variable_record", not [k for k in s.heap if k[0] == "f" and k[1] in ("varbase", "stringvar", "numdims", "rv", "sv", "val", "sval") and writes(s, k)], "", kind="frame")
                    continue
                v = al[0].result
                U.discharge_valid(r, "variable.created_only_when_no_variable_of_that_name_exists", hy2, tm.eq(exit_value(s, LP["lookup"], "v"), NULLP))
                cp = evs(s, "strcpy")
                ok(r, "variable.new_record_is_named_by_the_word", len(cp) == 1 and cp[0].args[0] is tm.app("fld:name", (v,), "P") and cp[0].args[1] is TOKBUF, "%s" % cp)
                ok(r, "variable.token_points_to_the_new_record", vp is v, repr(vp))
                vb0 = tm.select(base_arr(s, ("f", "varbase", "P")), THIS)
                U.discharge_valid(r, "variable.new_record_is_linked_at_the_front_of_the_variable_list", hy2, tm.and_(tm.eq(F(ex, s, "varbase", "P", THIS), v), tm.eq(F(ex, s, "next", "P", v), vb0)))
                U.discharge_valid(r, "variable.new_record_has_no_dimensions", hy2, tm.eq(F(ex, s, "numdims", "I", v), ZI))
                last = tm.select(mem1, TOKBUF, strlen_of(TOKBUF) - 1)
                isstr = F(ex, s, "stringvar", "B", v)
                dollar = tm.eq(last, tm.num(ord("$"), "I"))
                U.discharge_valid(r, "variable.string_variable_exactly_when_the_name_ends_in_$", hy2, tm.and_(tm.implies(isstr, dollar), tm.implies(dollar, isstr)) if not twin else isstr)
                for hy3, st_ in cases(hy2, isstr):
                    if st_:
                        nc["new_str"] += 1
                        U.discharge_valid(r, "variable.new_string_variable_holds_no_string", hy3, tm.and_(tm.eq(F(ex, s, "sv", "P", U1(v)), NULLP), tm.eq(F(ex, s, "sval", "P", U1(v)), tm.app("fld:sv", (U1(v),), "P"))))
                    else:
                        nc["new_num"] += 1
                        U.discharge_valid(r, "variable.new_numeric_variable_is_0", hy3, tm.and_(tm.eq(F(ex, s, "rv", "R", U0(v)), tm.num(0)), tm.eq(F(ex, s, "val", "P", U0(v)), tm.app("fld:rv", (U0(v),), "P"))))
    # ---- D: the search for an existing variable
    nl = 0
    for s in alive(snaps.get(LP["lookup"], [])):
        nl += 1
        ok(r, "lookup.starts_at_the_head_of_the_variable_list", local(info, s, "v") is F(ex, s, "varbase", "P", THIS), "")
    f3, ex3, its3, info3 = run_iter(Q, LP["lookup"], pctx())
    cond = loop_condition(LP["lookup"], pctx())
    V0 = tm.sym("L_v", "P")
    spec_c = tm.and_(tm.not_(tm.eq(V0, NULLP)), tm.not_(tm.eq(tm.app("call:strcmp", (tm.NULL, tm.app("fld:name", (V0,), "P"), TOKBUF), "I"), ZI)))
    ok(r, "lookup.goes_on_exactly_while_the_name_differs_from_the_whole_word", equivalent(cond, spec_c), repr(cond)[:300])
    v_ = tm.sym("iter_v", "P")
    for s in alive(its3, ("run", "cont")):
        nl += 1
        ok(r, "lookup.steps_to_the_next_variable_and_writes_nothing", local(info3, s, "v") is tm.select(entry_arr(ex3, s, ("f", "next", "P")), v_) and not U.iter_writes(s), "")
    reach(r, "reach.scan(entry,kept,dropped)", min(na, nb["kept"], nb["dropped"]))
    reach(r, "reach.behind_the_scan(keyword,REM,existing,new_numeric,new_string)", min(nc.values()))
    reach(r, "reach.lookup(entry,step)", nl, 2)
    r.assumptions += ["std::map model: find(key) != end() <=> the map has the key; item->second is the value mapped to it", "str_tolower lower-cases its argument in place; strcmp / strlen / strcpy are the C library's",
                      "the significant length is varnamelen of PBasic.h (documented 20 characters); the scan loop's summary between the entry and the code behind it is the invariant 0 <= j <= varnamelen proved on one iteration",
                      "allocation failure ends the run; the word is lower-cased BEFORE the lookup is not visible to the engine beyond `one call on the word on every path`"]
    return r


# ------------------------------------------------------------------------------------------------------------------ unit 3
def strtod_model(c):
    """strtod(start, &end): a value that is a function of the text at `start`, and an end pointer behind the characters it consumed"""
    def h(ex_, st, n, name, recv, args):
        start, endp = args[0], args[1]
        val = tm.app("strtod_value", (start,), "R")
        end = fresh("strtod_end", "P")
        e_ = SX.Event(name, recv, [start, endp], val, n)
        e_.snap = end
        st.events.append(e_)
        ex_.store(st, ex_.deref(st, endp), end, "P")
        return [(st, val)]
    c.handlers["strtod"] = h
    return c


def unit_number(twin=False):
    """A number: the conversion (strtod: integer, decimal and exponent forms) starts AT the digit or dot that began the token, the token's
    value is the value of that text, and the cursor moves behind exactly the characters the conversion consumed; when nothing is consumed
    (a lone `.`) the character becomes the error token and is passed over, so the tokenizer always advances."""
    fn = parse_fn()
    r = U.new_unit("C17.parse.number_is_the_value_of_its_decimal_text", PB, Q, fn)
    sw = the_switch(fn)
    n = {"number": 0, "nothing": 0}
    for chs in ("7", "."):
        def prep(ex, st, names, chs=chs):
            st.locals[names["ch"]] = tm.num(ord(chs), "I")
        f, ex, fin, info = run_stmts(Q, [sw], strtod_model(pctx()), prepare=prep)
        for s in alive(fin):
            cv = evs(s, "strtod")
            if not ok(r, "first[%s].one_conversion" % chs, len(cv) == 1, "%d" % len(cv)):
                continue
            start, end, val = cv[0].args[0], cv[0].snap, cv[0].result
            t = tok_of(info, s)
            hy = hyp(s)
            U.discharge_valid(r, "first[%s].conversion_starts_at_the_character_that_began_the_token" % chs, hy, tm.eq(start, INBUF + (I0 - 2) if not twin else INBUF + (I0 - 1)))
            kind = F(ex, s, "kind", "I", t)
            i1 = local(info, s, "i")
            for hy2, nothing in cases(hy, tm.eq(end, start)):
                if nothing:
                    n["nothing"] += 1
                    U.discharge_valid(r, "first[%s].nothing_converted:error_token_of_that_character" % chs, hy2, tm.and_(tm.eq(kind, tk("toksnerr")), tm.eq(F(ex, s, "snch", "I", UUo(t)), tm.num(ord(chs), "I"))))
                    U.discharge_valid(r, "first[%s].nothing_converted:the_character_is_passed_over" % chs, hy2, tm.eq(i1, I0))
                else:
                    n["number"] += 1
                    U.discharge_valid(r, "first[%s].number_token_with_the_converted_value" % chs, hy2, tm.and_(tm.eq(kind, tk("toknum")), tm.eq(F(ex, s, "num", "R", UUo(t)), val)))
                    U.discharge_valid(r, "first[%s].cursor_moves_behind_the_converted_text" % chs, hy2, tm.eq(i1, (I0 - 1) + tm.app("ptrdiff", (end, start), "I")))
            U.discharge_valid(r, "first[%s].bracket_depth_and_quote_count_unchanged" % chs, hy, tm.and_(tm.eq(local(info, s, "lp"), tm.sym("L_lp", "I")), tm.eq(local(info, s, "q"), tm.sym("L_q", "I"))))
    reach(r, "reach.number(converted,nothing_converted)", min(n.values()), 2)
    r.assumptions += ["strtod is the C library's: its value is the value of the decimal text at its argument, *endptr the first character it did not use", "library build (the GUI's copy of the text is outside)"]
    return r


# ------------------------------------------------------------------------------------------------------------------ unit 4
def unit_string(twin=False):
    """A string literal: everything between the opening quote (`"` or `'`) and the next SAME quote character is the string (other
    characters, including the other quote, are kept as they are); the string is copied into a buffer of the token that holds it and its
    terminator; the cursor moves behind the closing quote; a literal that is not closed inside the line leaves the quote count unbalanced
    (-> error, unit C17.parse.line_is_tokenized...)."""
    fn = parse_fn()
    r = U.new_unit("C17.parse.string_literal_is_the_text_between_matching_quotes", PB, Q, fn)
    sw = the_switch(fn)
    LP = parse_loops(fn)
    q0 = tm.sym("L_q", "I")
    n = {"entry": 0, "step": 0, "closed": 0, "open": 0}
    for quote in ('"', "'"):
        QC = tm.num(ord(quote), "I")
        tag = "dq" if quote == '"' else "sq"
        def prep(ex, st, names, quote=quote):
            st.locals[names["ch"]] = tm.num(ord(quote), "I")
        snaps = {}
        f, ex, fin, info = run_stmts(Q, [sw], pctx(), loop=summarize_by({}, snaps), prepare=prep)
        for s in alive(snaps.get(LP["string"], [])):
            n["entry"] += 1
            pv(r, "%s.scan_starts_behind_the_opening_quote_with_an_empty_string" % tag, s, tm.and_(tm.eq(local(info, s, "i"), I0), tm.eq(local(info, s, "begin"), I0), tm.eq(local(info, s, "j"), ZI), tm.eq(local(info, s, "len"), LEN)))
            pv(r, "%s.opening_quote_counted" % tag, s, tm.eq(local(info, s, "q"), q0 + 1))
        for s in alive(fin, ("run",)):
            if not quiet(s):
                continue
            ie, je = exit_value(s, LP["string"], "i"), exit_value(s, LP["string"], "j")
            mem0 = arr0(("m", "I"))
            inv = [tm.eq(je, ie - I0), tm.le(I0, ie), tm.le(ie, LEN + 1), tm.le(tm.num(1, "I"), I0), tm.eq(tm.select(mem0, INBUF, LEN), ZI), tm.eq(local(info, s, "len"), LEN)]
            hy = hyp(s) + inv
            t = tok_of(info, s)
            closed = tm.le(ie, LEN)
            U.discharge_valid(r, "%s.token_is_a_string" % tag, hy, tm.eq(F(ex, s, "kind", "I", t), tk("tokstr")))
            for hy2, cl in cases(hy, closed):
                if cl:
                    n["closed"] += 1
                    U.discharge_valid(r, "%s.scan_stopped_at_the_same_quote_character" % tag, hy2, tm.eq(char_at(mem0, ie), QC))
                    U.discharge_valid(r, "%s.closed_literal_leaves_the_quote_count_balanced" % tag, hy2, tm.eq(local(info, s, "q"), q0))
                else:
                    n["open"] += 1
                    U.discharge_valid(r, "%s.unclosed_literal_leaves_the_quote_count_unbalanced" % tag, hy2, tm.not_(tm.eq(local(info, s, "q"), q0)) if not twin else tm.eq(local(info, s, "q"), q0))
            U.discharge_valid(r, "%s.cursor_moves_behind_the_closing_quote" % tag, hy, tm.eq(local(info, s, "i"), ie + 1))
            al, cp = evs(s, "PHRQ_calloc"), evs(s, "strncpy")
            if not ok(r, "%s.one_buffer_one_copy" % tag, len(al) == 1 and len(cp) == 1, ""):
                continue
            buf = al[0].result
            capm = al[0].args[0] * al[0].args[1]
            ok(r, "%s.copy_goes_into_the_token's_own_fresh_buffer" % tag, cp[0].args[0] is buf and F(ex, s, "sp", "P", UUo(t)) is buf, "")
            U.discharge_valid(r, "%s.copied_text_is_what_stands_between_the_quotes" % tag, hy, tm.and_(tm.eq(cp[0].args[1], INBUF + (I0 - 1)), tm.eq(cp[0].args[2], ie - I0)))
            U.discharge_valid(r, "%s.buffer_holds_the_string_and_its_terminator" % tag, hy, tm.le(cp[0].args[2] + 1, capm), kind="safety")
            wt = [(ix, v) for ix, v in writes(s, ("m", "I")) if ix[0] is buf]
            if ok(r, "%s.string_terminated_once" % tag, len(wt) == 1 and wt[0][1] is ZI, "%s" % wt):
                U.discharge_valid(r, "%s.terminator_right_behind_the_copied_text_inside_the_buffer" % tag, hy, tm.and_(tm.eq(wt[0][0][1], ie - I0), tm.lt(wt[0][0][1], capm)), kind="safety")
            U.discharge_valid(r, "%s.recorded_buffer_size_is_the_allocated_size" % tag, hy, tm.eq(F(ex, s, "sp_sz", "I", t), capm))
            U.discharge_valid(r, "%s.bracket_depth_unchanged" % tag, hy, tm.eq(local(info, s, "lp"), tm.sym("L_lp", "I")))
    # one character of the scan
    cond = loop_condition(LP["string"], pctx())
    CH = tm.sym("L_ch", "I")
    spec_c = tm.and_(tm.le(I0, tm.sym("L_len", "I")), tm.not_(tm.eq(char_at(arr0(("m", "I")), I0), CH)))
    ok(r, "scan.goes_on_exactly_while_inside_the_line_and_not_at_the_opening_quote's_character", equivalent(cond, spec_c), repr(cond)[:300])
    f2, ex2, its, info2 = run_iter(Q, LP["string"], pctx())
    i_, j_ = tm.sym("iter_i", "I"), tm.sym("iter_j", "I")
    for s in alive(its, ("run", "cont")):
        n["step"] += 1
        U.discharge_valid(r, "scan.one_character_joins_the_string", hyp(s), tm.and_(tm.eq(local(info2, s, "i"), i_ + 1), tm.eq(local(info2, s, "j"), j_ + 1)))
        ok(r, "scan.writes_nothing", not U.iter_writes(s), "", kind="frame")
    reach(r, "reach.string(entry,step,closed,unclosed)", min(n.values()))
    r.assumptions += ["the scan loop's summary is its invariant j == i - begin, begin <= i <= strlen + 1 (entry and step obligations above); the line ends in its NUL; the opening quote is not the NUL",
                      "PHRQ_calloc(n, size) returns n*size zero bytes; strncpy(d, s, n) copies n characters", "allocation failure ends the run"]
    return r


# ------------------------------------------------------------------------------------------------------------------ unit 5
def unit_line(twin=False):
    """The whole line is tokenized, left to right: starting at the first character with an empty token list and zero counts, each pass
    skips blanks and tabs, makes ONE token record for the first other character and appends it BEHIND the tokens made so far (the first
    one becomes the head handed back), and the passes go on while the cursor is inside the line.  At the end an unbalanced quote count or
    bracket depth is an input error that stops the run (never a token list silently accepted)."""
    fn = parse_fn()
    r = U.new_unit("C17.parse.line_is_tokenized_left_to_right_and_unbalanced_quotes_or_brackets_are_an_error", PB, Q, fn)
    LP = parse_loops(fn)
    lps = loops_of(fn)
    body = A.body_of(fn).get("inner", [])
    outer = lps[LP["outer"]]
    k_outer = [i for i, x in enumerate(body) if x is outer]
    if len(k_outer) != 1:
        raise Undecided("parse: the token loop is not a top-level statement")
    k_outer = k_outer[0]
    LBUF = tm.sym("L_l_buf", "P")
    n = {"init": 0, "blank": 0, "first": 0, "later": 0, "none": 0, "err": 0, "fine": 0}
    # ---- before the loop
    f, ex, fin, info = run_stmts(Q, body[:k_outer], pctx())
    for s in alive(fin, ("run",)):
        n["init"] += 1
        pv(r, "init.empty_token_list", s, tm.and_(tm.eq(local(info, s, "tptr"), NULLP), tm.eq(tm.select(ex.heap_arr(s, ("m", "P")), LBUF, ZI), NULLP)))
        pv(r, "init.cursor_at_the_first_character_counts_zero", s, tm.and_(tm.eq(local(info, s, "i"), tm.num(1, "I")), tm.eq(local(info, s, "lp"), ZI), tm.eq(local(info, s, "q"), ZI)))
    # ---- the passes go on while the cursor is inside the line
    cond = loop_condition(LP["outer"], pctx())
    ok(r, "loop.goes_on_exactly_while_the_cursor_is_inside_the_line", equivalent(cond, tm.le(I0, LEN) if not twin else tm.lt(I0, LEN)), repr(cond)[:200])
    # ---- blanks
    obody = outer["inner"][0].get("inner", [])
    blank = lps[LP["blank"]]
    kb = [i for i, x in enumerate(obody) if x is blank]
    if len(kb) != 1:
        raise Undecided("parse: the blank scan is not a statement of the token loop")
    kb = kb[0]
    f1, ex1, fin1, info1 = run_stmts(Q, obody[:kb], pctx())
    for s in alive(fin1, ("run",)):
        ok(r, "blanks.scan_starts_as_if_a_blank_had_been_read", local(info1, s, "ch") is tm.num(32, "I") and local(info1, s, "i") is I0, "")
    cond = loop_condition(LP["blank"], pctx())
    CH = tm.sym("L_ch", "I")
    spec_c = tm.and_(tm.le(I0, LEN), tm.or_(tm.eq(CH, tm.num(32, "I")), tm.eq(CH, tm.num(9, "I"))))
    ok(r, "blanks.scan_goes_on_exactly_while_inside_the_line_and_the_character_read_was_a_blank_or_tab", equivalent(cond, spec_c), repr(cond)[:200])
    f2, ex2, its, info2 = run_iter(Q, LP["blank"], pctx())
    i_ = tm.sym("iter_i", "I")
    for s in alive(its, ("run", "cont")):
        n["blank"] += 1
        U.discharge_valid(r, "blanks.reads_the_character_at_the_cursor_and_moves_on_by_one", hyp(s), tm.and_(tm.eq(local(info2, s, "ch"), char_at(arr0(("m", "I")), i_)), tm.eq(local(info2, s, "i"), i_ + 1)))
        U.discharge_valid(r, "blanks.cursor_stays_at_most_one_behind_the_end", hyp(s), tm.le(local(info2, s, "i"), LEN + 1), kind="invariant")
        ok(r, "blanks.writes_nothing", not U.iter_writes(s), "", kind="frame")
    # ---- the token record
    holder = [x for x in obody[kb + 1:] if x.get("kind") == "IfStmt" and any(y.get("kind") == "SwitchStmt" for y in A.walk(x))]
    if len(holder) != 1 or len(obody[kb + 1:]) != 1:
        raise Undecided("parse: expected exactly the token-making if-statement behind the blank scan")
    sw = the_switch(fn)
    c = pctx()
    class ExecS(Exec2):
        def st_SwitchStmt(self, n_, st):
            if n_ is sw:
                st.status = "switch"
                return [st]
            return Exec2.st_SwitchStmt(self, n_, st)
    c.loop = lambda ex_, st, n_, o: ex_.havoc_loop(n_, st)
    ex3, st3, names3 = arbitrary_state(fn, c)
    ex3.__class__ = ExecS
    fin3 = ex3.exec(holder[0], [st3])
    info3 = {"names": names3}
    TP = tm.sym("L_tptr", "P")
    for s in alive(fin3):
        if not quiet(s):
            continue
        hy = hyp(s)
        al = evs(s, "PHRQ_calloc")
        if s.status == "run":
            n["none"] += 1
            U.discharge_valid(r, "token.none_is_made_only_for_a_blank", hy, tm.eq(tm.sym("L_ch", "I"), tm.num(32, "I")))
            ok(r, "token.nothing_written_when_none_is_made", not al and not any(writes(s, k) for k in s.heap), "", kind="frame")
            continue
        if not ok(r, "token.switch_reached_with_one_fresh_record", s.status == "switch" and len(al) == 1 and local(info3, s, "t") is al[0].result, s.status):
            continue
        t = al[0].result
        U.discharge_valid(r, "token.made_for_every_character_that_is_not_a_blank", hy, tm.not_(tm.eq(tm.sym("L_ch", "I"), tm.num(32, "I"))))
        head = tm.select(ex3.heap_arr(s, ("m", "P")), LBUF, ZI)
        head0 = tm.select(arr0(("m", "P")), LBUF, ZI)
        for hy2, first in cases(hy, tm.eq(TP, NULLP)):
            if first:
                n["first"] += 1
                U.discharge_valid(r, "token.first_token_becomes_the_head_of_the_list", hy2, tm.eq(head, t))
            else:
                n["later"] += 1
                U.discharge_valid(r, "token.later_token_is_appended_behind_the_previous_one;head_kept", hy2, tm.and_(tm.eq(F(ex3, s, "next", "P", TP), t), tm.eq(head, head0)))
        U.discharge_valid(r, "token.is_the_last_of_the_list_and_the_new_tail", hy, tm.and_(tm.eq(F(ex3, s, "next", "P", t), NULLP), tm.eq(local(info3, s, "tptr"), t)))
        ok(r, "token.cursor_and_counts_untouched_before_the_switch", local(info3, s, "i") is I0 and local(info3, s, "lp") is tm.sym("L_lp", "I") and local(info3, s, "q") is tm.sym("L_q", "I") and local(info3, s, "ch") is tm.sym("L_ch", "I"), "")
    # ---- behind the loop
    f4, ex4, fin4, info4 = run_stmts(Q, body[k_outer + 1:], pctx())
    q0, lp0 = tm.sym("L_q", "I"), tm.sym("L_lp", "I")
    balanced = tm.and_(tm.eq(q0, ZI), tm.eq(lp0, ZI))
    for s in alive_lib(fin4):
        hy = hyp(s)
        if s.status == "throw":
            n["err"] += 1
            U.discharge_valid(r, "end.error_only_for_unbalanced_quotes_or_brackets", hy, tm.not_(balanced))
            em = evs(s, "error_msg")
            ok(r, "end.error_is_an_input_error_that_stops_the_run", len(em) == 1, "%s" % em)
        else:
            n["fine"] += 1
            U.discharge_valid(r, "end.token_list_accepted_only_with_balanced_quotes_and_brackets", hy, balanced)
            ok(r, "end.acceptance_writes_nothing", not any(writes(s, k) for k in s.heap), "", kind="frame")
    reach(r, "reach.line(init,blank,first,later,none,error,accepted)", min(n.values()))
    r.assumptions += ["library build (phreeqci_gui false): error_msg(text, STOP) ends the run", "strlen(l_inbuf) is the length of the line", "the switch that fills the token is under the units C17.parse.every_character... / name / number / string",
                      "the blank scan is summarised by `reads the character at the cursor, moves on by one`; the last character read is the one handed to the switch"]
    return r


UNITS = [
    ("C17.parse.every_character_starts_the_token_of_its_class", unit_characters),
    ("C17.parse.name_is_a_keyword_as_a_whole_lowercased_word_else_a_variable", unit_name),
    ("C17.parse.number_is_the_value_of_its_decimal_text", unit_number),
    ("C17.parse.string_literal_is_the_text_between_matching_quotes", unit_string),
    ("C17.parse.line_is_tokenized_left_to_right_and_unbalanced_quotes_or_brackets_are_an_error", unit_line),
]
