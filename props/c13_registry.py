"""C13: the instance registry (ids are never reused; GetInstance finds exactly the live instance) and the plain switches as a
simple store (what the setter writes is what the getter reads, nothing else changes)."""
import glob, re, os
from props.common import *
from vf.core import FAILED, DISCHARGED, UNDECIDED, REPO

IPQ = "src/IPhreeqc.cpp"
LIB = "src/IPhreeqcLib.cpp"


def unit_registry(twin=False):
    fn = A.find_function(IPQ, "IPhreeqc::IPhreeqc")
    r = U.new_unit("C13.registry.ids_never_reused", IPQ, "IPhreeqc::IPhreeqc", fn)
    # (1) global frame: the id counter is written nowhere but by the constructor's post-increment (and its static initialiser = 0)
    sites = []
    for path in sorted(glob.glob(os.path.join(REPO, "src", "*.cpp")) + glob.glob(os.path.join(REPO, "src", "*.h*")) + glob.glob(os.path.join(REPO, "src", "*.F90")) ):
        for k, line in enumerate(open(path, encoding="latin1").read().split("\n")):
            code = A.squeeze(line)                      # comments and white space do not count
            if "InstancesIndex" in code:
                sites.append((os.path.relpath(path, REPO), k + 1, code))
    allowed = {"staticsize_tInstancesIndex;", "size_tIPhreeqc::InstancesIndex=0;", "this->Index=IPhreeqc::InstancesIndex++;"}
    bad = [s for s in sites if s[2] not in allowed]
    r.add("counter.written_only_by_constructor_increment", DISCHARGED if not bad and len(sites) == 3 else FAILED, "syntactic", 0,
          "occurrences: %r" % (sites,) if bad or len(sites) != 3 else "3 occurrences: declaration, = 0, Index = counter++", kind="frame")
    # (2) constructor: Index takes the old counter value, the pair (Index, this) is inserted, all inside the lock
    body = A.body_of(fn).get("inner", [])
    names = []
    for x in body:
        t = text_of(IPQ, x)
        if t.startswith("mutex_lock"): names.append("lock")
        elif t.startswith("mutex_unlock"): names.append("unlock")
        elif "InstancesIndex++" in t: names.append("take_id")
        elif "Instances.insert(" in t: names.append("insert")
    r.add("constructor.lock;take_id;insert;unlock", DISCHARGED if names == ["lock", "take_id", "insert", "unlock"] else FAILED, "syntactic", 0, repr(names), kind="trace")
    ins = [x for x in body if "Instances.insert(" in text_of(IPQ, x)]
    decl = [x for x in body if x.get("kind") == "DeclStmt" and "value_type" in text_of(IPQ, x)]
    okpair = bool(decl) and text_of(IPQ, decl[0]).endswith("instance(this->Index,this);") and bool(ins) and text_of(IPQ, ins[0]).endswith("Instances.insert(instance)")
    r.add("constructor.inserts_(Index,this)", DISCHARGED if okpair else FAILED, "syntactic", 0, text_of(IPQ, decl[0])[-60:] if decl else "", kind="post")
    # (3) destructor: erases the entry found under its own Index, inside the lock, and nothing else of the registry
    fd = A.find_function(IPQ, "IPhreeqc::~IPhreeqc")
    bd = A.body_of(fd).get("inner", [])
    seq = []
    for x in bd:
        t = text_of(IPQ, x)
        if t.startswith("mutex_lock"): seq.append("lock")
        elif t.startswith("mutex_unlock"): seq.append("unlock")
        elif "Instances.find(this->Index)" in t: seq.append("find_own")
        elif "Instances" in t and "erase(it)" in t and t.startswith("if(it!=IPhreeqc::Instances.end())"): seq.append("erase_found")
        elif "Instances" in t: seq.append("OTHER:" + t[:60])
    r.add("destructor.lock;find_own;erase_found;unlock", DISCHARGED if seq == ["lock", "find_own", "erase_found", "unlock"] else FAILED, "syntactic", 0, repr(seq), kind="trace")
    # (4) GetInstance: the instance stored under id, or null
    c = ctx(); c.pure = AllPure()
    fg, ex, fin, info = U.run_function(LIB, "IPhreeqcLib::GetInstance", ctx=c)
    n = 0
    G = tm.sym("&G.Instances", "P"); idt = tm.sym("P0_id", "I")
    for s in [s for s in fin if s.status == "ret"]:
        n += 1
        has = [t for t in tm.subterms(tm.and_(*s.pc)) if t.op == "select" and t.args[0].op == "sym" and "#mhas" in t.args[0].args[0]]
        if len(has) != 1:
            r.add("GetInstance.decides_on_membership_of_id[path %d]" % n, FAILED, "symex", 0, repr(s.pc)[:200]); continue
        key_ok = idt in tm.subterms(has[0]) and "Instances" in repr(has[0])
        r.add("GetInstance.decides_on_membership_of_id[path %d]" % n, DISCHARGED if key_ok else FAILED, "symex", 0, repr(has[0])[:160], kind="post")
        present = B.z3_prove(list(s.pc), has[0])[0] == "proved"
        if present:
            okr = s.ret.op == "select" and "#mval" in repr(s.ret.args[0]) and idt in tm.subterms(s.ret) and "Instances" in repr(s.ret)
            r.add("GetInstance.live_id_returns_the_stored_instance", DISCHARGED if okr and not twin else FAILED, "symex", 0, repr(s.ret)[:160], kind="post")
        else:
            r.add("GetInstance.dead_id_returns_null", DISCHARGED if tm.isnum(s.ret) and s.ret.args[0] == 0 else FAILED, "symex", 0, repr(s.ret)[:80], kind="post")
        locks = [e.name.split("::")[-1] for e in s.events if "mutex" in e.name]
        r.add("GetInstance.lock_bracket[path %d]" % n, DISCHARGED if locks in (["mutex_lock", "mutex_unlock"], ["pthread_mutex_lock", "pthread_mutex_unlock"]) else FAILED, "trace", 0, repr(locks), kind="trace")
        r.add("GetInstance.changes_nothing[path %d]" % n, DISCHARGED if not any(writes(s, k) for k in s.heap) else FAILED, "symex", 0, "", kind="frame")
    r.add("reach.GetInstance", DISCHARGED if n >= 1 else UNDECIDED, "symex", 0, "%d" % n, kind="vacuity")
    # (5) Create returns the new instance's Index; Destroy deletes only a live instance and reports BADINSTANCE otherwise
    fc = A.find_function(LIB, "IPhreeqcLib::CreateIPhreeqc")
    tc = text_of(LIB, fc)
    r.add("Create.returns_Index_of_new_instance", DISCHARGED if "IPhreeqcPtr=newIPhreeqc;n=(int)IPhreeqcPtr->Index;" in tc and tc.rstrip("}").endswith("returnn;") else FAILED, "syntactic", 0, "", kind="post")
    fdx = A.find_function(LIB, "IPhreeqcLib::DestroyIPhreeqc")
    td = text_of(LIB, fdx)
    ok = "IPQ_RESULTretval=IPQ_BADINSTANCE;" in td and "if(id>=0){if(IPhreeqc*ptr=IPhreeqcLib::GetInstance(id)){deleteptr;retval=IPQ_OK;}}returnretval;" in td
    r.add("Destroy.deletes_live_instance_else_BADINSTANCE", DISCHARGED if ok else FAILED, "syntactic", 0, "", kind="post")
    r.proved_kind = "structural"
    r.assumptions += ["size_t counter does not wrap within a process", "std::map insert/find/erase semantics", "thread interleavings are out of scope (C06 n/a); only lock bracketing is checked"]
    return r


SWITCHES = ["DumpFileOn", "DumpStringOn", "ErrorFileOn", "ErrorStringOn", "LogFileOn", "LogStringOn", "OutputFileOn", "OutputStringOn"]


def unit_switch_store(twin=False):
    r = U.new_unit("C13.switches.simple_store", IPQ, "IPhreeqc::SetOutputFileOn", A.find_function(IPQ, "IPhreeqc::SetOutputFileOn"))
    for sw in SWITCHES:
        fs, ex, fin, info = U.run_function(IPQ, "IPhreeqc::Set" + sw, ctx=ctx())
        fin = [s for s in fin if s.status in ("ret", "run")]
        if len(fin) != 1:
            r.add("%s.setter_single_path" % sw, FAILED, "symex", 0, "%d paths" % len(fin)); continue
        s = fin[0]
        wr = [(k, ix, v) for k in s.heap for ix, v in writes(s, k)]
        if len(wr) != 1 or wr[0][0][0] != "f" or wr[0][1] != (THIS,):
            r.add("%s.setter_writes_one_field_of_this" % sw, FAILED, "symex", 0, repr(wr)[:200], kind="frame"); continue
        field = wr[0][0][1]
        arg = tm.sym("P0_bValue", wr[0][2].sort if hasattr(wr[0][2], "sort") else "I")
        okv = tm.sym("P0_bValue", "I") in tm.subterms(wr[0][2]) or tm.sym("P0_bValue", "B") in tm.subterms(wr[0][2])
        r.add("%s.setter_stores_its_argument" % sw, DISCHARGED if okv and not s.events else FAILED, "symex", 0, "%s <- %r" % (field, wr[0][2]), kind="post")
        fg, ex2, fin2, info2 = U.run_function(IPQ, "IPhreeqc::Get" + sw, ctx=ctx())
        fin2 = [x for x in fin2 if x.status == "ret"]
        if len(fin2) != 1:
            r.add("%s.getter_single_path" % sw, FAILED, "symex", 0, ""); continue
        g = fin2[0]
        rd = [t for t in tm.subterms(g.ret) if t.op == "select" and t.args[0].op == "sym"]
        gfield = rd[0].args[0].args[0].split(".")[1].split(":")[0] if rd else None
        if twin and sw == "DumpFileOn":
            gfield = "DumpStringOn"
        r.add("%s.getter_reads_what_setter_wrote" % sw, DISCHARGED if gfield == field and not any(writes(g, k) for k in g.heap) else FAILED, "symex", 0, "setter field %s, getter field %s" % (field, gfield), kind="post")
    r.assumptions += ["per-user-number selected-output switches are under C05/C13 wrapper units", "bool/int coercions of the argument are value-preserving"]
    return r


def unit_default_file_names(twin=False):
    """Default selected-output file names embed the user number they belong to and the instance id: wherever a default name is
    stored, `SelectedOutputFileNameMap[k] = sel_file_name(a)` has a == k; sel_file_name / create_file_name build
    selected_<n>.<id>.out and <prefix>.<id>.<suffix>."""
    import re
    r = U.new_unit("C13.file_names.defaults_embed_user_number_and_instance_id", IPQ, "IPhreeqc::punch_open", A.find_function(IPQ, "IPhreeqc::punch_open"), kind="structural")
    txt = A.squeeze(src(IPQ).decode("latin1"))
    sites = re.findall(r"this->SelectedOutputFileNameMap\[([^\]]+)\]=this->sel_file_name\(([^\)]+)\);", txt)
    for k, (key, arg) in enumerate(sites):
        ok = key == arg and not (twin and k == 0)
        r.add("site%d.name_for_user_number_%s_built_from_%s" % (k, key, arg), DISCHARGED if ok else FAILED, "syntactic", 0, "")
    r.add("reach.sites", DISCHARGED if len(sites) >= 2 else UNDECIDED, "syntactic", 0, "%d" % len(sites), kind="vacuity")
    fs = text_of(IPQ, A.find_function(IPQ, "IPhreeqc::sel_file_name"))
    fc = text_of(IPQ, A.find_function(IPQ, "IPhreeqc::create_file_name"))
    r.add("sel_file_name==selected_<n>.<Index>.out", DISCHARGED if 'oss<<"selected_"<<n_user<<"."<<this->Index<<".out";' in fs else FAILED, "syntactic", 0, "", kind="post")
    r.add("create_file_name==<prefix>.<Index>.<suffix>", DISCHARGED if 'oss<<prefix<<"."<<this->Index<<"."<<suffix;' in fc else FAILED, "syntactic", 0, "", kind="post")
    return r
