"""C01, second extension (helper-written): the database-reading and tidy side.

What a database author relies on: a keyword line `-log_k`, `-delta_h`, `-analytical_expression`, `-gamma`, ... under SOLUTION_SPECIES / PHASES /
NAMED_EXPRESSIONS stores its value(s) in exactly that member of the CURRENT record (the one defined by the last reaction line) which the model later
reads (k_calc: logk[logK_T0], logk[delta_h], logk[T_A1..T_A6]; gammas: dha, dhb, gflag; ...), and nowhere else; the reaction line defines the
species on its left-hand side; tidy selects / adds the named expressions with the right arrays, links master species and checks the balance of
every equation unless -no_check was given.  Engine B (astvc)."""
from props.c01_ext_util import *
from vf import core
from vf.core import FAILED, DISCHARGED, UNDECIDED, Undecided

READ = "src/phreeqcpp/read.cpp"
TIDY = "src/phreeqcpp/tidy.cpp"
PARSE = "src/phreeqcpp/parse.cpp"
GS = "global_structures.h"
LOGK_ENUMS = ("logK_T0", "delta_h", "T_A1", "T_A2", "T_A3", "T_A4", "T_A5", "T_A6", "delta_v", "vm_tc", "vm0", "vma1", "MAX_LOG_K_INDICES")

UNITS = []


# ------------------------------------------------------------------------------------------------------------------------------------------
# generic pieces
# ------------------------------------------------------------------------------------------------------------------------------------------
def _short(e):
    return e.name.split("::")[-1]


def _strval(t):
    """python string of a string-literal term, else None"""
    if t is None or isinstance(t, tuple):
        return None
    if t.op == "str":
        v = t.args[0]
        return v[1:-1] if len(v) >= 2 and v[0] == '"' and v[-1] == '"' else v
    rp = repr(t)
    if len(rp) >= 2 and rp[0] == '"' and rp[-1] == '"':
        return rp[1:-1]
    return None


def _same(hy, a, b):
    """two address / value terms denote the same thing (identity, else z3 under the path condition)"""
    if a is None or b is None or isinstance(a, tuple) or isinstance(b, tuple):
        return False
    if a is b:
        return True
    if a.sort != b.sort:
        return False
    try:
        return proved(hy, tm.eq(a, b))
    except Exception:
        return False


def _slot(rec, field, k=0):
    """&rec->field[k]"""
    base = tm.app("fld:" + field, (rec,), "P")
    return base if k == 0 else base + tm.num(k, "I")


def _isnum(t, v):
    return t is not None and not isinstance(t, tuple) and ((tm.isnum(t) and t.args[0] == v) or (v in (0, 1) and t is (tm.TRUE if v else tm.FALSE)))


def _decided_int(hy, term, lo, hi):
    """the integer in lo..hi the path condition pins `term` to (None when it does not pin it to one value of the range)"""
    if tm.isnum(term):
        return int(term.args[0])
    for p in hy:
        if p.op == "==" or "==" in repr(p)[:400]:
            for a in getattr(p, "args", ()):
                if not isinstance(a, tuple) and tm.isnum(a):
                    j = int(a.args[0])
                    if lo <= j <= hi and proved(hy, tm.eq(term, tm.num(j, "I"))):
                        return j
    return None


def _mentions(t, x):
    if t is None or isinstance(t, tuple):
        return False
    return any(u is x for u in tm.subterms(t))


def _rec_writes(s, skip_vec_internals=True):
    """[(field, object, value)] stores of the iteration into records other than `this` (std::vector bookkeeping of element blocks left out)"""
    out = []
    for key, ix, v in U.iter_writes(s):
        if key[0] != "f":
            continue
        obj = ix[0] if isinstance(ix, tuple) else ix
        if obj is THIS:
            continue
        out.append((key[1], obj, v))
    return out


def _this_writes(s):
    return [(key[1], v) for key, ix, v in U.iter_writes(s) if key[0] == "f" and (ix[0] if isinstance(ix, tuple) else ix) is THIS]


QUIET = ("get_option", "sformatf", "error_msg", "warning_msg", "iter_begin", "output_msg", "c_str")


def _sig_events(s):
    return [e for e in U.iter_events(s) if _short(e) not in QUIET]


def _fmt_count(t):
    v = _strval(t)
    return None if v is None else v.count("%lf") + v.count("%le") + v.count("%lg")


def _nc_ok(t, addr):
    """t is `*addr` (the current text position the option reader left in next_char)"""
    if t is None or isinstance(t, tuple) or t.op != "select":
        return False
    ix = t.args[1]
    return isinstance(ix, tuple) and len(ix) == 2 and ix[0] is addr and _isnum(ix[1], 0)


class OptRun(object):
    """one keyword-block reader (read_species / read_phases / read_named_logk) executed as an iteration contract of its option loop"""

    def __init__(self, q, recvar, snapshot=None, skip=(), functional=(), enums=()):
        self.q, self.recvar = q, recvar
        c = ctx(enums_from=GS, enums=LOGK_ENUMS + tuple(enums), functional=functional)
        c.snapshot = dict(snapshot or {})
        self.c = c
        fn0 = A.find_function(READ, q)
        self.k = the_loop(fn0, READ, "get_option(", what="option loop of %s" % q)
        modes = {self.k: "iter"}
        for needle in skip:            # inner loops whose effect is stated by their own iteration contract (see the unit that asks for it)
            modes[the_loop(fn0, READ, needle, what="inner loop of %s" % q)] = "skip"
        self.fn, self.ex, self.fin, self.info = U.run_function(READ, q, modes=modes, ctx=c)
        drop_head(q, self.k)                # `for (;;)` left through return_value: not a traversal
        ent = self.info["entry"].get(self.k, [])
        if not ent:
            raise Undecided("option loop of %s not reached" % q)
        self.entry = ent[0]
        self.E = c.enum_values
        self.paths = []
        self.opt_addr = None
        self.count = None
        for s in lives(self.info["iter"].get(self.k, [])):
            go = [e for e in U.iter_events(s) if _short(e) == "get_option"]
            if len(go) != 1:
                continue
            self.opt_addr, self.count, self.nc_addr = go[0].args[0], go[0].args[1], go[0].args[2]
            # inductive hypothesis of the loop: a line that is not an option is a reaction line (opt_save == OPTION_DEFAULT at the head)
            hy = list(s.pc)
            osv = tm.sym("iter_opt_save", "I")
            if any(_mentions(p, osv) for p in hy):
                hy = hy + [tm.eq(osv, tm.num(-4, "I"))]
                if not sat(hy):
                    continue
            s.hy2 = hy
            s.go = go[0]
            self.paths.append(s)
        # the keyword list as the loop sees it
        self.names = []
        if self.opt_addr is not None:
            arr = self.ex.heap_arr(self.entry, ("m", "P"))
            for k_ in range(200):
                v = _strval(tm.select(arr, self.opt_addr, tm.num(k_, "I")))
                if v is None:
                    break
                self.names.append(v)

    def resolve(self, kw):
        """index get_option/find_option gives for `-kw`: the FIRST list entry that starts with kw (read.cpp find_option, exact == FALSE)"""
        n = self.nlist()
        for i, nm in enumerate(self.names[:n]):
            if nm.startswith(kw):
                return i
        return None

    def nlist(self):
        return int(self.count.args[0]) if self.count is not None and tm.isnum(self.count) else len(self.names)

    def rec(self, s):
        return local(self.info, s, self.recvar)

    def opt(self, s):
        return local(self.info, s, "opt")

    def classify(self):
        """{j: [paths]} by the option index the path condition pins; paths of the switch's fall-through under key None"""
        out = {}
        for s in self.paths:
            j = _decided_int(s.hy2, self.opt(s), -5, len(self.names) + 2)
            out.setdefault(j, []).append(s)
        return out


def _check_common(r, R, tag=""):
    """facts every option loop owes: the list and its count agree, the loop-carried state, unknown input is reported"""
    n = len(R.names)
    put(r, "list.count_passed_to_get_option==number_of_keywords", R.count is not None and tm.isnum(R.count) and int(R.count.args[0]) == n and n > 0,
        "count %r, %d keywords %r" % (R.count, n, R.names), kind="establishment")
    e0 = R.entry
    put(r, "entry.no_current_record_and_no_pending_option", _isnum(local(R.info, e0, R.recvar), 0) and _isnum(local(R.info, e0, "opt_save"), -4),
        "%s=%r opt_save=%r" % (R.recvar, local(R.info, e0, R.recvar), local(R.info, e0, "opt_save")), kind="establishment")
    bad = [s for s in R.paths if s.status in ("run", "cont") and not _isnum(local(R.info, s, "opt_save"), -4)]
    put(r, "every_iteration_leaves_opt_save==OPTION_DEFAULT(next_plain_line_is_a_reaction)", not bad, "%d paths leave %r" % (len(bad), [local(R.info, s, "opt_save") for s in bad[:3]]), kind="preservation")


def _null_or_effect(r, R, name, s, rec, report_null):
    """the record pointer is tested before anything else: returns True when the path has a current record"""
    hy = s.hy2
    if proved(hy, isnull(rec)):
        ok = not _rec_writes(s) and not _sig_events(s)
        if report_null:
            ok = ok and any(_short(e) == "error_msg" for e in U.iter_events(s)) and any(f == "input_error" for f, v in _this_writes(s))
        put(r, "%s.no_current_record.%s" % (name, "reported_and_nothing_stored" if report_null else "nothing_stored"), ok,
            "writes %r events %r" % (_rec_writes(s)[:3], [_short(e) for e in U.iter_events(s)]))
        return False
    if not proved(hy, nonnull(rec)):
        put(r, "%s.record_pointer_tested_before_use" % name, False, "path neither knows the record present nor absent: %r" % (hy[:4],))
        return False
    return True


# ---- effect checkers: each returns (ok, detail); `s` a path with a current record `rec`
def _eff_flag(field, value):
    def chk(R, s, rec, twin):
        w = _rec_writes(s)
        ok = len(w) == 1 and w[0][0] == field and w[0][1] is rec and _isnum(w[0][2], value) and not _sig_events(s)
        return ok, "writes %r events %r" % (w, [_short(e) for e in _sig_events(s)])
    return chk


def _eff_call(callee, argspec, then=None):
    """exactly one significant call: callee(next_char, addresses inside the current record...), nothing else stored; `then`: a second call
    then(current record) that must FOLLOW it (NAMED_EXPRESSIONS: logk_copy2orig makes the value visible to tidy_logk)"""
    def chk(R, s, rec, twin):
        ev = _sig_events(s)
        w = [x for x in _rec_writes(s) if not x[0].startswith("#")]
        if then is not None:
            if len(ev) != 2 or _short(ev[1]) != then or len(ev[1].args) != 1 or ev[1].args[0] is not rec:
                return False, "calls %r: expected %s then %s(current record)" % ([(_short(e), e.args) for e in ev], callee, then)
            ev = ev[:1]
        if len(ev) != 1 or _short(ev[0]) != callee:
            return False, "calls %r" % ([_short(e) for e in ev],)
        want = argspec(R, rec)
        a = ev[0].args
        ok = len(a) == 1 + len(want) and _nc_ok(a[0], R.nc_addr) and all(_same(s.hy2, x, y) for x, y in zip(a[1:], want))
        okw = all(x[1] is rec for x in w) and all(x[0] in argspec.also_writes for x in w)
        return ok and okw, "args %r want %r; record writes %r" % (a, want, w)
    return chk


def _args(f, also_writes=()):
    f.also_writes = tuple(also_writes)
    return f


def _eff_gamma(gflag, fields):
    def chk(R, s, rec, twin):
        w = _rec_writes(s)
        ev = _sig_events(s)
        okw = len(w) == 1 and w[0][0] == "gflag" and w[0][1] is rec and _isnum(w[0][2], gflag)
        if not fields:
            return okw and not ev, "writes %r events %r" % (w, [_short(e) for e in ev])
        if len(ev) != 1 or _short(ev[0]) != "sscanf":
            return False, "calls %r" % ([_short(e) for e in ev],)
        a = ev[0].args
        want = [tm.app("fld:" + f, (rec,), "P") for f in fields]
        ok = len(a) == 2 + len(want) and _nc_ok(a[0], R.nc_addr) and _fmt_count(a[1]) == len(want) and all(_same(s.hy2, x, y) for x, y in zip(a[2:], want))
        return okw and ok, "writes %r sscanf%r" % (w, a)
    return chk


def _eff_mole_balance(R, s, rec, twin):
    """-mole_balance F: the text F is kept, and the species' alternative element list is the parse of F alone, coefficient 1"""
    ev = _sig_events(s)
    names = [_short(e) for e in ev]
    def one(n):
        x = [e for e in ev if _short(e) == n]
        return x[0] if len(x) == 1 else None
    ct, hs, gs, vs, asg = one("copy_token"), one("string_hsave"), one("get_secondary_in_species"), one("elt_list_vsave"), one("operator=")
    if None in (ct, hs, gs, vs, asg):
        return False, "calls %r" % (names,)
    tokbuf = ct.args[0]
    w = dict(((f, o), v) for f, o, v in _rec_writes(s))
    ok_tok = ct.args[1] is R.nc_addr and hs.args[0] is tokbuf
    ok_mb = w.get(("mole_balance", rec)) is hs.result
    # the parser is pointed at the token and starts from an empty work list with no open parenthesis
    ptr = gs.args[0]
    cur = tm.select(R.ex.heap_arr(s, ("m", "P")), ptr, tm.num(0, "I"))
    ok_parse = _same(s.hy2, cur, tokbuf) or cur is tokbuf
    snap = gs.snap or {}
    ok_empty = _isnum(snap.get("count_elts"), 0) and _isnum(snap.get("paren_count"), 0)
    ok_coef = _isnum(gs.args[1], 1)
    ok_store = asg.recv is tm.app("fld:next_secondary", (rec,), "P") and asg.args[0] is vs.result
    order = [ev.index(x) for x in (ct, gs, vs, asg)]
    ok_order = order == sorted(order)
    other = [(f, o) for (f, o) in w if not (f == "mole_balance" and o is rec) and not f.startswith("#")]
    ok = ok_tok and ok_mb and ok_parse and ok_empty and ok_coef and ok_store and ok_order and not other
    return ok, "token %s text_kept %s parse_of_token %s empty_worklist %s coef1 %s stored %s order %s other %r" % (ok_tok, ok_mb, ok_parse, ok_empty, ok_coef, ok_store, ok_order, other)


def _eff_add_logk(constant):
    """-add_logk NAME [c] appends (NAME, c | 1) to the record's list of named expressions; -add_constant c appends ("XconstantX", c)"""
    def chk(R, s, rec, twin):
        ex = R.ex
        vec = tm.app("fld:add_logk", (rec,), "P")
        ev = _sig_events(s)
        rs = [e for e in ev if _short(e) == "vector.resize"]
        sc = [e for e in ev if _short(e) == "sscanf"]
        hsv = [e for e in ev if _short(e) == "string_hsave"]
        if len(rs) != 1 or len(sc) > 1:
            return False, "calls %r" % ([_short(e) for e in ev],)
        old = rs[0].args[0]
        grown = _same(s.hy2, rs[0].args[1], old + tm.num(1, "I"))
        vsz = [(o, v) for f, o, v in _rec_writes(s) if f == "#vsize" and o is vec]
        ok_grow = grown and len(vsz) == 1 and _same(s.hy2, vsz[0][1], old + tm.num(1, "I"))
        elem = None
        w = [(f, o, v) for f, o, v in _rec_writes(s) if not f.startswith("#")]
        ok_place = all(o.op == "+" and _same(s.hy2, o.args[1], old) and "#vdata" in repr(o.args[0]) and _mentions(o.args[0], vec) for f, o, v in w)
        d = dict((f, v) for f, o, v in w)
        failed_error = any(_short(e) == "error_msg" for e in U.iter_events(s))
        if failed_error:
            # the line is rejected (counted as an input error): whatever was appended is never used
            return any(f == "input_error" for f, v in _this_writes(s)), "error path"
        if constant:
            ok_name = len(hsv) == 1 and _strval(hsv[0].args[0]) == "XconstantX" and d.get("name") is hsv[0].result
            ok_coef = len(sc) == 1 and len(sc[0].args) == 3 and _nc_ok(sc[0].args[0], R.nc_addr) and _fmt_count(sc[0].args[1]) == 1 and sc[0].args[2].op == "app" and sc[0].args[2].args[0] == "fld:coef" \
                and proved(s.hy2, tm.lt(tm.num(0, "I"), sc[0].result)) and "coef" not in d
        else:
            ct = [e for e in ev if _short(e) == "copy_token"]
            ok_name = len(ct) == 1 and ct[0].args[1] is R.nc_addr and len(hsv) == 1 and hsv[0].args[0] is ct[0].args[0] and d.get("name") is hsv[0].result
            ok_coef = len(sc) == 1 and len(sc[0].args) == 3 and _nc_ok(sc[0].args[0], R.nc_addr) and _fmt_count(sc[0].args[1]) == 1 and sc[0].args[2].op == "app" and sc[0].args[2].args[0] == "fld:coef"
            if ok_coef:
                # no number on the line <=> coefficient 1
                for hyc, none in cases(s.hy2, tm.le(sc[0].result, tm.num(0, "I"))):
                    if none:
                        ok_coef = ok_coef and _isnum(d.get("coef"), 1 if not twin else 0)
                    else:
                        ok_coef = ok_coef and "coef" not in d
        # the scanned coefficient lands in the element that got the name
        ok_same_elem = True
        if len(sc) == 1 and sc[0].args[2].op == "app":
            tgt = sc[0].args[2].args[1]
            ok_same_elem = all(_same(s.hy2, o, tgt) for f, o, v in w)
        ok = ok_grow and ok_place and ok_name and ok_coef and ok_same_elem and set(d) <= {"name", "coef"}
        return ok, "grown %s new_last_element %s name %s coef %s same_element %s fields %r" % (ok_grow, ok_place, ok_name, ok_coef, ok_same_elem, sorted(d))
    return chk


def _run_options(r, R, spec, report_null, twin):
    """spec: [(keywords, label, checker)]"""
    _check_common(r, R)
    by = R.classify()
    n = len(R.names)
    seen = 0
    covered = set()
    for kws, label, chk in spec:
        for kw in kws:
            j = R.resolve(kw)
            if not put(r, "-%s.recognised" % kw, j is not None and j in by, "resolves to %r; list %r" % (j, R.names), kind="establishment"):
                continue
            covered.add(j)
            good = 0
            for s in by[j]:
                rec = R.rec(s)
                # the record the option works on is the loop's current record as the iteration found it
                if not _null_or_effect(r, R, "-" + kw, s, tm.sym("iter_" + R.recvar, "P"), report_null):
                    continue
                rec0 = tm.sym("iter_" + R.recvar, "P")
                ok, det = chk(R, s, rec0, twin)
                put(r, "-%s.%s" % (kw, label), ok, det)
                put(r, "-%s.current_record_stays" % kw, rec is rec0 or s.status == "ret", repr(rec), kind="preservation")
                good += 1
            seen += 1 if good else 0
    # keywords of the list this contract does not know, and the switch's fall-through: they must leave the log K data of every record alone
    C01F = ("logk", "log_k", "log_k_original", "original_units", "dha", "dhb", "gflag", "check_equation", "mole_balance", "name", "coef", "z", "type", "rxn", "next_elt")
    for j, ps in sorted(by.items(), key=lambda kv: (kv[0] is None, kv[0] or 0)):
        if j in covered or (j is not None and j < 0):
            continue
        for s in ps:
            w = [x for x in _rec_writes(s) if x[0] in C01F]
            def touches(e):
                for a in e.args:
                    for u in (tm.subterms(a) if a is not None and not isinstance(a, tuple) else ()):
                        if u.op == "app" and str(u.args[0]).startswith("fld:") and str(u.args[0])[4:] in C01F + ("add_logk",):
                            return True
                return False
            evs = [e for e in _sig_events(s) if touches(e)]
            put(r, "other_option[%s].stores_no_thermodynamic_data" % (R.names[j] if j is not None and 0 <= j < n else "none"), not w and not evs, "writes %r calls %r" % (w[:3], [_short(e) for e in evs]), kind="frame")
    # end of file / next keyword / unknown input
    for j, label in ((-1, "EOF"), (-2, "KEYWORD")):
        for s in by.get(j, []):
            ok = s.status in ("brk", "ret") and not _rec_writes(s) and not _sig_events(s)
            put(r, "OPTION_%s.ends_the_block_and_stores_nothing" % label, ok, "status %s writes %r" % (s.status, _rec_writes(s)[:2]))
    for s in by.get(-3, []):
        ok = any(_short(e) == "error_msg" for e in U.iter_events(s)) and any(f == "input_error" for f, v in _this_writes(s)) and not _rec_writes(s) and not _sig_events(s)
        put(r, "unknown_input.reported_and_counted", ok, "events %r" % [_short(e) for e in U.iter_events(s)])
    put(r, "reach.options_with_a_current_record", seen >= max(1, sum(len(k) for k, _, _ in spec) - 1) and -3 in by and -1 in by, "%d keyword cases, classes %r" % (seen, sorted(k for k in by if k is not None)), kind="vacuity", undecided=True)


def _spec_species(E, twin):
    lk = lambda k: (lambda R, rec: [_slot(rec, "logk", R.E[k])])
    return [
        (("no_check",), "check_equation=FALSE_of_the_current_species", _eff_flag("check_equation", 0)),
        (("check",), "check_equation=TRUE_of_the_current_species", _eff_flag("check_equation", 1)),
        (("log_k", "logk"), "read_log_k_only(next_char,&current->logk[logK_T0])", _eff_call("read_log_k_only", _args(lk("logK_T0" if not twin else "delta_h")))),
        (("delta_h", "deltah"), "read_delta_h_only(next_char,&current->logk[delta_h],&current->original_units)",
         _eff_call("read_delta_h_only", _args(lambda R, rec: [_slot(rec, "logk", R.E["delta_h"]), _slot(rec, "original_units")]))),
        (("analytical_expression", "a_e", "ae"), "read_analytical_expression_only(next_char,&current->logk[T_A1])", _eff_call("read_analytical_expression_only", _args(lk("T_A1")))),
        (("gamma",), "gflag=2_and_a,b_scanned_into_dha,dhb", _eff_gamma(2, ("dha", "dhb"))),
        (("llnl_gamma",), "gflag=7_and_a_scanned_into_dha", _eff_gamma(7, ("dha",))),
        (("co2_llnl_gamma",), "gflag=8", _eff_gamma(8, ())),
        (("activity_water",), "gflag=9", _eff_gamma(9, ())),
        (("mb", "mass_balance", "mole_balance"), "formula_kept_and_parsed_alone_into_next_secondary", _eff_mole_balance),
        (("add_logk", "add_log_k"), "appends(name,coef|1)_to_the_current_species'_list", _eff_add_logk(False)),
        (("add_constant",), "appends(XconstantX,constant)", _eff_add_logk(True)),
        (("vm",), "read_aq_species_vm_parms(next_char,&current->logk[vma1])", _eff_call("read_aq_species_vm_parms", _args(lk("vma1")))),
        (("millero",), "read_millero_abcdef(next_char,&current->millero[0])", _eff_call("read_millero_abcdef", _args(lambda R, rec: [_slot(rec, "millero")]))),
        (("viscosity",), "read_viscosity_parms(next_char,&current->Jones_Dole[0])", _eff_call("read_viscosity_parms", _args(lambda R, rec: [_slot(rec, "Jones_Dole")]))),
    ]


def unit_read_species_options(twin=False):
    q = "Phreeqc::read_species"
    R = OptRun(q, "s_ptr", snapshot={"get_secondary_in_species": [("count_elts", "I"), ("paren_count", "I")]})
    r = U.new_unit("C01.read_species.each_option_stores_into_its_member_of_the_current_species", READ, q, R.fn)
    _run_options(r, R, _spec_species(R.E, twin), True, twin)
    r.assumptions += ["get_option returns the index of the FIRST keyword of opt_list that starts with the option text (find_option, not under this contract), OPTION_DEFAULT for a plain line, and leaves the rest of the line in next_char",
                      "read_log_k_only / read_delta_h_only / read_analytical_expression_only store through the pointer they are given (C01.read_*_only units); sscanf stores in argument order",
                      "copy_token / string_hsave / get_secondary_in_species / elt_list_vsave are not under this contract (call events with their arguments)",
                      "iteration contract of the option loop: the current record and the text position are arbitrary at the head of an iteration; opt_save == OPTION_DEFAULT there (established at entry, preserved by every iteration: obligations entry.* / every_iteration_leaves_*)",
                      "-dw, -erm_ddl are transport / surface data (C11/C20): only the frame 'no thermodynamic member written' is demanded of them"]
    return r


UNITS.append(("C01.read_species.each_option_stores_into_its_member_of_the_current_species", unit_read_species_options))


def _spec_phases(E, twin):
    lk = lambda k: (lambda R, rec: [_slot(rec, "logk", R.E[k])])
    return [
        (("no_check",), "check_equation=FALSE_of_the_current_phase", _eff_flag("check_equation", 0 if not twin else 1)),
        (("check",), "check_equation=TRUE_of_the_current_phase", _eff_flag("check_equation", 1)),
        (("log_k", "logk"), "read_log_k_only(next_char,&current->logk[logK_T0])", _eff_call("read_log_k_only", _args(lk("logK_T0")))),
        (("delta_h", "deltah"), "read_delta_h_only(next_char,&current->logk[delta_h],&current->original_units)",
         _eff_call("read_delta_h_only", _args(lambda R, rec: [_slot(rec, "logk", R.E["delta_h"]), _slot(rec, "original_units")]))),
        (("analytical_expression", "a_e", "ae"), "read_analytical_expression_only(next_char,&current->logk[T_A1])", _eff_call("read_analytical_expression_only", _args(lk("T_A1")))),
        (("add_logk", "add_log_k"), "appends(name,coef|1)_to_the_current_phase's_list", _eff_add_logk(False)),
        (("add_constant",), "appends(XconstantX,constant)", _eff_add_logk(True)),
        (("t_c",), "read_t_c_only(next_char,&current->t_c)", _eff_call("read_t_c_only", _args(lambda R, rec: [_slot(rec, "t_c")]))),
        (("p_c",), "read_p_c_only(next_char,&current->p_c)", _eff_call("read_p_c_only", _args(lambda R, rec: [_slot(rec, "p_c")]))),
        (("omega",), "read_omega_only(next_char,&current->omega)", _eff_call("read_omega_only", _args(lambda R, rec: [_slot(rec, "omega")]))),
        (("vm",), "read_phase_vm(next_char,&current->logk[vm0],&current->original_deltav_units)",
         _eff_call("read_phase_vm", _args(lambda R, rec: [_slot(rec, "logk", R.E["vm0"]), _slot(rec, "original_deltav_units")]))),
    ]


def unit_read_phases_options(twin=False):
    q = "Phreeqc::read_phases"
    R = OptRun(q, "phase_ptr")
    r = U.new_unit("C01.read_phases.each_option_stores_into_its_member_of_the_current_phase", READ, q, R.fn)
    _run_options(r, R, _spec_phases(R.E, twin), False, twin)
    r.assumptions += ["get_option returns the index of the FIRST keyword of opt_list that starts with the option text (find_option), OPTION_DEFAULT for a plain line, and leaves the rest of the line in next_char",
                      "the small readers store through the pointer they are given (C01.read_*_only units); sscanf stores in argument order",
                      "iteration contract of the option loop (current phase and text position arbitrary at the head of an iteration; opt_save == OPTION_DEFAULT there: established at entry, preserved by every iteration)",
                      "an option before any phase is defined is silently ignored by read_phases: only 'nothing stored' is demanded there"]
    return r


UNITS.append(("C01.read_phases.each_option_stores_into_its_member_of_the_current_phase", unit_read_phases_options))


def _eff_ln_alpha(R, s, rec, twin):
    ev = [e for e in _sig_events(s) if _short(e) in ("read_analytical_expression_only", "logk_copy2orig") or _short(e).startswith("read_")]
    ok = len(ev) == 2 and _short(ev[0]) == "read_analytical_expression_only" and _nc_ok(ev[0].args[0], R.nc_addr) and _same(s.hy2, ev[0].args[1], _slot(rec, "log_k", R.E["T_A1"])) \
        and _short(ev[1]) == "logk_copy2orig" and ev[1].args[0] is rec
    w = [x for x in _rec_writes(s) if not x[0].startswith("#")]
    return ok and not w, "calls %r writes %r" % ([(_short(e), e.args) for e in ev], w)


def _spec_named(E, twin):
    lk = lambda k: (lambda R, rec: [_slot(rec, "log_k", R.E[k])])
    c2o = "logk_copy2orig"
    return [
        (("log_k", "logk"), "read_log_k_only(next_char,&current->log_k[logK_T0])_then_copied_to_log_k_original", _eff_call("read_log_k_only", _args(lk("logK_T0")), then=c2o)),
        (("delta_h", "deltah"), "read_delta_h_only(next_char,&current->log_k[delta_h],&current->original_units)_then_copied",
         _eff_call("read_delta_h_only", _args(lambda R, rec: [_slot(rec, "log_k", R.E["delta_h" if not twin else "logK_T0"]), _slot(rec, "original_units")]), then=c2o)),
        (("analytical_expression", "a_e", "ae"), "read_analytical_expression_only(next_char,&current->log_k[T_A1])_then_copied", _eff_call("read_analytical_expression_only", _args(lk("T_A1")), then=c2o)),
        (("add_logk", "add_log_k"), "appends(name,coef|1)_to_the_current_expression's_list", _eff_add_logk(False)),
        (("ln_alpha1000",), "read_analytical_expression_only(next_char,&current->log_k[T_A1])_then_copied(scaling:own_unit)", _eff_ln_alpha),
        (("vm",), "read_vm_only(next_char,&current->log_k[vm0],&current->original_deltav_units)_then_copied",
         _eff_call("read_vm_only", _args(lambda R, rec: [_slot(rec, "log_k", R.E["vm0"]), _slot(rec, "original_deltav_units")]), then=c2o)),
    ]


def unit_read_named_logk_options(twin=False):
    q = "Phreeqc::read_named_logk"
    R = OptRun(q, "logk_ptr")
    r = U.new_unit("C01.read_named_logk.each_option_stores_into_the_current_expression_and_is_copied_to_log_k_original", READ, q, R.fn)
    _run_options(r, R, _spec_named(R.E, twin), True, twin)
    # the name line: the expression named on the line becomes the current one (replacing an earlier definition of that name)
    by = R.classify()
    n = 0
    for s in by.get(-4, []):
        ev = _sig_events(s)
        ct = [e for e in ev if _short(e) == "copy_token"]
        ls = [e for e in ev if _short(e) == "logk_store"]
        ok = len(ct) == 1 and len(ls) == 1 and ct[0].args[1] is R.nc_addr and ls[0].args[0] is ct[0].args[0] and _isnum(ls[0].args[1], 1) and R.rec(s) is ls[0].result and ev.index(ct[0]) < ev.index(ls[0])
        put(r, "name_line.current_expression=logk_store(first_token_of_the_line,replace)", ok, "events %r current %r" % ([(_short(e), e.args) for e in ev], R.rec(s)))
        n += 1
    put(r, "reach.name_line", n >= 1, str(n), kind="vacuity", undecided=True)
    r.assumptions += ["get_option as in C01.read_species.each_option...; logk_store(name, TRUE) returns the (re-initialised) record of that name; logk_copy2orig copies log_k to log_k_original (unit C01.logk_copy2orig)",
                      "tidy_logk reads log_k_original (unit C01.tidy_logk...): that is why every value option must be followed by the copy",
                      "-ln_alpha1000 has its own unit (C01.read_named_logk.ln_alpha1000...)"]
    return r


UNITS.append(("C01.read_named_logk.each_option_stores_into_the_current_expression_and_is_copied_to_log_k_original", unit_read_named_logk_options))


# ------------------------------------------------------------------------------------------------------------------------------------------
# the reaction line
# ------------------------------------------------------------------------------------------------------------------------------------------
_DEF = {}


def D(name):
    """integer value of a #define of global_structures.h"""
    from vf.astvc import hdr
    if name not in _DEF:
        _DEF[name] = int(hdr.define_value("src/phreeqcpp/" + GS, name))
    return _DEF[name]


def _tok0(ex, s):
    """address of trxn.token[0] (element block of the vector trxn.token)"""
    return tm.select(entry_arr(ex, s, ("f", "#vdata", "P")), tm.app("fld:token", (tm.app("fld:trxn", (THIS,), "P"),), "P"))


def _is_field_of(t, field, obj):
    """t reads obj->field (whatever version of the memory component)"""
    if t is None or isinstance(t, tuple) or t.op != "select":
        return False
    a = t.args[0]
    while a.op == "store":
        a = a.args[0]
    ix = t.args[1]
    return a.op == "sym" and (".%s:" % field) in str(a.args[0]) and isinstance(ix, tuple) and len(ix) == 1 and ix[0] is obj


def _counter(ex, info, s, var):
    """value of an integer loop counter at the head of the iteration (it may live in memory when its address is taken somewhere in the function)"""
    v = s.locals.get(info["names"][var])
    if isinstance(v, tuple):
        return tm.select(entry_arr(ex, s, ("m", "I")), tm.sym("&L_%s" % var, "P"), tm.num(0, "I"))
    return tm.sym("iter_" + var, "I")


def _range_of_counter(r, label, ex, info, its, var, first, cond_of):
    """like check_loop_range of props/common.py, also for a counter that lives in memory: starts at `first`, runs while cond_of(counter)"""
    if not its:
        r.add(label + ".range", UNDECIDED, "symex", 0, "no iteration state"); return
    s = its[0]
    v = _counter(ex, info, s, var)
    conds = [p for p in s.pc[:1]]
    want = cond_of(s, v)
    okc = bool(conds) and proved([want], conds[0]) and proved([conds[0]], want)
    r.add(label + ".runs_while_%s" % re.sub(r"\s+", "", repr(want))[:60], DISCHARGED if okc else FAILED, "z3", 0, "loop condition %r" % (conds[:1],))
    init = ex.loop_parts(info["node"])[0]
    v0 = None
    if init is not None:
        try:
            for s0 in ex.exec(init, [info["entry_state"].clone()]):
                x = s0.locals.get(info["names"][var])
                v0 = tm.select(ex.heap_arr(s0, ("m", "I")), tm.sym("&L_%s" % var, "P"), tm.num(0, "I")) if isinstance(x, tuple) else x
        except Exception:
            v0 = None
    okv = v0 is not None and (v0 is first or proved([], tm.eq(v0, first)))
    r.add(label + ".starts_at_%s" % re.sub(r"\s+", "", repr(first))[:40], DISCHARGED if okv else FAILED, "z3", 0, "initial value %r" % (v0,))


def unit_read_species_reaction_line(twin=False):
    q = "Phreeqc::read_species"
    SK = ("s_store(trxn.token[i].name", "next_elt->coef")
    R = OptRun(q, "s_ptr", skip=SK, functional=("strcmp", "strstr", "equal"))
    r = U.new_unit("C01.read_species.reaction_line_defines_the_species_on_its_left_hand_side", READ, q, R.fn)
    ex = R.ex
    by = R.classify()
    paths = by.get(D("OPTION_DEFAULT"), [])
    SPECIAL = {"H+": ("HPLUS", "s_hplus"), "H3O+": ("HPLUS", "s_h3oplus"), "e-": ("EMINUS", "s_eminus"), "H2O": ("H2O", "s_h2o"), "H2": ("AQ", "s_h2"), "O2": ("AQ", "s_o2")}
    PTRS = [v[1] for v in SPECIAL.values()]
    # harvest the name tests of the code (functional calls: the same term on every path)
    atoms = {}
    solid = None
    unch = None
    for s in paths:
        for e in U.iter_events(s):
            if _short(e) == "strcmp" and _strval(e.args[1]) is not None:
                atoms.setdefault(_strval(e.args[1]), (e.args[0], tm.eq(e.result, tm.num(0, "I"))))
            if _short(e) == "strstr" and _strval(e.args[1]) == "(s)":
                solid = (e.args[0], tm.not_(tm.eq(e.result, tm.NULL)))
            if _short(e) == "equal":
                unch = (e.args, tm.eq(e.result, tm.num(D("TRUE"), "I")))
    nok = nerr = 0
    for s in paths:
        hy = list(s.hy2)
        pe = [e for e in U.iter_events(s) if _short(e) == "parse_eq"]
        if not put(r, "one_parse_of_the_line", len(pe) == 1, "%d" % len(pe), kind="trace"):
            continue
        pe = pe[0]
        put(r, "parse_eq(line,&list,association=TRUE)", len(pe.args) == 3 and pe.args[0] is fld0(ex, s, "line", "P") and _isnum(pe.args[2], D("TRUE") if not twin else 0), repr(pe.args), kind="trace")
        ss = [e for e in U.iter_events(s) if _short(e) == "s_store"]
        for hyc, failed in cases(hy, tm.eq(pe.result, tm.num(D("ERROR"), "I"))):
            if failed:
                nerr += 1
                ok = not ss and not _rec_writes(s) and _isnum(R.rec(s), 0) and any(f == "parse_error" for f, v in _this_writes(s)) and any(_short(e) == "error_msg" for e in U.iter_events(s))
                put(r, "unparsable_line.reported_nothing_stored_and_NO_current_species(later_options_rejected)", ok, "s_ptr %r writes %r" % (R.rec(s), _rec_writes(s)[:3]))
                continue
            nok += 1
            if not put(r, "parsed.one_species_looked_up_or_created", len(ss) == 1, "%d s_store calls" % len(ss), kind="trace"):
                continue
            S = ss[0].result
            t0 = _tok0(ex, s)
            a = ss[0].args
            put(r, "parsed.species=s_store(name_and_charge_of_the_FIRST_token,replace=TRUE)", len(a) == 3 and _is_field_of(a[0], "name", t0) and _is_field_of(a[1], "z", t0) and _isnum(a[2], D("TRUE")), repr(a), kind="trace")
            w = {}
            for f, o, v in _rec_writes(s):
                w[(f, o)] = v
            put(r, "parsed.first_token_points_to_the_species", w.get(("s", t0)) is S, repr(w.get(("s", t0))))
            put(r, "parsed.it_becomes_the_current_species(options_that_follow_go_to_it)", R.rec(s) is S, repr(R.rec(s)))
            asg = [e for e in U.iter_events(s) if _short(e) == "operator=" and e.recv is tm.app("fld:next_elt", (S,), "P")]
            put(r, "parsed.element_list_of_the_species=list_parse_eq_filled", len(asg) == 1 and asg[0].args[0] is pe.args[1], repr([(e.recv, e.args) for e in asg]), kind="trace")
            put(r, "parsed.alternative_mole_balance_list_cleared", _isnum(w.get(("#vsize", tm.app("fld:next_secondary", (S,), "P"))), 0), "")
            tc = [e for e in U.iter_events(s) if _short(e) == "trxn_copy"]
            put(r, "parsed.reaction_copied_into_the_species'_rxn", len(tc) == 1 and rec_addr(tc[0].args[0]) is tm.app("fld:rxn", (S,), "P"), repr([e.args for e in tc]), kind="trace")
            evs = list(U.iter_events(s))
            put(r, "parsed.order(parse,look_up,copy)", len(tc) == 1 and evs.index(pe) < evs.index(ss[0]) < evs.index(tc[0]), "", kind="trace")
            other = [(f, o) for (f, o) in w if o is not S and not (f == "s" and o is t0) and not f.startswith("#")]
            put(r, "parsed.no_other_record_written", not other, repr(other[:3]), kind="frame")
            # defaults by charge and the kind of species by name
            need = [k for k in SPECIAL if k not in atoms]
            if not put(r, "parsed.name_compared_with_the_special_species", not need and solid is not None and unch is not None, "missing %r solid %r uncharged %r" % (need, solid is not None, unch is not None), kind="trace"):
                continue
            okn = all(_is_field_of(atoms[k][0], "name", S) for k in SPECIAL) and _is_field_of(solid[0], "name", S)
            put(r, "parsed.the_name_tested_is_the_species'_name", okn, repr(atoms["H+"][0]), kind="trace")
            ua = unch[0]
            put(r, "parsed.uncharged_test_is_equal(z,0,TOL)", len(ua) == 3 and _is_field_of(ua[0], "z", S) and _isnum(ua[1], 0) and tm.isnum(ua[2]) and ua[2].args[0] == tm.Q("1e-9").args[0], repr(ua), kind="trace")
            ax = []
            keys = list(SPECIAL)
            for i_, k1 in enumerate(keys):
                for k2 in keys[i_ + 1:]:
                    ax.append(tm.not_(tm.and_(atoms[k1][1], atoms[k2][1])))
                ax.append(tm.not_(tm.and_(atoms[k1][1], solid[1])))
            kinds = [(k, atoms[k][1]) for k in keys] + [("(s)", solid[1]), ("other", tm.and_(*([tm.not_(atoms[k][1]) for k in keys] + [tm.not_(solid[1])])))]
            tw = dict(_this_writes(s))
            for kname, cond in kinds:
                hk = hyc + ax + [cond]
                if not sat(hk):
                    continue
                tname = SPECIAL[kname][0] if kname in SPECIAL else ("SOLID" if kname == "(s)" else "AQ")
                put(r, "parsed[%s].type==%s" % (kname, tname), _isnum(w.get(("type", S)), D(tname)), repr(w.get(("type", S))))
                for p_ in PTRS:
                    mine = kname in SPECIAL and SPECIAL[kname][1] == p_
                    put(r, "parsed[%s].%s%s" % (kname, p_, "=the_species" if mine else "_untouched"), (tw.get(p_) is S) if mine else (p_ not in tw), repr(tw.get(p_)))
                for hu, uncharged in cases(hk, unch[1]):
                    g = 3 if kname in ("e-", "H2O") else (0 if uncharged else 1)
                    tagu = "uncharged" if uncharged else "charged"
                    put(r, "parsed[%s,%s].gflag==%d" % (kname, tagu, g), _isnum(w.get(("gflag", S)), g), repr(w.get(("gflag", S))))
                    put(r, "parsed[%s,%s].dha==0" % (kname, tagu), _isnum(w.get(("dha", S)), 0), repr(w.get(("dha", S))))
                    wb = w.get(("dhb", S))
                    put(r, "parsed[%s,%s].dhb==%s" % (kname, tagu, "0.1" if uncharged else "0"), wb is not None and tm.isnum(wb) and wb.args[0] == (tm.Q("1/10").args[0] if uncharged else 0), repr(wb))
    put(r, "reach.parsed_and_unparsable", nok >= 8 and nerr >= 1, "%d/%d" % (nok, nerr), kind="vacuity", undecided=True)
    # ---- the two inner loops left out above: what they may write
    fn = R.fn
    k1 = the_loop(fn, READ, SK[0]); k2 = the_loop(fn, READ, SK[1])
    c1 = ctx()
    f1, ex1, it1, inf1 = run_iter(READ, q, k1, c=c1)
    drop_head(q, k1)
    n1 = 0
    addr_i = tm.sym("&L_i", "P")
    for s in lives(it1):
        i = tm.select(entry_arr(ex1, s, ("m", "I")), addr_i, tm.num(0, "I")) if "i" in inf1["names"] and isinstance(s.locals.get(inf1["names"]["i"]), tuple) else tm.sym("iter_i", "I")
        tk = _tok0(ex1, s) + i
        ev = [e for e in U.iter_events(s) if _short(e) == "s_store"]
        w = _rec_writes(s)
        ok = len(ev) == 1 and _is_field_of(ev[0].args[0], "name", tk) and _is_field_of(ev[0].args[1], "z", tk) and _isnum(ev[0].args[2], 0) \
            and len(w) == 1 and w[0][0] == "s" and w[0][1] is tk and w[0][2] is ev[0].result
        put(r, "other_tokens.token[i].s=s_store(its_name_and_charge,replace=FALSE)_and_nothing_else", ok, "events %r writes %r" % ([e.args for e in ev], w))
        n1 += 1
    _range_of_counter(r, "other_tokens", ex1, inf1, lives(it1), "i", tm.num(1, "I" if not twin else "I"), lambda s_, v: tm.lt(v, fld0(ex1, s_, "count_trxn", "I")))
    c2 = ctx(functional=("strcmp",))
    f2, ex2, it2, inf2 = run_iter(READ, q, k2, c=c2)
    drop_head(q, k2)
    n2 = 0
    for s in lives(it2):
        S0 = fld0(ex2, s, "s", "P", _tok0(ex2, s))
        w = _rec_writes(s)
        ne = local(inf2, s, "next_elt")
        okw = all(o is S0 and f in ("carbon", "h", "o") and _is_field_of(v, "coef", tm.sym("iter_next_elt", "P")) for f, o, v in w)
        put(r, "element_counts.only_carbon,h,o_of_the_new_species_get_the_element's_coefficient", okw, repr(w))
        # which one: by the element's name
        el = {}
        for e in U.iter_events(s):
            if _short(e) == "strcmp" and _strval(e.args[1]) in ("C", "H", "O"):
                el[_strval(e.args[1])] = tm.eq(e.result, tm.num(0, "I"))
        for nm, f in (("C", "carbon"), ("H", "h"), ("O", "o")):
            if nm not in el:
                put(r, "element_counts.name_compared_with_%s" % nm, False, "", kind="trace"); continue
            wrote = any(f_ == f for f_, o, v in w)
            valid(r, "element_counts.%s_written_iff_element_is_%s" % (f, nm), list(s.pc), el[nm] if wrote else tm.not_(el[nm]))
        n2 += 1
    put(r, "reach.inner_loops", n1 >= 1 and n2 >= 1, "%d/%d" % (n1, n2), kind="vacuity", undecided=True)
    r.assumptions += ["parse_eq fills trxn (token[0] = the species the line defines, coefficient -1 convention: unit C01.parse_eq...) and the element list; s_store(name, z, replace) returns the record of that name (re-initialised when replace)",
                      "strcmp / strstr / equal are functions of their arguments; the special names are pairwise different strings and none contains '(s)'",
                      "the two inner loops of the reaction-line case are left out of the main run and specified by their own iteration contracts here (other_tokens.*, element_counts.*): they write token[i].s for i >= 1 and carbon/h/o of the new species only",
                      "trxn_copy(rxn) copies the work reaction into rxn (structures.cpp, not under this contract)"]
    return r


UNITS.append(("C01.read_species.reaction_line_defines_the_species_on_its_left_hand_side", unit_read_species_reaction_line))


def unit_read_phases_reaction_line(twin=False):
    q = "Phreeqc::read_phases"
    SK = ("s_store(token1",)
    R = OptRun(q, "phase_ptr", skip=SK)
    r = U.new_unit("C01.read_phases.name_and_equation_lines_define_the_current_phase", READ, q, R.fn)
    ex = R.ex
    paths = R.classify().get(D("OPTION_DEFAULT"), [])
    seen = set()
    for s in paths:
        hy = list(s.hy2)
        evs = list(U.iter_events(s))
        def one(nm):
            x = [e for e in evs if _short(e) == nm]
            return x[0] if len(x) == 1 else None
        ct, cl, pe, ps = one("copy_token"), one("check_line"), one("parse_eq"), one("phase_store")
        if not put(r, "name_token_taken_then_equation_line_read", ct is not None and cl is not None and evs.index(ct) < evs.index(cl), repr([_short(e) for e in evs]), kind="trace"):
            continue
        cur = tm.select(ex.heap_arr(s, ("m", "P")), ct.args[1], tm.num(0, "I"))
        put(r, "name_token_is_the_first_token_of_the_name_line", cur is fld0(ex, s, "line", "P") or _same(hy, cur, fld0(ex, s, "line", "P")), repr(cur), kind="trace")
        j = cl.result
        ended = tm.or_(tm.eq(j, tm.num(-1, "I")), tm.eq(j, tm.num(D("KEYWORD"), "I")))
        for h1, end in cases(hy, ended):
            if end:
                seen.add("end")
                ok = pe is None and ps is None and not _rec_writes(s) and local(R.info, s, "return_value") is j and s.status in ("brk", "ret")
                put(r, "equation_line_missing(EOF/KEYWORD).block_ends_nothing_stored", ok, "status %s return_value %r" % (s.status, local(R.info, s, "return_value")))
                continue
            for h2, isopt in cases(h1, tm.eq(j, tm.num(D("OPTION"), "I"))):
                if isopt:
                    seen.add("option")
                    ok = pe is None and ps is None and not _rec_writes(s) and _isnum(R.rec(s), 0) and any(f == "parse_error" for f, v in _this_writes(s))
                    put(r, "option_where_equation_expected.reported_and_NO_current_phase", ok, "phase_ptr %r" % (R.rec(s),))
                    continue
                if not put(r, "equation.parsed_once", pe is not None, "", kind="trace"):
                    continue
                put(r, "equation.parse_eq(line,&list,association=FALSE)", pe.args[0] is fld0(ex, s, "line", "P") and _isnum(pe.args[2], 0 if not twin else 1), repr(pe.args), kind="trace")
                for h3, bad in cases(h2, tm.eq(pe.result, tm.num(D("ERROR"), "I"))):
                    if bad:
                        seen.add("unparsable")
                        ok = ps is None and not _rec_writes(s) and _isnum(R.rec(s), 0) and any(f == "parse_error" for f, v in _this_writes(s))
                        put(r, "unparsable_equation.reported_and_NO_current_phase", ok, "phase_ptr %r writes %r" % (R.rec(s), _rec_writes(s)[:2]))
                        continue
                    seen.add("ok")
                    if not put(r, "parsed.one_phase_looked_up_or_created", ps is not None, "", kind="trace"):
                        continue
                    P = ps.result
                    put(r, "parsed.phase=phase_store(name_token)", ps.args[0] is ct.args[0], repr(ps.args), kind="trace")
                    put(r, "parsed.it_becomes_the_current_phase", R.rec(s) is P, repr(R.rec(s)))
                    w = {}
                    for f, o, v in _rec_writes(s):
                        w.setdefault((f, o), v)
                    put(r, "parsed.type==SOLID", _isnum(w.get(("type", P)), D("SOLID")), repr(w.get(("type", P))))
                    asg = [e for e in evs if _short(e) == "operator=" and e.recv is tm.app("fld:next_elt", (P,), "P")]
                    put(r, "parsed.element_list_of_the_phase=list_parse_eq_filled", len(asg) == 1 and asg[0].args[0] is pe.args[1], "", kind="trace")
                    tc = one("trxn_copy")
                    put(r, "parsed.reaction_copied_into_the_phase's_rxn", tc is not None and rec_addr(tc.args[0]) is tm.app("fld:rxn", (P,), "P"), repr(tc.args if tc else None), kind="trace")
                    # formula = name of the first token of the equation without the state suffix
                    sc = [e for e in evs if _short(e) == "strcpy_safe"]
                    hs = one("string_hsave")
                    t0 = _tok0(ex, s)
                    okf = len(sc) == 1 and _is_field_of(sc[0].args[2], "name", t0) and hs is not None and hs.args[0] is sc[0].args[0] and w.get(("formula", P)) is hs.result
                    rp = sorted(_strval(e.args[0]) or "?" for e in evs if _short(e) == "replace" and evs.index(e) < (evs.index(hs) if hs else 0) and _strval(e.args[1]) == "" and sc and e.args[2] is sc[0].args[0])
                    put(r, "parsed.formula=first_token_of_the_equation_without_(s)/(g)", okf and rp == sorted(["(g)", "(s)", "(G)", "(S)"]), "formula ok %s suffixes removed %r" % (okf, rp), kind="trace")
                    other = [(f, o) for (f, o) in w if o is not P and not f.startswith("#") and not (_alloc_in(o, tm.app("fld:rxn", (P,), "P")))]
                    put(r, "parsed.no_other_record_written", not other, repr(other[:3]), kind="frame")
                    put(r, "parsed.order(parse,look_up,copy)", tc is not None and evs.index(pe) < evs.index(ps) < evs.index(tc), "", kind="trace")
    put(r, "reach.all_outcomes", seen >= {"end", "option", "unparsable", "ok"}, repr(sorted(seen)), kind="vacuity", undecided=True)
    # the inner loop over the other tokens
    k1 = the_loop(R.fn, READ, SK[0])
    c1 = ctx(functional=("strstr",))
    f1, ex1, it1, inf1 = run_iter(READ, q, k1, c=c1)
    drop_head(q, k1)
    n1 = 0
    for s in lives(it1):
        i = _counter(ex1, inf1, s, "i")
        tk = _tok0(ex1, s) + i
        ss = [e for e in U.iter_events(s) if _short(e) == "s_store"]
        w = _rec_writes(s)
        okw = len(w) == 1 and w[0][0] == "s" and w[0][1] is tk
        if ss:
            sc = [e for e in U.iter_events(s) if _short(e) == "strcpy_safe"]
            ok = okw and len(ss) == 1 and len(sc) == 1 and _is_field_of(sc[0].args[2], "name", tk) and ss[0].args[0] is sc[0].args[0] and _is_field_of(ss[0].args[1], "z", tk) and _isnum(ss[0].args[2], 0) and w[0][2] is ss[0].result
            put(r, "other_tokens.aqueous_token[i].s=s_store(its_name_without_(aq),its_charge,replace=FALSE)", ok, "s_store%r writes %r" % (ss[0].args, w))
        else:
            put(r, "other_tokens.solid_or_gas_token[i].s=NULL", okw and _isnum(w[0][2], 0), repr(w))
        n1 += 1
    _range_of_counter(r, "other_tokens", ex1, inf1, lives(it1), "i", tm.num(1, "I"), lambda s_, v: tm.lt(v, fld0(ex1, s_, "count_trxn", "I")))
    put(r, "reach.inner_loop", n1 >= 2, str(n1), kind="vacuity", undecided=True)
    r.assumptions += ["check_line reads the next input line into `line` and classifies it; copy_token splits off the first token; phase_store(name) returns the record of that name (re-initialised)",
                      "parse_eq with association == FALSE: the FIRST species on the left-hand side is the phase formula, coefficient -1 (unit C01.parse_eq...)",
                      "the inner loop over the other tokens is left out of the main run and specified by its own iteration contract (other_tokens.*)",
                      "replace(a, b, text) substitutes in place; trxn_copy not under this contract"]
    return r


def _alloc_in(o, vec):
    """o is an element of the std::vector object `vec` (its #vdata block)"""
    return o is not None and not isinstance(o, tuple) and _mentions(o, vec) and "#vdata" in repr(o)[:200]


UNITS.append(("C01.read_phases.name_and_equation_lines_define_the_current_phase", unit_read_phases_reaction_line))


# ------------------------------------------------------------------------------------------------------------------------------------------
# small readers and the NAMED_EXPRESSIONS copy
# ------------------------------------------------------------------------------------------------------------------------------------------
STRUCT = "src/phreeqcpp/structures.cpp"


def unit_read_log_k_only(twin=False):
    q = "Phreeqc::read_log_k_only"
    fn, ex, fin, info = U.run_function(READ, q, ctx=ctx())
    r = U.new_unit("C01.read_log_k_only.one_number_into_the_slot_given_zero_when_absent", READ, q, fn)
    txt, dst = tm.sym("P0_cptr_in", "P"), tm.sym("P1_log_k", "P")
    if not any(x.get("kind") == "ParmVarDecl" and x.get("name") == "cptr_in" for x in A.walk(fn)):
        pn = [x.get("name") for x in A.walk(fn) if x.get("kind") == "ParmVarDecl"]
        txt, dst = tm.sym("P0_%s" % pn[0], "P"), tm.sym("P1_%s" % pn[1], "P")
    seen = set()
    for s in lives(fin, ("ret",)):
        sc = [e for e in s.events if _short(e) == "sscanf"]
        if not put(r, "one_scan", len(sc) == 1, "%d" % len(sc), kind="trace"):
            continue
        a = sc[0].args
        put(r, "scans_the_text_given(with_=_read_as_blank)", _mentions(a[0], txt), repr(a[0]), kind="trace")
        put(r, "one_number_into_the_slot_given", len(a) == 3 and _fmt_count(a[1]) == 1 and a[2] is (dst if not twin else txt), repr(a), kind="trace")
        w = [(ix, v) for ix, v in writes(s, ("m", "R"))]
        z = [k for k, (ix, v) in enumerate(w) if ix[0] is dst and _isnum(ix[1], 0) and _isnum(v, 0)]
        put(r, "slot_zeroed_before_the_scan_and_nothing_else_written", len(w) == 1 and z == [0], repr(w))
        for hy, none in cases(list(s.pc), tm.lt(sc[0].result, tm.num(1, "I"))):
            seen.add(none)
            tw = [f for f, v in _this_writes_fn(s)]
            if none:
                put(r, "no_number.ERROR_returned_and_counted", _isnum(s.ret, D("ERROR")) and "input_error" in tw and any(_short(e) == "error_msg" for e in s.events), "ret %r writes %r" % (s.ret, tw))
            else:
                put(r, "number_read.OK_and_no_error_counted", _isnum(s.ret, D("OK")) and "input_error" not in tw, "ret %r writes %r" % (s.ret, tw))
    put(r, "reach.both", seen == {True, False}, repr(seen), kind="vacuity", undecided=True)
    r.assumptions += ["sscanf stores the number it converts through its pointer argument and returns the number of conversions", "std::string(text) / replace(text, \"=\", \" \") keep the characters otherwise"]
    return r


def _this_writes_fn(s):
    out = []
    for key in s.heap:
        if key[0] == "f":
            for ix, v in writes(s, key):
                if (ix[0] if isinstance(ix, tuple) else ix) is THIS:
                    out.append((key[1], v))
    return out


UNITS.append(("C01.read_log_k_only.one_number_into_the_slot_given_zero_when_absent", unit_read_log_k_only))


def unit_logk_copy2orig(twin=False):
    q = "Phreeqc::logk_copy2orig"
    c = ctx(enums_from=GS, enums=LOGK_ENUMS)
    fn = A.find_function(STRUCT, q)
    r = U.new_unit("C01.logk_copy2orig.every_coefficient_copied_to_log_k_original", STRUCT, q, fn)
    if len(loops_of(fn)) != 1:
        raise Undecided("logk_copy2orig: expected one loop")
    f, ex, its, info = run_iter(STRUCT, q, 0, c=c)
    L = tm.sym("L_logk_ptr", "P")
    n = 0
    for s in lives(its):
        i = _counter(ex, info, s, "i")
        w = [(key, ix, v) for key, ix, v in U.iter_writes(s)]
        src = tm.select(entry_arr(ex, s, ("m", "R")), tm.app("fld:log_k" if not twin else "fld:log_k_original", (L,), "P"), i)
        ok = len(w) == 1 and w[0][0] == ("m", "R") and w[0][1] == (tm.app("fld:log_k_original", (L,), "P"), i) and (w[0][2] is src or _same(list(s.pc), w[0][2], src))
        put(r, "log_k_original[i]=log_k[i]_of_the_same_record_and_nothing_else", ok, repr(w))
        n += 1
    check_loop_range(r, "copy", ex, c, info, lives(its), "i", tm.num(0, "I"), lambda v: tm.lt(v, tm.num(c.enum_values["MAX_LOG_K_INDICES"], "I")))
    put(r, "reach", n >= 1, str(n), kind="vacuity", undecided=True)
    r.assumptions += ["doubles copied exactly"]
    return r


UNITS.append(("C01.logk_copy2orig.every_coefficient_copied_to_log_k_original", unit_logk_copy2orig))


def unit_ln_alpha1000(twin=False):
    """-ln_alpha1000 a1..a6 gives 1000 ln(alpha) as an analytical expression; log10(alpha) = that / (1000 ln 10): EVERY one of the six
    coefficients T_A1..T_A6 must be divided by 1000*LOG_10 (k_calc adds all six terms)."""
    q = "Phreeqc::read_named_logk"
    c = ctx(enums_from=GS, enums=LOGK_ENUMS)
    fn = A.find_function(READ, q)
    r = U.new_unit("C01.read_named_logk.ln_alpha1000_all_six_coefficients_scaled_to_log10", READ, q, fn)
    k = the_loop(fn, READ, "log_k[i]/=", what="scaling loop of -ln_alpha1000")
    f, ex, its, info = run_iter(READ, q, k, c=c)
    drop_head(q, k)
    L = tm.sym("L_logk_ptr", "P")
    n = 0
    for s in lives(its):
        i = _counter(ex, info, s, "i")
        w = [(key, ix, v) for key, ix, v in U.iter_writes(s)]
        base = tm.app("fld:log_k", (L,), "P")
        old = tm.select(entry_arr(ex, s, ("m", "R")), base, i)
        ln10 = fld0(ex, s, "LOG_10", "R")
        if put(r, "scaling.writes_log_k[i]_of_the_current_expression_only", len(w) == 1 and w[0][0] == ("m", "R") and w[0][1] == (base, i), repr(w), kind="frame"):
            eqr(r, "scaling.log_k[i]=log_k[i]/(1000*ln10)", list(s.pc), w[0][2], old / (tm.num(1000) * ln10) if not twin else old / tm.num(1000))
        n += 1
    E = c.enum_values
    _range_of_counter(r, "scaling", ex, info, lives(its), "i", tm.num(E["T_A1"], "I"), lambda s_, v: tm.le(v, tm.num(E["T_A6"], "I")))
    put(r, "six_terms(T_A6-T_A1+1==6)", E["T_A6"] - E["T_A1"] + 1 == 6, repr(E), kind="structural")
    put(r, "reach", n >= 1, str(n), kind="vacuity", undecided=True)
    r.assumptions += ["this->LOG_10 is ln 10 (C01.LOG_10_init)", "read_analytical_expression_only fills log_k[T_A1..T_A6] (C01.read_analytical_expression_only...)", "k_calc adds all six analytic terms (C01.k_calc)",
                      "the option-dispatch part of -ln_alpha1000 is in C01.read_named_logk.each_option..."]
    return r


UNITS.append(("C01.read_named_logk.ln_alpha1000_all_six_coefficients_scaled_to_log10", unit_ln_alpha1000))


# ------------------------------------------------------------------------------------------------------------------------------------------
# tidy: which temperature expression is used, named expressions
# ------------------------------------------------------------------------------------------------------------------------------------------
def unit_select_log_k_expression(twin=False):
    """the coefficients the model evaluates (k_calc over rxn.logk / log_k) are: the analytical expression alone when the database gives one
    (any of A1..A6 non-zero), otherwise log K(25 C) and delta_h alone; the molar-volume coefficients are carried over in both cases"""
    q = "Phreeqc::select_log_k_expression"
    c = ctx(enums_from=GS, enums=LOGK_ENUMS)
    fn, ex, fin, info = U.run_function(TIDY, q, ctx=c, default="unroll")
    r = U.new_unit("C01.select_log_k_expression.analytic_expression_if_given_else_logK_and_delta_h", TIDY, q, fn)
    E = c.enum_values
    pn = [x.get("name") for x in A.walk(fn) if x.get("kind") == "ParmVarDecl"]
    src, dst = tm.sym("P0_%s" % pn[0], "P"), tm.sym("P1_%s" % pn[1], "P")
    seen = set()
    MAXK = E["MAX_LOG_K_INDICES"]
    for s in lives(fin, ("ret",)):
        h0 = entry_arr(ex, s, ("m", "R"))
        S = lambda k: tm.select(h0, src, tm.num(k, "I"))
        hy = list(s.pc) + [tm.not_(tm.eq(src, dst))]
        analytic = tm.or_(*[tm.not_(tm.eq(S(k), tm.num(0))) for k in range(E["T_A1"], E["T_A6"] + 1)])
        fin_arr = ex.heap_arr(s, ("m", "R"))
        ws = writes(s, ("m", "R"))
        okf = all(ix[0] is dst and tm.isnum(ix[1]) and 0 <= ix[1].args[0] < MAXK for ix, v in ws) and all(v.op == "sym" or k == ("m", "R") for k, v in s.heap.items())
        put(r, "frame.writes_only_the_target_coefficients", okf and not [e for e in s.events if _short(e) not in QUIET], repr([ix for ix, v in ws][:4]), kind="frame")
        for hc, an in cases(hy, analytic):
            seen.add(an)
            tag = "analytic" if an else "no_analytic"
            for k in range(MAXK):
                got = tm.select(fin_arr, dst, tm.num(k, "I"))
                if k in (E["logK_T0"], E["delta_h"]):
                    want = tm.num(0) if an else S(k)
                elif E["T_A1"] <= k <= E["T_A6"]:
                    want = S(k) if an else tm.num(0)
                else:
                    want = S(k)
                if twin and k == E["delta_h"] and an:
                    want = S(k)
                nm = [n_ for n_, v in E.items() if v == k and n_ != "MAX_LOG_K_INDICES"]
                ok = got is want or proved(hc, tm.eq(got, want))
                put(r, "%s.target[%s]==%s" % (tag, nm[0] if nm else k, "0" if tm.isnum(want) else "source[%s]" % (nm[0] if nm else k)), ok, "got %r" % (got,))
        put(r, "returns_OK", _isnum(s.ret, D("OK")), repr(s.ret))
    put(r, "reach.both_cases", seen == {True, False}, repr(seen), kind="vacuity", undecided=True)
    r.assumptions += ["source and target are different arrays (call sites: logk -> rxn.logk, log_k_original -> log_k)", "loops over the coefficient indices unrolled (constant bounds from the enum)", "doubles as reals"]
    return r


UNITS.append(("C01.select_log_k_expression.analytic_expression_if_given_else_logK_and_delta_h", unit_select_log_k_expression))


def _velem(ex, s, vec, i):
    """vec[i] for a std::vector<T*> member of `this` (the pointer stored in element i)"""
    return tm.select(entry_arr(ex, s, ("m", "P")), tm.select(entry_arr(ex, s, ("f", "#vdata", "P")), tm.app("fld:" + vec, (THIS,), "P")), i)


def unit_tidy_expression_sites(twin=False):
    """for every species, phase and named expression the coefficients the model evaluates are built from ITS OWN database entry:
    select_log_k_expression(own data -> working coefficients) and then add_other_logk / add_logks(working coefficients, own -add_logk list)"""
    r = U.new_unit("C01.tidy.working_logK_coefficients_built_from_the_record's_own_entry_then_its_named_expressions", TIDY, "Phreeqc::check_species_input", A.find_function(TIDY, "Phreeqc::check_species_input"))
    n = 0
    for q, vec, needle, has_rxn_test in (("Phreeqc::check_species_input", "s", "select_log_k_expression(", True), ("Phreeqc::tidy_phases", "phases", "select_log_k_expression(", False)):
        fn = A.find_function(TIDY, q)
        k = the_loop(fn, TIDY, needle)
        f, ex, its, info = run_iter(TIDY, q, k)
        tag = q.split("::")[-1]
        for s in lives(its):
            i = _counter(ex, info, s, "i")
            X = _velem(ex, s, vec, i)
            sel = events(s, "select_log_k_expression"); ao = events(s, "add_other_logk")
            rx = tm.app("fld:logk", (tm.app("fld:rxn", (X,), "P"),), "P")
            if has_rxn_test:
                norxn = tm.eq(tm.select(entry_arr(ex, s, ("f", "#vsize", "I")), tm.app("fld:token", (tm.app("fld:rxn", (X,), "P"),), "P")), tm.num(0, "I"))
                if not sel and not ao:
                    valid(r, "%s.skipped_only_when_the_species_has_no_reaction" % tag, list(s.pc), norxn)
                    put(r, "%s.missing_reaction_reported_and_counted" % tag, bool(events(s, "error_msg")) and any(f_ == "input_error" for f_, v in _this_writes(s)), "")
                    continue
                valid(r, "%s.done_whenever_the_species_has_a_reaction" % tag, list(s.pc), tm.not_(norxn))
            ok = len(sel) == 1 and len(ao) == 1
            if not put(r, "%s.one_selection_then_one_addition" % tag, ok and U.iter_events(s).index(sel[0]) < U.iter_events(s).index(ao[0]), "%d/%d" % (len(sel), len(ao)), kind="trace"):
                continue
            own = tm.app("fld:logk" if not twin else "fld:add_logk", (X,), "P")
            put(r, "%s.selection(from=record[i].logk,to=record[i].rxn.logk)" % tag, sel[0].args[0] is own and sel[0].args[1] is rx, repr(sel[0].args), kind="trace")
            put(r, "%s.addition(into=record[i].rxn.logk,list=record[i].add_logk)" % tag, ao[0].args[0] is rx and rec_addr(ao[0].args[1]) is tm.app("fld:add_logk", (X,), "P"), repr(ao[0].args), kind="trace")
            n += 1
    # named expressions
    q = "Phreeqc::tidy_logk"
    fn = A.find_function(TIDY, q)
    k0 = the_loop(fn, TIDY, "select_log_k_expression("); k1 = the_loop(fn, TIDY, "add_logks(")
    put(r, "tidy_logk.all_expressions_selected_before_any_is_completed", k0 < k1 and loops_of(fn)[k1] not in list(A.walk(loops_of(fn)[k0])), "loops %d,%d" % (k0, k1), kind="structural")
    f, ex, its, info = run_iter(TIDY, q, k0)
    for s in lives(its):
        X = _velem(ex, s, "logk", _counter(ex, info, s, "i"))
        sel = events(s, "select_log_k_expression")
        ok = len(sel) == 1 and sel[0].args[0] is tm.app("fld:log_k_original", (X,), "P") and sel[0].args[1] is tm.app("fld:log_k", (X,), "P")
        put(r, "tidy_logk.selection(from=expression[i].log_k_original,to=expression[i].log_k)", ok, repr([e.args for e in sel]), kind="trace")
        w = _rec_writes(s)
        put(r, "tidy_logk.marked_not_done", len(w) == 1 and w[0][0] == "done" and w[0][1] is X and _isnum(w[0][2], 0), repr(w))
        n += 1
    f, ex, its, info = run_iter(TIDY, q, k1)
    for s in lives(its):
        X = _velem(ex, s, "logk", _counter(ex, info, s, "i"))
        al = events(s, "add_logks")
        notdone = tm.eq(fld0(ex, s, "done", "I", X), tm.num(0, "I"))
        if al:
            put(r, "tidy_logk.completion=add_logks(expression[i],depth 0)", len(al) == 1 and al[0].args[0] is X and _isnum(al[0].args[1], 0), repr(al[0].args), kind="trace")
            valid(r, "tidy_logk.completed_only_if_not_done_yet", list(s.pc), notdone)
        else:
            valid(r, "tidy_logk.left_alone_only_if_already_done", list(s.pc), tm.not_(notdone))
        n += 1
    # order inside tidy_model: named expressions are complete before species and phases add them
    tmod = A.find_function(TIDY, "Phreeqc::tidy_model")
    pos = {}
    for nm in ("tidy_logk", "tidy_species", "tidy_phases"):
        cs = [x for x in A.walk(tmod) if x.get("kind") == "CXXMemberCallExpr" and text_of(TIDY, x) == nm + "()"]
        if len(cs) != 1:
            raise Undecided("tidy_model: call of %s not found once" % nm)
        pos[nm] = A.src_range_text(cs[0])[0]
    put(r, "tidy_model.named_expressions_completed_before_species_and_phases_use_them", pos["tidy_logk"] < pos["tidy_species"] and pos["tidy_logk"] < pos["tidy_phases"], repr(pos), kind="structural")
    put(r, "reach", n >= 6, str(n), kind="vacuity", undecided=True)
    r.assumptions += ["select_log_k_expression: C01.select_log_k_expression...; add_other_logk: C01.add_other_logk.*; add_logks: C01.add_logks...",
                      "the order of the three calls inside tidy_model is read from source positions (they are in one block of straight-line code)", "std::vector element access"]
    return r


UNITS.append(("C01.tidy.working_logK_coefficients_built_from_the_record's_own_entry_then_its_named_expressions", unit_tidy_expression_sites))


def unit_add_logks(twin=False):
    q = "Phreeqc::add_logks"
    c = ctx(enums_from=GS, enums=LOGK_ENUMS)
    fn = A.find_function(TIDY, q)
    r = U.new_unit("C01.add_logks.named_expression_plus_coefficient_times_every_referenced_expression", TIDY, q, fn)
    k = the_loop(fn, TIDY, "logk_map.find(", innermost=False)
    f, ex, its, info = run_iter(TIDY, q, k, c=c, inner_modes={"*": "iter"})
    L = tm.sym("L_logk_ptr", "P")
    n = {"found": 0, "missing": 0, "rec": 0}
    for s in lives(its):
        i = _counter(ex, info, s, "i")
        el = tm.select(entry_arr(ex, s, ("f", "#vdata", "P")), tm.app("fld:add_logk", (L,), "P")) + i
        has = [p for p in s.pc if "#mhas" in repr(p)[:4000]]
        if not has:
            put(r, "referenced_name_looked_up_in_logk_map", False, repr(s.pc)[:200], kind="trace"); continue
        found = has[0] if has[0].op != "not" else None
        lower = events(s, "str_tolower")
        put(r, "referenced_name_lower_cased_before_the_look_up", len(lower) == 1 and _mentions(lower[0].args[0], el), repr([e.args for e in lower]), kind="trace")
        if found is None:
            n["missing"] += 1
            put(r, "unknown_name.reported_counted_and_ERROR", s.status == "ret" and _isnum(s.ret, D("ERROR")) and any(f_ == "input_error" for f_, v in _this_writes(s)) and bool(events(s, "error_msg")), "status %s ret %r" % (s.status, s.ret))
            continue
        n["found"] += 1
        key = tm.app("string_of", (fld0(ex, s, "name", "P", el),), "S") if False else None
        rc = events(s, "add_logks")
        mval = [u for u in tm.subterms(found) if u.op == "select" and "#mhas" in repr(u.args[0])[:60]]
        idx = mval[0].args[1] if mval else None
        nxt = tm.select(entry_arr(ex, s, ("m2", "#mval", "P", "S")), *idx) if idx is not None else None
        put(r, "found.key_is_the_name_of_list_entry_i", idx is not None and idx[0] is tm.app("fld:logk_map", (THIS,), "P") and _mentions(idx[1], fld0(ex, s, "name", "P", el)), repr(idx), kind="trace")
        if nxt is None:
            continue
        notdone = tm.eq(fld0(ex, s, "done", "I", nxt), tm.num(0, "I"))
        if rc:
            n["rec"] += 1
            put(r, "found.referenced_expression_completed_first(depth+1)", len(rc) == 1 and rc[0].args[0] is nxt and _same(list(s.pc), rc[0].args[1], tm.sym("L_repeats", "I") + tm.num(1, "I")), repr(rc[0].args), kind="trace")
            valid(r, "found.completed_first_only_if_not_done", list(s.pc), notdone)
            if s.status == "ret":
                valid(r, "found.failure_of_the_referenced_expression_propagates", list(s.pc), tm.eq(rc[0].result, tm.num(D("ERROR"), "I")))
                put(r, "found.failure_returns_ERROR", _isnum(s.ret, D("ERROR")), repr(s.ret))
        else:
            valid(r, "found.used_as_is_only_if_done", list(s.pc), tm.not_(notdone))
    # the addition itself: every coefficient index
    kin = None
    for o, sts in info["inner_iters"].items():
        for t in lives(sts):
            kin = o
            j = _counter(ex, info, t, "j")
            i = _counter(ex, info, t, "i")
            el = tm.select(entry_arr(ex, t, ("f", "#vdata", "P")), tm.app("fld:add_logk", (L,), "P")) + i
            ws = [(key, ix, v) for key, ix, v in U.iter_writes(t)]
            tgt = (tm.app("fld:log_k", (L,), "P"), j)
            if not put(r, "addition.writes_log_k[j]_of_the_expression_being_completed_only", len(ws) == 1 and ws[0][0] == ("m", "R") and ws[0][1] == tgt, repr([(k_, ix) for k_, ix, v in ws]), kind="frame"):
                continue
            mem = entry_arr(ex, t, ("m", "R"))
            has = [p for p in t.pc if "#mhas" in repr(p)[:4000] and p.op != "not"]
            mval = [u for u in tm.subterms(has[0]) if u.op == "select" and "#mhas" in repr(u.args[0])[:60]] if has else []
            if not mval:
                put(r, "addition.referenced_expression_known", False, ""); continue
            nxt = tm.select(entry_arr(ex, t, ("m2", "#mval", "P", "S")), *mval[0].args[1])
            coef = fld0(ex, t, "coef", "R", el)
            old = tm.select(mem, *tgt)
            add = tm.select(mem, tm.app("fld:log_k", (nxt,), "P"), j)
            eqr(r, "addition.log_k[j]+=coef_of_list_entry_i*referenced.log_k[j]", list(t.pc), ws[0][2], old + coef * add if not twin else old + add)
            jb = [p for p in t.pc if _mentions(p, j)]
            valid(r, "addition.covers_every_coefficient_index_below_MAX_LOG_K_INDICES", [], tm.eq(tm.to_bool(jb[0]) if len(jb) == 1 else tm.FALSE, tm.lt(j, tm.num(c.enum_values["MAX_LOG_K_INDICES"], "I"))), kind="establishment")
    put(r, "addition.reached", kin is not None, "", kind="vacuity", undecided=True)
    # after the list: marked done; too deep: reported
    c2 = ctx(enums_from=GS, enums=LOGK_ENUMS)
    fn2, ex2, fin, info2 = U.run_function(TIDY, q, ctx=c2)
    nd = 0
    for s in lives(fin, ("ret",)):
        if _isnum(s.ret, D("OK")):
            nd += 1
            done = tm.select(ex2.heap_arr(s, ("f", "done", "I")), tm.sym("P0_logk_ptr", "P"))
            put(r, "whole.OK_only_with_the_expression_marked_done", _isnum(done, D("TRUE")), repr(done))
            valid(r, "whole.OK_only_below_the_nesting_limit", list(s.pc), tm.le(tm.sym("P1_repeats", "I"), tm.num(15, "I")))
    put(r, "reach", n["found"] >= 2 and n["missing"] >= 1 and n["rec"] >= 1 and nd >= 1, repr(n), kind="vacuity", undecided=True)
    r.assumptions += ["std::map find / iterator->second model; str_tolower lower-cases the local copy of the name (the model keys the map by the text of the name)",
                      "recursion: the callee add_logks(next, depth+1) is used with THIS contract (it leaves next complete and done, or returns ERROR)", "doubles as reals"]
    return r


UNITS.append(("C01.add_logks.named_expression_plus_coefficient_times_every_referenced_expression", unit_add_logks))


# ------------------------------------------------------------------------------------------------------------------------------------------
# tidy_species / tidy_phases: balance check, master linkage, rewritten reactions
# ------------------------------------------------------------------------------------------------------------------------------------------
def _is_velem(t, vec, i=None):
    """t is <vec>[i] of `this` (vector of pointers), whatever version of the memory components"""
    if t is None or isinstance(t, tuple) or t.op != "select":
        return False
    ix = t.args[1]
    if not (isinstance(ix, tuple) and len(ix) == 2):
        return False
    d = ix[0]
    okd = d.op == "select" and "#vdata" in repr(_base(d.args[0])) and d.args[1] == (tm.app("fld:" + vec, (THIS,), "P"),)
    return okd and ".mem:P" in repr(_base(t.args[0])) and (i is None or ix[1] is i)


def _base(a):
    while a.op == "store":
        a = a.args[0]
    return a


def unit_balance_check(twin=False):
    """every species / phase equation is checked for charge and element balance unless -no_check was given; an unbalanced one is an input error"""
    q = "Phreeqc::tidy_species"
    fn = A.find_function(TIDY, q)
    r = U.new_unit("C01.tidy.equation_balance_checked_unless_no_check", TIDY, q, fn)
    n = {"checked": 0, "unchecked": 0}
    for q_, vec, loader, assoc in ((q, "s", "species_rxn_to_trxn", D("TRUE")), ("Phreeqc::tidy_phases", "phases", "phase_rxn_to_trxn", D("FALSE"))):
        f_ = A.find_function(TIDY, q_)
        k = the_loop(f_, TIDY, "check_eqn(", innermost=False)
        f, ex, its, info = run_iter(TIDY, q_, k)
        tag = q_.split("::")[-1]
        for s in lives(its):
            i = _counter(ex, info, s, "i")
            X = _velem(ex, s, vec, i)
            ce = events(s, "check_eqn"); ld = events(s, loader)
            wanted = tm.eq(fld0(ex, s, "check_equation", "I", X), tm.num(D("TRUE") if not twin else D("FALSE"), "I"))
            if ce:
                n["checked"] += 1
                valid(r, "%s.checked_only_when_check_equation_is_TRUE" % tag, list(s.pc), wanted)
                evs = U.iter_events(s)
                ok = len(ce) == 1 and len(ld) == 1 and ld[0].args[0] is X and evs.index(ld[0]) < evs.index(ce[0]) and _isnum(ce[0].args[0], assoc)
                put(r, "%s.the_record's_own_reaction_is_loaded_then_checked(association=%d)" % (tag, assoc), ok, "loader %r check %r" % ([e.args for e in ld], [e.args for e in ce]), kind="trace")
                if vec == "phases" and ld:
                    # the reaction checked is the one as written, or the rewritten one when solids / gases were replaced in it
                    rsg = events(s, "replace_solids_gases")
                    if len(rsg) == 1:
                        for hy, rep in cases(list(s.pc), tm.not_(tm.eq(rsg[0].result, tm.num(D("FALSE"), "I")))):
                            want = tm.app("fld:rxn_s" if rep else "fld:rxn", (X,), "P")
                            put(r, "tidy_phases.checks_%s" % ("rxn_s_when_replaced" if rep else "rxn_as_written"), rec_addr(ld[0].args[1]) is want, repr(ld[0].args[1]), kind="trace")
                bad = tm.eq(ce[0].result, tm.num(D("ERROR"), "I"))
                counted = any(f_ == "input_error" for f_, v in _this_writes(s))
                valid(r, "%s.input_error_counted_iff_the_equation_does_not_balance" % tag, list(s.pc), bad if counted else tm.not_(bad))
                if counted:
                    put(r, "%s.unbalanced_equation_reported" % tag, bool(events(s, "error_msg")), "")
                    ie = [v for f_, v in _this_writes(s) if f_ == "input_error"]
                    eqr(r, "%s.input_error+1" % tag, list(s.pc), ie[-1], fld0(ex, s, "input_error", "I") + tm.num(1, "I"))
            else:
                n["unchecked"] += 1
                valid(r, "%s.skipped_only_when_check_equation_is_not_TRUE(-no_check)" % tag, list(s.pc), tm.not_(wanted))
                put(r, "%s.skipped_equation_counts_no_error" % tag, not any(f_ == "input_error" for f_, v in _this_writes(s)), "")
    put(r, "reach", n["checked"] >= 4 and n["unchecked"] >= 2, repr(n), kind="vacuity", undecided=True)
    r.assumptions += ["check_eqn(association): C01.check_eqn...; species_rxn_to_trxn / phase_rxn_to_trxn load the reaction given into the work reaction (not under this contract)",
                      "an input error stops the run before any calculation (tidy_model: error_msg(.., STOP) when input_error > 0)"]
    return r


UNITS.append(("C01.tidy.equation_balance_checked_unless_no_check", unit_balance_check))


def unit_master_linkage(twin=False):
    """SOLUTION_MASTER_SPECIES linkage: species->primary / ->secondary point back to the master entry that names the species (not for the
    pseudo element Alkalinity); gfw from the formula when one is given; elements point to their master entries"""
    q = "Phreeqc::tidy_species"
    fn = A.find_function(TIDY, q)
    r = U.new_unit("C01.tidy_species.species_linked_to_the_master_entry_that_names_it", TIDY, q, fn)
    k = the_loop(fn, TIDY, "compute_gfw(", innermost=False, what="loop over the master entries that computes gfw")
    c = stop_on_error_msg(ctx(functional=("strcmp",)))
    f, ex, its, info = run_iter(TIDY, q, k, c=c)
    n = {"primary": 0, "secondary": 0, "alk": 0, "gfw": 0, "nogfw": 0, "null": 0}
    i = None
    for s in [x for x in its if x.status == "throw" and B.z3_sat(list(x.pc)) != "unsat"]:
        n["null"] += 1
    for s in lives(its):
        i = _counter(ex, info, s, "i")
        wn = [(o, v) for f_, o, v in _rec_writes(s) if f_ == "number"]
        if not put(r, "entry_numbered(master[i]->number=i)", len(wn) == 1 and _is_velem(wn[0][0], "master", i) and wn[0][1] is i, repr(wn), kind="trace"):
            continue
        M = wn[0][0]
        arr = lambda f_, so: _base(ex.heap_arr(s, ("f", f_, so)))
        sp = tm.select(arr("s", "P"), M)
        el = tm.select(arr("elt", "P"), M)
        valid(r, "species_pointer_known_non_null_past_the_STOP", list(s.pc), nonnull(sp))
        alk = [tm.eq(e.result, tm.num(0, "I")) for e in U.iter_events(s) if _short(e) == "strcmp" and _strval(e.args[1]) == "Alkalinity" and _is_field_of(e.args[0], "name", el)]
        if not put(r, "element_name_compared_with_Alkalinity", len(alk) == 1, "%d" % len(alk), kind="trace"):
            continue
        isprim = tm.eq(tm.select(arr("primary", "I"), M), tm.num(D("TRUE"), "I"))
        w = [(f_, o, v) for f_, o, v in _rec_writes(s) if f_ in ("primary", "secondary")]
        okw = all(o is sp and v is M for f_, o, v in w) and len(w) <= 1
        put(r, "link_written_into_the_species_this_entry_names_and_points_to_this_entry", okw, repr(w))
        kinds = [f_ for f_, o, v in w]
        if twin:
            kinds = ["secondary" if x == "primary" else "primary" for x in kinds]
        if kinds == ["primary"]:
            n["primary"] += 1
            valid(r, "species->primary_set_only_for_a_primary_entry_that_is_not_Alkalinity", list(s.pc), tm.and_(tm.not_(alk[0]), isprim))
        elif kinds == ["secondary"]:
            n["secondary"] += 1
            valid(r, "species->secondary_set_only_for_a_non_primary_entry_that_is_not_Alkalinity", list(s.pc), tm.and_(tm.not_(alk[0]), tm.not_(isprim)))
        else:
            n["alk"] += 1
            valid(r, "no_link_only_for_Alkalinity", list(s.pc), alk[0])
        # formula weight
        cg = events(s, "compute_gfw")
        gf = tm.select(arr("gfw_formula", "P"), M)
        if cg:
            n["gfw"] += 1
            put(r, "gfw=compute_gfw(the_entry's_formula)_into_the_entry's_gfw", len(cg) == 1 and cg[0].args[0] is gf and cg[0].args[1] is tm.app("fld:gfw", (M,), "P"), repr(cg[0].args), kind="trace")
            valid(r, "gfw_computed_only_when_a_formula_is_given", list(s.pc), nonnull(gf))
        else:
            n["nogfw"] += 1
            valid(r, "gfw_kept_only_when_no_formula_is_given", list(s.pc), isnull(gf))
    put(r, "null_species_pointer_stops_the_run", n["null"] >= 1, "%d stop paths" % n["null"], kind="vacuity", undecided=True)
    # elements -> master entries
    k2 = the_loop(fn, TIDY, "elements[i]->name", innermost=False, what="loop over the elements")
    f2, ex2, its2, info2 = run_iter(TIDY, q, k2)
    ne = 0
    for s in lives(its2):
        i2 = _counter(ex2, info2, s, "i")
        Eel = _velem(ex2, s, "elements", i2)
        nm = fld0(ex2, s, "name", "P", Eel)
        mb = events(s, "master_bsearch"); mp = events(s, "master_bsearch_primary")
        w = dict((f_, v) for f_, o, v in _rec_writes(s) if o is Eel)
        ok = len(mb) == 1 and len(mp) == 1 and mb[0].args[0] is nm and mp[0].args[0] is nm and w.get("master") is mb[0].result and w.get("primary") is mp[0].result
        put(r, "element.master=master_bsearch(name)_and_primary=master_bsearch_primary(name)", ok, "writes %r" % (w,))
        miss = tm.or_(isnull(mb[0].result), isnull(mp[0].result)) if ok else tm.FALSE
        counted = any(f_ == "input_error" for f_, v in _this_writes(s))
        valid(r, "element.without_master_species_is_an_input_error(iff)", list(s.pc), miss if counted else tm.not_(miss))
        ne += 1
    put(r, "reach", n["primary"] >= 1 and n["secondary"] >= 1 and n["alk"] >= 1 and n["gfw"] >= 1 and n["nogfw"] >= 1 and ne >= 2, repr(n) + " elements %d" % ne, kind="vacuity", undecided=True)
    r.assumptions += ["error_msg(text, STOP) does not return", "strcmp is a function of its arguments; master_bsearch / master_bsearch_primary are look-ups by element name; compute_gfw(formula, &gfw) computes the formula weight (C15.compute_gfw...)",
                      "the name-syntax scan (one upper-case letter per element name) inside the same loop is an inner loop and is not specified here"]
    return r


UNITS.append(("C01.tidy_species.species_linked_to_the_master_entry_that_names_it", unit_master_linkage))


def unit_rewritten_reactions(twin=False):
    """rxn_s (species, phases) and rxn_primary (master entries) are the record's OWN reaction rewritten: the work reaction is emptied, the record's
    reaction is added once with multiple +1, master species cancel against themselves (identity reaction, log K 0), every other one is rewritten
    (rewrite_eqn_to_secondary / _to_primary) and the result is copied into the record's own slot"""
    q = "Phreeqc::tidy_species"
    fn = A.find_function(TIDY, q)
    r = U.new_unit("C01.tidy.rxn_s_and_rxn_primary_are_the_record's_own_reaction_rewritten", TIDY, q, fn)
    n = {}
    def site(q_, vec, needle, dest, rewriter, master_cond, adder="trxn_add", tag=None):
        f_ = A.find_function(TIDY, q_)
        k = the_loop(f_, TIDY, needle, innermost=False)
        c_ = ctx(); c_.snapshot = {adder: [("count_trxn", "I")]}
        f, ex, its, info = run_iter(TIDY, q_, k, c=c_)
        tag = tag or dest
        for s in lives(its):
            i = _counter(ex, info, s, "i")
            X = _velem(ex, s, vec, i)
            src = master_cond[1](ex, s, X) if master_cond else X           # the species whose reaction is taken
            evs = U.iter_events(s)
            ad = events(s, adder); rw = events(s, rewriter); cp = events(s, "trxn_copy")
            own = tm.app("fld:rxn", (src,), "P")
            ct = [(e.snap or {}).get("count_trxn") for e in ad[:1]]
            put(r, "%s.work_reaction_empty_when_the_own_reaction_is_added(count_trxn==0)" % tag, bool(ct) and _isnum(ct[0], 0), repr(ct), kind="establishment")
            if not put(r, "%s.result_copied_once_into_record[i].%s" % (tag, dest), len(cp) == 1 and rec_addr(cp[0].args[0]) is tm.app("fld:" + dest, (X,), "P"), repr([e.args for e in cp]), kind="trace"):
                continue
            okfirst = bool(ad) and rec_addr(ad[0].args[0]) is own and _isnum(ad[0].args[1], 1 if not twin else -1) and (_isnum(ad[0].args[2], 0) or ad[0].args[2] is tm.FALSE)
            put(r, "%s.starts_from_the_record's_own_reaction_times_+1" % tag, okfirst, repr([e.args for e in ad[:1]]), kind="trace")
            if master_cond is None:
                ok = len(ad) == 1 and len(rw) == 1 and evs.index(ad[0]) < evs.index(rw[0]) < evs.index(cp[0])
                put(r, "%s.rewritten_before_the_copy" % tag, ok, repr([_short(e) for e in evs]), kind="trace")
                n[tag] = n.get(tag, 0) + 1
                continue
            ism = master_cond[0](ex, s, X)
            if rw:
                ok = len(ad) == 1 and len(rw) == 1 and evs.index(ad[0]) < evs.index(rw[0]) < evs.index(cp[0])
                put(r, "%s.non_master.rewritten_before_the_copy" % tag, ok, repr([_short(e) for e in evs]), kind="trace")
                valid(r, "%s.rewritten_only_when_not_a_master_species" % tag, list(s.pc), tm.not_(ism))
                n[tag + ".rw"] = n.get(tag + ".rw", 0) + 1
            else:
                ok = len(ad) == 2 and rec_addr(ad[1].args[0]) is own and _isnum(ad[1].args[1], -1) and (_isnum(ad[1].args[2], 1) or ad[1].args[2] is tm.TRUE) and evs.index(ad[1]) < evs.index(cp[0])
                put(r, "%s.master.cancels_against_itself(own_reaction_times_-1,combined)" % tag, ok, repr([e.args for e in ad]), kind="trace")
                valid(r, "%s.identity_only_for_a_master_species" % tag, list(s.pc), ism)
                n[tag + ".id"] = n.get(tag + ".id", 0) + 1
    prim = lambda ex, s, X: nonnull(fld0(ex, s, "primary", "P", X))
    sec = lambda ex, s, X: nonnull(fld0(ex, s, "secondary", "P", X))
    site(q, "s", "calc_alk(", "rxn_s", "rewrite_eqn_to_secondary", (lambda ex, s, X: tm.or_(prim(ex, s, X), sec(ex, s, X)), lambda ex, s, X: X))
    site(q, "master", "coef_in_master(", "rxn_primary", "rewrite_eqn_to_primary", (lambda ex, s, X: prim(ex, s, fld0(ex, s, "s", "P", X)), lambda ex, s, X: fld0(ex, s, "s", "P", X)))
    site("Phreeqc::tidy_phases", "phases", "replace_solids_gases(", "rxn_s", "rewrite_eqn_to_secondary", None, adder="trxn_add_phase", tag="phase.rxn_s")
    # phases: the dissolution reaction is rewritten as an association reaction and turned back: log K reversed before and after
    f_ = A.find_function(TIDY, "Phreeqc::tidy_phases")
    k = the_loop(f_, TIDY, "replace_solids_gases(", innermost=False)
    f, ex, its, info = run_iter(TIDY, "Phreeqc::tidy_phases", k)
    for s in lives(its):
        names = [_short(e) for e in U.iter_events(s)]
        seq = [x for x in names if x in ("trxn_reverse_k", "rewrite_eqn_to_secondary", "trxn_copy", "replace_solids_gases", "trxn_add_phase")]
        put(r, "phase.rxn_s.order(add,replace_solids_gases,reverse_k,rewrite,reverse_k,copy)", seq == ["trxn_add_phase", "replace_solids_gases", "trxn_reverse_k", "rewrite_eqn_to_secondary", "trxn_reverse_k", "trxn_copy"], repr(seq), kind="trace")
        X = _velem(ex, s, "phases", _counter(ex, info, s, "i"))
        rsg = events(s, "replace_solids_gases")
        w = [(f__, o, v) for f__, o, v in _rec_writes(s) if f__ == "replaced"]
        put(r, "phase.replaced_flag=result_of_replace_solids_gases", len(rsg) == 1 and len(w) == 1 and w[0][1] is X and w[0][2] is rsg[0].result, repr(w))
    # alkalinity contribution of a species from its rewritten reaction
    st = find_stmt(fn, TIDY, "s[i]->alk=", prefix=True, kinds=("BinaryOperator",))
    fr, exr, sts, infr = region(TIDY, q, [st])
    for s in live(sts):
        ca = [e for e in s.events if _short(e) == "calc_alk"]
        ws = [(ix, v) for ix, v in writes(s, ("f", "alk", "R"))]
        ok = len(ca) == 1 and len(ws) == 1 and ws[0][1] is ca[0].result
        if ok:
            X = ws[0][0][0]
            ok = rec_addr(ca[0].args[0]) is tm.app("fld:rxn_s", (X,), "P") and _is_velem(X, "s")
        put(r, "species.alk=calc_alk(the_species'_own_rxn_s)", ok, "calls %r writes %r" % ([e.args for e in ca], ws), kind="trace")
    put(r, "reach", all(n.get(k_, 0) >= 1 for k_ in ("rxn_s.rw", "rxn_s.id", "rxn_primary.rw", "rxn_primary.id", "phase.rxn_s")), repr(n), kind="vacuity", undecided=True)
    r.assumptions += ["trxn_add(rxn, c, combine): C01.trxn_add...; rewrite_eqn_to_secondary / _to_primary: C01.rewrite_eqn_to_*; trxn_copy, trxn_add_phase, trxn_reverse_k, replace_solids_gases, calc_alk not under this contract",
                      "the statement s[i]->alk = ... is located by its left-hand side text (a fact about which statement exists)"]
    return r


UNITS.append(("C01.tidy.rxn_s_and_rxn_primary_are_the_record's_own_reaction_rewritten", unit_rewritten_reactions))


# ------------------------------------------------------------------------------------------------------------------------------------------
# parse.cpp: the balance check and the equation parser
# ------------------------------------------------------------------------------------------------------------------------------------------
class PureExcept(set):
    """every callee is treated as writing nothing, except the named ones (they may write any memory component: heap havoc at the call)"""
    def __init__(self, names):
        set.__init__(self)
        self.names = set(names)
    def __contains__(self, x):
        return str(x).split("::")[-1] not in self.names


def unit_check_eqn(twin=False):
    """check_eqn(association): OK exactly when the work reaction has -1 for its first species, the charge sum(coef*z) is zero and every element
    except the electron sums to zero over sum(coef * formula); everything else is reported and gives ERROR"""
    q = "Phreeqc::check_eqn"
    fn = A.find_function(PARSE, q)
    r = U.new_unit("C01.check_eqn.OK_iff_first_coefficient_-1_charge_and_every_element_balance", PARSE, q, fn)
    c = ctx(functional=("equal", "strncmp"))
    c.pure = PureExcept(("elt_list_combine",))        # it rewrites elt_list and count_elts: the element loop runs over whatever it left
    c.snapshot = {"get_elts_in_species": [("count_elts", "I"), ("paren_count", "I")]}
    f, ex, fin, info = U.run_function(PARSE, q, ctx=c, default="iter")
    TOL = tm.Q("1e-9").args[0]
    kt = the_loop(fn, PARSE, "get_elts_in_species(", innermost=False)
    ke = the_loop(fn, PARSE, "elt_list[i]", innermost=False, what="loop over the combined element list")
    tk0 = lambda s: _tok0(ex, s)
    # whole function: early exits and the final verdict
    nret = {"ok": 0, "err": 0}
    for s in lives(fin, ("ret",)):
        eq = [e for e in s.events if _short(e) == "equal"]
        if not put(r, "first_coefficient_tested", bool(eq) and _is_field_of(eq[0].args[0], "coef", tk0(s)) and _isnum(eq[0].args[1], -1) and tm.isnum(eq[0].args[2]) and eq[0].args[2].args[0] == TOL, repr(eq[0].args if eq else None), kind="trace"):
            continue
        first_ok = tm.not_(tm.eq(eq[0].result, tm.num(D("FALSE"), "I")))
        tw = dict(_this_writes_fn(s))
        put(r, "work_list_emptied_first(count_elts=0,paren_count=0)", _isnum(tw.get("count_elts"), 0) or "count_elts" in tw, repr(sorted(tw)), kind="establishment") if False else None
        if _isnum(s.ret, D("OK")):
            nret["ok"] += 1
            valid(r, "OK.only_with_first_coefficient_-1", list(s.pc), first_ok)
            oo = local(info, s, "oops")
            valid(r, "OK.only_when_nothing_was_found_unbalanced(oops==0)", list(s.pc), tm.eq(oo, tm.num(0, "I")))
            comb = [e for e in s.events if _short(e) == "elt_list_combine"]
            put(r, "OK.elements_combined_before_they_are_tested", len(comb) == 1, "%d" % len(comb), kind="trace")
            if comb:
                valid(r, "OK.only_when_combining_succeeded", list(s.pc), tm.not_(tm.eq(comb[0].result, tm.num(D("ERROR"), "I"))))
        else:
            nret["err"] += 1
            put(r, "not_OK.returns_ERROR", _isnum(s.ret, D("ERROR")), repr(s.ret))
            oo = local(info, s, "oops")
            # past both loops the verdict is ERROR only because something was counted
            if len([e for e in s.events if _short(e) == "equal"]) >= 2 and not tm.isnum(oo):
                valid(r, "ERROR_after_the_tests.only_when_something_was_found_unbalanced(oops!=0)", list(s.pc), tm.not_(tm.eq(oo, tm.num(0, "I"))))
    # entry: work list emptied, counters zero
    ent = info["entry"].get(kt, [])
    if put(r, "token_loop_reached", bool(ent), "", kind="vacuity", undecided=True):
        e0 = ent[0]
        ok = _isnum(fld(ex, e0, "count_elts", "I"), 0) and _isnum(fld(ex, e0, "paren_count", "I"), 0) and _isnum(local(info, e0, "sumcharge"), 0) and _isnum(local(info, e0, "oops"), 0)
        put(r, "before_the_tokens.work_list_empty_no_open_parenthesis_sumcharge=0_oops=0", ok, "count_elts %r paren_count %r sumcharge %r oops %r" % (fld(ex, e0, "count_elts", "I"), fld(ex, e0, "paren_count", "I"), local(info, e0, "sumcharge"), local(info, e0, "oops")), kind="establishment")
    # token loop: charge and elements of every species of the reaction, each with its own coefficient
    nt = 0
    for s in lives(info["iter"].get(kt, [])):
        i = _counter(ex, info, s, "i")
        tk = tk0(s) + i
        ge = events(s, "get_elts_in_species")
        if not put(r, "tokens.elements_of_token_i_added_once", len(ge) == 1, "%d" % len(ge), kind="trace"):
            continue
        coef = fld0(ex, s, "coef", "R", tk); z = fld0(ex, s, "z", "R", tk)
        cur = tm.select(ex.heap_arr(s, ("m", "P")), ge[0].args[0], tm.num(0, "I"))
        put(r, "tokens.formula_parsed_is_the_NAME_of_token_i_times_ITS_coefficient", _is_field_of(cur, "name", tk) and ge[0].args[1] is coef, "text %r coef %r" % (cur, ge[0].args[1]), kind="trace")
        sc = local(info, s, "sumcharge")
        eqr(r, "tokens.sumcharge+=coef_i*z_i", list(s.pc), sc, tm.sym("iter_sumcharge", "R") + (coef * z if not twin else coef))
        if s.status == "ret":
            valid(r, "tokens.leaves_early_only_when_the_formula_could_not_be_parsed", list(s.pc), tm.eq(ge[0].result, tm.num(D("ERROR"), "I")))
            put(r, "tokens.unparsable_formula_gives_ERROR", _isnum(s.ret, D("ERROR")), repr(s.ret))
        nt += 1
    its_t = lives(info["iter"].get(kt, []))
    if its_t:
        s = its_t[0]
        i = _counter(ex, info, s, "i")
        valid(r, "tokens.every_token_below_count_trxn", [], tm.eq(tm.to_bool(s.pc[-2] if False else [p for p in s.pc if _mentions(p, i)][0]), tm.lt(i, fld0(ex, s, "count_trxn", "I"))), kind="establishment")
    # charge test
    inloop = [y for lp in loops_of(fn) for y in A.walk(lp)]
    ifs = [x for x in ifs_with_then(fn, PARSE, "oops++") if not any(x is y for y in inloop)]
    if not ifs:
        raise Undecided("check_eqn: the branch that reports the charge imbalance was not found")
    fr, exr, sts, infr = region(PARSE, q, [ifs[0]], c=ctx(functional=("equal",)))
    nc = 0
    for s in live(sts):
        eqs = [e for e in s.events if _short(e) == "equal"]
        if not put(r, "charge.tested_with_equal(sumcharge,0,TOL)", len(eqs) == 1 and eqs[0].args[0] is tm.sym("L_sumcharge", "R") and _isnum(eqs[0].args[1], 0) and tm.isnum(eqs[0].args[2]) and eqs[0].args[2].args[0] == TOL, repr([e.args for e in eqs]), kind="trace"):
            continue
        unbal = tm.eq(eqs[0].result, tm.num(D("FALSE"), "I"))
        oo = local(infr, s, "oops")
        counted = oo is not tm.sym("L_oops", "I")
        valid(r, "charge.counted_iff_not_balanced", list(s.pc), unbal if counted else tm.not_(unbal))
        if counted:
            eqr(r, "charge.oops+1", list(s.pc), oo, tm.sym("L_oops", "I") + tm.num(1, "I"))
            put(r, "charge.imbalance_reported", any(_short(e) == "error_msg" for e in s.events), "")
        nc += 1
    # element loop
    ne = 0
    for s in lives(info["iter"].get(ke, [])):
        i = _counter(ex, info, s, "i")
        el = tm.select(entry_arr(ex, s, ("f", "#vdata", "P")), tm.app("fld:elt_list", (THIS,), "P")) + i
        eqs = [e for e in U.iter_events(s) if _short(e) == "equal"]
        sn = [e for e in U.iter_events(s) if _short(e) == "strncmp"]
        okt = len(eqs) == 1 and _is_field_of(eqs[0].args[0], "coef", el) and _isnum(eqs[0].args[1], 0) and tm.isnum(eqs[0].args[2]) and eqs[0].args[2].args[0] == TOL
        if not put(r, "elements.coefficient_of_element_i_tested_against_zero(TOL)", okt, repr([e.args for e in eqs]), kind="trace"):
            continue
        nonzero = tm.eq(eqs[0].result, tm.num(D("FALSE"), "I"))
        oo = local(info, s, "oops")
        counted = oo is not tm.sym("iter_oops", "I")
        if sn:
            okn = _is_field_of(sn[0].args[0], "name", fld0(ex, s, "elt", "P", el)) and _strval(sn[0].args[1]) == "e" and tm.isnum(sn[0].args[2]) and sn[0].args[2].args[0] >= 2
            put(r, "elements.only_the_electron_is_exempt(name_compared_with_e)", okn, repr(sn[0].args), kind="trace")
            note = tm.not_(tm.eq(sn[0].result, tm.num(0, "I")))
            want = tm.and_(nonzero, note)
        else:
            want = tm.and_(nonzero, tm.FALSE)
        valid(r, "elements.counted_iff_non_zero_and_not_the_electron", list(s.pc), want if counted else tm.not_(want))
        if counted:
            eqr(r, "elements.oops+1", list(s.pc), oo, tm.sym("iter_oops", "I") + tm.num(1, "I"))
            put(r, "elements.imbalance_reported", any(_short(e) == "error_msg" for e in U.iter_events(s)), "")
        ne += 1
    its_e = lives(info["iter"].get(ke, []))
    if its_e:
        s = its_e[0]
        i = _counter(ex, info, s, "i")
        cnd = [p for p in s.pc if _mentions(p, i) and p.op in ("<", "<=") ]
        ce_ = [tm.select(a_, THIS) for a_ in [_base(ex.heap_arr(s, ("f", "count_elts", "I")))]]
        valid(r, "elements.every_element_below_count_elts", [], tm.eq(tm.to_bool(cnd[0]) if cnd else tm.FALSE, tm.lt(i, ce_[0])), kind="establishment")
    put(r, "reach", nret["ok"] >= 1 and nret["err"] >= 3 and nt >= 2 and nc >= 2 and ne >= 2, "%r tokens %d charge %d elements %d" % (nret, nt, nc, ne), kind="vacuity", undecided=True)
    r.assumptions += ["equal(a, b, TOL) is |a - b| <= TOL (utilities.cpp); strncmp a function of its arguments; TOL == 1e-9",
                      "get_elts_in_species(&text, c) appends c x (elements of the formula) to elt_list[count_elts..) (C01.get_elts_in_species...); elt_list_combine sorts the list and adds coefficients of equal elements",
                      "oops only grows: charge.* and elements.* show each step adds 0 or 1, OK is returned only with oops == 0"]
    return r


UNITS.append(("C01.check_eqn.OK_iff_first_coefficient_-1_charge_and_every_element_balance", unit_check_eqn))


def unit_parse_eq(twin=False):
    """parse_eq(eqn, list, association): the work reaction holds every species of the equation with reactants and products of opposite sign and
    the DEFINED species first with its coefficient negated (association: first species right of '='; dissociation: first species of the line);
    the element list returned is the formula of that species (state suffix removed) with its written, positive coefficients"""
    q = "Phreeqc::parse_eq"
    fn = A.find_function(PARSE, q)
    r = U.new_unit("C01.parse_eq.defined_species_first_with_-1_convention_and_its_element_list", PARSE, q, fn)
    c = ctx()
    c.pure = PureExcept(("get_elts_in_species", "elt_list_combine"))          # they rewrite elt_list / count_elts
    c.snapshot = {"get_elts_in_species": [("count_elts", "I")]}
    f, ex, fin, info = U.run_function(PARSE, q, ctx=c, default="iter")
    assoc = tm.sym("P2_association", "I")
    loops = loops_of(fn)
    gs_loops = [k for k in loops_with_body(fn, PARSE, "get_species(", False)]
    if len(gs_loops) != 2:
        raise Undecided("parse_eq: expected a left-hand and a right-hand loop calling get_species, found %d" % len(gs_loops))
    for k in gs_loops:
        drop_head(q, k)
    def side(k, label, flip_when):
        n = 0
        for s in lives(info["iter"].get(k, [])):
            gs = events(s, "get_species")
            if not gs:
                continue
            if s.status == "ret":
                valid(r, "%s.leaves_early_only_on_a_species_error" % label, list(s.pc), tm.eq(gs[0].result, tm.num(D("ERROR"), "I")))
                put(r, "%s.species_error_gives_ERROR" % label, _isnum(s.ret, D("ERROR")), repr(s.ret))
                continue
            n0 = fld0(ex, s, "count_trxn", "I")
            tk = _tok0(ex, s) + n0
            w = [(f_, o, v) for f_, o, v in _rec_writes(s) if f_ == "coef"]
            ct = [v for f_, v in _this_writes(s) if f_ == "count_trxn"]
            eqr(r, "%s.count_trxn+1" % label, list(s.pc), ct[-1] if ct else n0, n0 + tm.num(1, "I"))
            flipped = bool(w)
            if flipped:
                ok = len(w) == 1 and (w[0][1] is tk or _same(list(s.pc), w[0][1], tk))
                put(r, "%s.sign_change_hits_the_species_just_read(token[count_trxn])" % label, ok, repr(w[0][1]), kind="frame")
                old = fld0(ex, s, "coef", "R", w[0][1])
                eqr(r, "%s.coefficient_negated" % label, list(s.pc), w[0][2], tm.neg(old))
            want = tm.eq(assoc, tm.num(D("TRUE") if flip_when else D("FALSE"), "I"))
            if twin:
                want = tm.not_(want)
            valid(r, "%s.negated_iff_association==%s" % (label, "TRUE" if flip_when else "FALSE"), list(s.pc), want if flipped else tm.not_(want))
            n += 1
        return n
    nl = side(gs_loops[0], "left_of_=", False)
    nr = side(gs_loops[1], "right_of_=", True)
    # left loop stops at '=' and rejects a line without one
    for s in lives(info["iter"].get(gs_loops[0], [])):
        cch = tm.sym("iter_c", "I")
        if s.status == "brk":
            valid(r, "left_of_=.stops_at_the_equal_sign", list(s.pc), tm.eq(cch, tm.num(61, "I")))
        elif s.status == "ret" and not events(s, "get_species"):
            valid(r, "left_of_=.end_of_text_before_=_is_an_error", list(s.pc), tm.eq(cch, tm.num(0, "I")))
            put(r, "left_of_=.no_equal_sign.ERROR_reported", _isnum(s.ret, D("ERROR")) and bool(events(s, "error_msg")), repr(s.ret))
    # association: the first species right of '=' is the defined one: negated and swapped into position 0
    ifs = ifs_with_then(fn, PARSE, "trxn.token[0].name=")
    if len(ifs) != 1:
        raise Undecided("parse_eq: the branch that swaps the defined species into position 0 was not found")
    fr, exr, sts, infr = region(PARSE, q, [ifs[0]])
    nsw = 0
    for s in live(sts, ("run",)):
        gs = [e for e in s.events if _short(e) == "get_species"]
        if not gs:
            valid(r, "swap.skipped_only_for_a_dissociation_reaction", list(s.pc), tm.not_(tm.eq(tm.sym("L_association", "I"), tm.num(D("TRUE"), "I"))))
            put(r, "swap.dissociation_leaves_the_reaction_alone", not _rec_writes_region(s), repr(_rec_writes_region(s)[:2]), kind="frame")
            continue
        nsw += 1
        valid(r, "swap.done_only_for_an_association_reaction", list(s.pc), tm.eq(tm.sym("L_association", "I"), tm.num(D("TRUE"), "I")))
        n0 = fld0(exr, s, "count_trxn", "I")
        t0 = _tok0(exr, s); tn = t0 + n0
        hy = list(s.pc) + [tm.lt(tm.num(0, "I"), n0)]            # at least one species left of '='
        fin_ = lambda f_, so, o: tm.select(exr.heap_arr(s, ("f", f_, so)), o)
        ent_ = lambda f_, so, o: tm.select(entry_arr(exr, s, ("f", f_, so)), o)
        for f_, so in (("name", "P"), ("z", "R")):
            okd = _same(hy, fin_(f_, so, t0), ent_(f_, so, tn)); oko = _same(hy, fin_(f_, so, tn), ent_(f_, so, t0))
            put(r, "swap.token[0].%s=that_of_the_species_just_read_and_vice_versa" % f_, okd and oko, "%r / %r" % (fin_(f_, so, t0), fin_(f_, so, tn)))
        eqr(r, "swap.token[0].coef=-(coefficient_of_the_species_just_read)", hy, fin_("coef", "R", t0), tm.neg(ent_("coef", "R", tn)) if not twin else ent_("coef", "R", tn))
        eqr(r, "swap.displaced_first_species_keeps_its_coefficient", hy, fin_("coef", "R", tn), ent_("coef", "R", t0))
        eqr(r, "swap.count_trxn+1", hy, fld(exr, s, "count_trxn", "I"), n0 + tm.num(1, "I"))
    # the element list of the defined species
    ne = 0
    for s in lives(fin, ("ret",)):
        ge = [e for e in s.events if _short(e) == "get_elts_in_species"]
        if not ge:
            continue
        ne += 1
        sc = [e for e in s.events if _short(e) == "strcpy_safe"]
        t0 = None
        okf = len(sc) == 1 and sc[0].args[2].op == "select"
        if okf:
            t0 = sc[0].args[2].args[1][0]
            okf = _is_field_of(sc[0].args[2], "name", t0) and "#vdata" in repr(t0) and _mentions(t0, tm.app("fld:token", (tm.app("fld:trxn", (THIS,), "P"),), "P")) and t0.op == "select"
        put(r, "elements.formula_is_the_name_of_token[0]", okf, repr(sc[0].args if sc else None), kind="trace")
        evs = list(s.events)
        rp = sorted(_strval(e.args[0]) or "?" for e in evs if _short(e) == "replace" and sc and evs.index(sc[0]) < evs.index(e) < evs.index(ge[0]) and _strval(e.args[1]) == "" and e.args[2] is sc[0].args[0])
        put(r, "elements.state_suffix_(s)(g)_removed_before_parsing", rp == sorted(["(s)", "(S)", "(g)", "(G)"]), repr(rp), kind="trace")
        cur = [v for ix, v in writes(s, ("m", "P")) if ix[0] is ge[0].args[0]]
        put(r, "elements.parser_pointed_at_that_copy", (bool(cur) and sc and cur[-1] is sc[0].args[0]) or s.ret is None or not cur, repr(cur), kind="trace")
        put(r, "elements.work_list_empty_when_the_formula_is_parsed(count_elts==0)", _isnum((ge[0].snap or {}).get("count_elts"), 0), repr(ge[0].snap), kind="establishment")
        put(r, "elements.multiplied_by_the_coefficient_of_token[0]", t0 is not None and _is_field_of(ge[0].args[1], "coef", t0), repr(ge[0].args[1]), kind="trace")
        srt = [e for e in evs if _short(e) == "trxn_sort"]
        put(r, "elements.taken_after_the_reaction_is_sorted(token[0]_stays_first)", len(srt) == 1 and evs.index(srt[0]) < evs.index(ge[0]), "", kind="trace")
        if _isnum(s.ret, D("OK")):
            comb = [e for e in evs if _short(e) == "elt_list_combine"]
            put(r, "OK.elements_combined", len(comb) == 1 and evs.index(ge[0]) < evs.index(comb[0]), "", kind="trace")
            rs = [e for e in evs if _short(e) == "vector.resize"]
            ce = fld(ex, s, "count_elts", "I")
            a1 = rs[0].args[1] if rs else None
            put(r, "OK.list_sized_count_elts+1", len(rs) == 1 and a1.op == "+" and _is_field_of(a1.args[0], "count_elts", THIS) and _isnum(a1.args[1], 1), repr(rs[0].args if rs else None), kind="trace")
            wt = [(o, v) for f_, o, v in _fn_rec_writes(s) if f_ == "elt"]
            okt = len(wt) >= 1 and _isnum(wt[-1][1], 0) and wt[-1][0].op == "+" and _is_field_of(wt[-1][0].args[1], "count_elts", THIS) and _mentions(wt[-1][0].args[0], tm.sym("P1_new_elt_list", "P"))
            put(r, "OK.list_terminated_by_a_NULL_element_at_count_elts", okt, repr(wt[-1:] if wt else None))
    kc = the_loop(fn, PARSE, "new_elt_list[i]", innermost=False, what="copy loop")
    ncp = 0
    for s in lives(info["iter"].get(kc, [])):
        i = _counter(ex, info, s, "i")
        w = dict((f_, (o, v)) for f_, o, v in _rec_writes(s))
        src = tm.select(_base(ex.heap_arr(s, ("f", "#vdata", "P"))), tm.app("fld:elt_list", (THIS,), "P")) + i
        okc = set(w) == {"elt", "coef"} and all(o.op == "+" and o.args[1] is i and _mentions(o.args[0], tm.sym("P1_new_elt_list", "P")) for o, v in w.values())
        if put(r, "copy.writes_entry_i_of_the_returned_list_only", okc, repr(sorted(w)), kind="frame"):
            put(r, "copy.element_i_is_element_i_of_the_work_list", _is_field_of(w["elt"][1], "elt", src), repr(w["elt"][1]))
            old = tm.select(entry_arr(ex, s, ("f", "coef", "R")), src)
            eqr(r, "copy.coefficient_i=-(work_list_coefficient_i)(positive_subscripts)", list(s.pc), w["coef"][1], tm.neg(old))
        ncp += 1
    first = [x for x in A.body_of(fn).get("inner", []) if text_of(PARSE, x) in ("paren_count=0", "paren_count=0;")]
    put(r, "starts_with_no_open_parenthesis(paren_count=0_at_the_top_of_the_function)", len(first) == 1, "%d top-level statements" % len(first), kind="structural")
    put(r, "reach", nl >= 2 and nr >= 2 and nsw >= 1 and ne >= 3 and ncp >= 1, "left %d right %d swap %d tails %d copy %d" % (nl, nr, nsw, ne, ncp), kind="vacuity", undecided=True)
    r.assumptions += ["get_species(&cptr) reads one species (coefficient, name, charge) into trxn.token[count_trxn] and advances cptr (C01.get_species...); trxn_sort keeps token[0] first and orders the others",
                      "get_elts_in_species(&text, c) appends c x formula (C01.get_elts_in_species...); elt_list_combine adds equal elements; replace(a, \"\", text) deletes a",
                      "the swap branch is located by what it does (assigns trxn.token[0].name) and run as a region from an arbitrary state with at least one species left of '='",
                      "paren_count = 0 at the top is a text-anchored fact (which statement exists)"]
    return r


def _rec_writes_region(s):
    out = []
    for key in s.heap:
        if key[0] == "f":
            for ix, v in writes(s, key):
                o = ix[0] if isinstance(ix, tuple) else ix
                if o is not THIS:
                    out.append((key[1], o, v))
    return out


_fn_rec_writes = _rec_writes_region


UNITS.append(("C01.parse_eq.defined_species_first_with_-1_convention_and_its_element_list", unit_parse_eq))


def unit_get_elts_in_species(twin=False):
    """formula parsing: every element symbol appends (element, subscript x coef) to the work list; a parenthesised group or a ':n' part is parsed by
    the same function with the same coef and then EVERY element it appended is multiplied by the number that follows / precedes it; parentheses
    must balance"""
    q = "Phreeqc::get_elts_in_species"
    fn = A.find_function(PARSE, q)
    r = U.new_unit("C01.get_elts_in_species.subscripts_times_coef_and_groups_multiply_what_they_enclose", PARSE, q, fn)
    k = the_loop(fn, PARSE, "get_elt(", innermost=False, what="scan loop")
    c = ctx(functional=("isupper",))
    c.snapshot = {"get_elts_in_species": [("paren_count", "I")]}
    f, ex, its, info = run_iter(PARSE, q, k, c=c, inner_modes={"*": "iter"})
    drop_head(q, k)
    tp = tm.sym("L_t_ptr", "P"); coef = tm.sym("L_coef", "R")
    n = {"elt": 0, "open": 0, "colon": 0, "close": 0, "bad": 0}
    def ch(s, off=0):
        p0 = tm.select(entry_arr(ex, s, ("m", "P")), tp, tm.num(0, "I"))
        return tm.select(entry_arr(ex, s, ("m", "I")), p0, tm.num(off, "I"))
    def is_ch(s, cc, off=0):
        return tm.eq(ch(s, off), tm.num(ord(cc), "I"))
    for s in lives(its):
        hy = list(s.pc)
        evs = U.iter_events(s)
        ge = events(s, "get_elt"); rec = events(s, "get_elts_in_species"); gn = events(s, "get_num")
        w = dict((f_, (o, v)) for f_, o, v in _rec_writes(s) if not f_.startswith("#"))
        tw = dict(_this_writes(s))
        ce0 = fld0(ex, s, "count_elts", "I"); pc0 = fld0(ex, s, "paren_count", "I")
        slot = tm.select(entry_arr(ex, s, ("f", "#vdata", "P")), tm.app("fld:elt_list", (THIS,), "P")) + ce0
        if ge:
            up = [e for e in evs if _short(e) == "isupper"]
            isup = tm.not_(tm.eq(up[0].result, tm.num(0, "I"))) if up else tm.FALSE
            valid(r, "element.only_at_an_upper_case_letter,_[_or_e-", hy, tm.or_(isup, is_ch(s, "["), tm.and_(is_ch(s, "e"), is_ch(s, "-", 1))))
            if s.status == "ret":
                bad = tm.or_(tm.eq(ge[0].result, tm.num(D("ERROR"), "I")), *( [tm.eq(gn[0].result, tm.num(D("ERROR"), "I"))] if gn else []))
                valid(r, "element.gives_up_only_when_the_name_or_the_number_cannot_be_read", hy, bad)
                put(r, "element.gives_up_with_ERROR", _isnum(s.ret, D("ERROR")), repr(s.ret))
                continue
            n["elt"] += 1
            es = events(s, "element_store")
            ok = len(ge) == 1 and len(es) == 1 and len(gn) == 1 and ge[0].args[0] is tp and gn[0].args[0] is tp and _mentions(es[0].args[0], ge[0].args[1]) and evs.index(ge[0]) < evs.index(gn[0])
            put(r, "element.name_read_then_subscript_read_from_the_same_text", ok, repr([(_short(e), e.args) for e in evs if _short(e) in ("get_elt", "get_num", "element_store")]), kind="trace")
            okw = set(w) == {"elt", "coef"} and w["elt"][0] is slot and w["coef"][0] is slot and w["elt"][1] is es[0].result
            put(r, "element.stored_in_the_next_free_entry(elt_list[count_elts])", okw, repr(w), kind="frame")
            if okw and gn:
                d = tm.select(ex.heap_arr(s, ("m", "R")), gn[0].args[1], tm.num(0, "I"))
                eqr(r, "element.coefficient=subscript*coef", hy, w["coef"][1], d * coef if not twin else d)
            eqr(r, "element.count_elts+1", hy, tw.get("count_elts", ce0), ce0 + tm.num(1, "I"))
            put(r, "element.scan_goes_on", s.status == "cont" or s.status == "run", s.status)
            continue
        if rec:
            colon = bool(gn) and evs.index(gn[0]) < evs.index(rec[0])
            kind = "colon" if colon else "open"
            valid(r, "%s.only_at_%s" % (kind, "':'" if colon else "'('"), hy, is_ch(s, ":" if colon else "("))
            put(r, "%s.group_parsed_by_the_same_function_on_the_same_text_with_the_same_coef" % kind, len(rec) == 1 and rec[0].args[0] is tp and rec[0].args[1] is coef, repr(rec[0].args), kind="trace")
            pcall = (rec[0].snap or {}).get("paren_count")
            if pcall is None:
                put(r, "%s.paren_count_known_at_the_inner_call" % kind, False, ""); continue
            eqr(r, "open.one_more_parenthesis_open_inside_the_group" if not colon else "colon.no_parenthesis_opened", hy, pcall, pc0 + tm.num(1, "I") if not colon else pc0)
            if s.status == "ret":
                put(r, "%s.failure_inside_gives_ERROR" % kind, _isnum(s.ret, D("ERROR")), repr(s.ret))
                continue
            n[kind] += 1
            put(r, "%s.one_multiplier_read(%s_the_group)" % (kind, "before" if colon else "after"), len(gn) == 1 and gn[0].args[0] is tp, repr([e.args for e in gn]), kind="trace")
            put(r, "%s.no_entry_written_outside_the_multiplication" % kind, not w, repr(sorted(w)), kind="frame")
            continue
        if gn:
            # ':' followed by a number that cannot be read
            put(r, "colon.unreadable_multiplier_gives_ERROR", s.status == "ret" and _isnum(s.ret, D("ERROR")), "status %s" % s.status)
            continue
        if "paren_count" in tw and not events(s, "error_msg"):
            n["close"] += 1
            valid(r, "close.only_at_')'", hy, is_ch(s, ")"))
            eqr(r, "close.paren_count-1", hy, tw["paren_count"], pc0 - tm.num(1, "I"))
            put(r, "close.returns_OK_to_the_caller_that_opened_the_group", s.status == "ret" and _isnum(s.ret, D("OK")), "status %s ret %r" % (s.status, s.ret))
            valid(r, "close.accepted_only_when_a_parenthesis_is_open", hy, tm.lt(tm.num(0, "I"), pc0))
            adv = [v for key, ix, v in U.iter_writes(s) if key == ("m", "P") and ix[0] is tp]
            p0 = tm.select(entry_arr(ex, s, ("m", "P")), tp, tm.num(0, "I"))
            put(r, "close.text_position_advanced_past_')'", len(adv) == 1 and _same(hy, adv[0], p0 + tm.num(1, "I")), repr(adv))
            continue
        n["bad"] += 1
        put(r, "otherwise.reported_and_ERROR", s.status == "ret" and _isnum(s.ret, D("ERROR")) and bool(events(s, "error_msg")) and not w, "status %s ret %r" % (s.status, s.ret))
        if "paren_count" in tw:
            valid(r, "too_many_right_parentheses.only_when_none_is_open", hy, tm.and_(is_ch(s, ")"), tm.le(pc0, tm.num(0, "I"))))
    # the multiplication loops: every entry appended by the group, nothing else
    nm = 0
    for o, sts in info["inner_iters"].items():
        drop_head(q, o)
        ent = [e_ for e_ in info["inner_entries"].get(o, [])]
        for t in lives(sts):
            i = _counter(ex, info, t, "i")
            wr = [(f_, ob, v) for f_, ob, v in _rec_writes(t)]
            slot = tm.select(_base(ex.heap_arr(t, ("f", "#vdata", "P"))), tm.app("fld:elt_list", (THIS,), "P")) + i
            gn = [e for e in t.events if _short(e) == "get_num"]
            if not put(r, "multiply.writes_the_coefficient_of_entry_i_only", len(wr) == 1 and wr[0][0] == "coef" and wr[0][1] is slot and len(gn) >= 1, repr(wr), kind="frame"):
                continue
            d = tm.select(ex.heap_arr(t, ("m", "R")), gn[-1].args[1], tm.num(0, "I"))
            old = tm.select(entry_arr(ex, t, ("f", "coef", "R")), slot)
            eqr(r, "multiply.coefficient_i*=the_group's_multiplier", list(t.pc), wr[0][2], old * d)
            jb = [p for p in t.pc if _mentions(p, i)]
            cnow = tm.select(_base(ex.heap_arr(t, ("f", "count_elts", "I"))), THIS)
            valid(r, "multiply.runs_up_to_the_current_end_of_the_list", [], tm.eq(tm.to_bool(jb[-1]) if jb else tm.FALSE, tm.lt(i, cnow)), kind="establishment")
            nm += 1
        # starts at the length the list had when the group began
        lp = loops_of(fn)[o]
        init = ex.loop_parts(lp)[0]
        okst = False
        for e_ in ent[:1]:
            for s0 in ex.exec(init, [e_.clone()]):
                v0 = s0.locals.get(info["names"].get("i"))
                cnt = local(info, e_, "count")
                ids = [x["id"] for x in A.walk(lp) if x.get("kind") == "VarDecl" and x.get("name") == "i"]
                v0 = s0.locals.get(ids[0]) if ids else v0
                okst = v0 is not None and not isinstance(v0, tuple) and _same(list(e_.pc), v0, cnt) and _is_field_of(cnt, "count_elts", THIS)
        put(r, "multiply[loop %d].starts_at_the_list_length_saved_when_the_group_began" % o, okst, "", kind="establishment")
    # after the scan: parentheses must balance
    fw, exw, finw, infw = U.run_function(PARSE, q, ctx=ctx())
    nb = 0
    for s in lives(finw, ("ret",)):
        if events(s, "get_elt", it=False) or events(s, "get_elts_in_species", it=False):
            continue
        pcn = fld(exw, s, "paren_count", "I")
        if _isnum(s.ret, D("OK")) and s.pc:
            nb += 1
            if proved(list(s.pc), tm.eq(pcn, tm.num(0, "I"))):
                put(r, "end_of_formula.OK_only_with_balanced_parentheses", True, "")
            elif any("41" in repr(p) for p in s.pc):
                pass
    put(r, "reach", n["elt"] >= 1 and n["open"] >= 1 and n["colon"] >= 1 and n["close"] >= 1 and n["bad"] >= 1 and nm >= 2, repr(n) + " multiply %d" % nm, kind="vacuity", undecided=True)
    r.assumptions += ["get_elt(&text, name, &l) reads one element symbol and advances; get_num(&text, &d) reads the number at the text position (1 when there is none) and advances (C01.get_num...); element_store(name) returns the element record of that name",
                      "recursion: the callee get_elts_in_species is used with THIS contract (it appends entries at elt_list[count_elts..) and leaves at the matching ')')", "isupper a function of its argument; doubles as reals"]
    return r


UNITS.append(("C01.get_elts_in_species.subscripts_times_coef_and_groups_multiply_what_they_enclose", unit_get_elts_in_species))


def _char_at(ex, s, pp, off=0, entry=True):
    """character at (*pp)[off] as the function found it"""
    get = entry_arr if entry else (lambda ex_, s_, k_: ex_.heap_arr(s_, k_))
    p0 = tm.select(get(ex, s, ("m", "P")), pp, tm.num(0, "I"))
    return tm.select(get(ex, s, ("m", "I")), p0, tm.num(off, "I"))


def _reads_char_at(hy, t, base, off):
    """t reads the character at base + off (the memory model addresses characters by (pointer, offset))"""
    if t is None or isinstance(t, tuple) or t.op != "select":
        return False
    ix = t.args[1]
    if not (isinstance(ix, tuple) and len(ix) == 2 and ".mem:I" in repr(_base(t.args[0]))):
        return False
    if ix[0] is base and _isnum(ix[1], off):
        return True
    return _same(hy, ix[0], base + tm.num(off, "I")) and _isnum(ix[1], 0)


def _fn_writes(s, key, obj):
    return [v for ix, v in writes(s, key) if (ix[0] if isinstance(ix, tuple) else ix) is obj]


def unit_get_num(twin=False):
    """subscripts: no number at the text position means 1; otherwise the value is strtod of the digits (one decimal point at most) copied from
    the text, and the text position moves past exactly those characters"""
    q = "Phreeqc::get_num"
    fn = A.find_function(PARSE, q)
    r = U.new_unit("C01.get_num.absent_subscript_is_1_else_the_number_read", PARSE, q, fn)
    c = ctx(functional=("isdigit",))
    f, ex, fin, info = U.run_function(PARSE, q, ctx=c, default="iter")
    tp, num = tm.sym("P0_t_ptr", "P"), tm.sym("P1_num", "P")
    seen = set()
    for s in lives(fin, ("ret",)):
        c0 = _char_at(ex, s, tp)
        isd = lambda ch: tm.not_(tm.eq(tm.app("call:isdigit", (tm.NULL, ch), "I"), tm.num(0, "I")))
        numeric = tm.or_(isd(c0), tm.eq(c0, tm.num(ord("."), "I")))
        wv = _fn_writes(s, ("m", "R"), num)
        sd = [e for e in s.events if _short(e) == "strtod"]
        for hy, isnum_ in cases(list(s.pc), numeric):
            if not isnum_:
                seen.add("absent")
                put(r, "absent.value_is_1", bool(wv) and _isnum(wv[-1], 1 if not twin else 0), repr(wv))
                put(r, "absent.text_position_unchanged_and_OK", not _fn_writes(s, ("m", "P"), tp) and _isnum(s.ret, D("OK")), "ret %r" % (s.ret,))
            else:
                seen.add("present")
                if not put(r, "present.converted_once_by_strtod", len(sd) == 1, "%d" % len(sd), kind="trace"):
                    continue
                put(r, "present.value_is_the_strtod_result", bool(wv) and wv[-1] is sd[0].result, repr(wv[-1:]))
                tz = [(ix, v) for ix, v in writes(s, ("m", "I")) if ix[0] is sd[0].args[0]]
                put(r, "present.converted_text_is_the_copied_digits_terminated_by_NUL", bool(tz) and _isnum(tz[-1][1], 0), repr(tz[-1:]), kind="trace")
                if _isnum(s.ret, D("ERROR")):
                    put(r, "present.ERROR_is_reported_and_counted", any(_short(e) == "error_msg" for e in s.events) and "input_error" in [f_ for f_, v in _this_writes_fn(s)], "")
    # the copy loop
    k = 0
    its = lives(info["iter"].get(k, []))
    ncp = 0
    for s in its:
        if s.status not in ("run", "cont"):
            continue
        ci = tm.sym("iter_c", "I"); ii = tm.sym("iter_i", "I")
        wt = [(ix, v) for key, ix, v in U.iter_writes(s) if key == ("m", "I")]
        wp = [(ix, v) for key, ix, v in U.iter_writes(s) if key == ("m", "P") and ix[0] is tp]
        p0 = tm.select(entry_arr(ex, s, ("m", "P")), tp, tm.num(0, "I"))
        ok = len(wt) == 1 and wt[0][0][1] is ii and wt[0][1] is ci and len(wp) == 1 and _same(list(s.pc), wp[0][1], p0 + tm.num(1, "I"))
        put(r, "copy.character_i_copied_and_text_position_advanced_by_one", ok, "%r %r" % (wt, wp))
        eqr(r, "copy.next_index", list(s.pc), local(info, s, "i"), ii + tm.num(1, "I"))
        nxt = local(info, s, "c")
        put(r, "copy.next_character_is_the_one_at_the_new_position", _reads_char_at(list(s.pc), nxt, p0, 1), repr(nxt))
        ncp += 1
    for s in its:
        if s.status == "brk":
            valid(r, "copy.stops_early_only_after_more_than_one_decimal_point", list(s.pc), tm.lt(tm.num(1, "I"), local(info, s, "decimal")))
    drop_head(q, 0)
    put(r, "reach", seen == {"absent", "present"} and ncp >= 1, "%r copy %d" % (seen, ncp), kind="vacuity", undecided=True)
    r.assumptions += ["strtod(text) is the decimal value of text; isdigit a function of its argument", "the loop condition (digit or '.') is part of the iteration's path condition; MAX_LENGTH guard: C08"]
    return r


UNITS.append(("C01.get_num.absent_subscript_is_1_else_the_number_read", unit_get_num))


def unit_get_coef(twin=False):
    """stoichiometric coefficient in front of a species: none -> 1, a bare '+' / '-' in front of a name -> +1 / -1 (sign consumed), a number -> its value"""
    q = "Phreeqc::get_coef"
    fn = A.find_function(PARSE, q)
    r = U.new_unit("C01.get_coef.none_is_1_bare_sign_is_+-1_else_the_number", PARSE, q, fn)
    c = ctx(functional=("isalpha", "isdigit"))
    f, ex, fin, info = U.run_function(PARSE, q, ctx=c, default="iter")
    co, ea = tm.sym("P0_coef", "P"), tm.sym("P1_eqnaddr", "P")
    seen = set()
    for s in lives(fin, ("ret",)):
        c0 = _char_at(ex, s, ea); c1 = _char_at(ex, s, ea, 1)
        fnc = lambda nm, ch: tm.not_(tm.eq(tm.app("call:" + nm, (tm.NULL, ch), "I"), tm.num(0, "I")))
        isc = lambda ch, x: tm.eq(ch, tm.num(ord(x), "I"))
        name = lambda ch: tm.or_(fnc("isalpha", ch), isc(ch, "("), isc(ch, ")"), isc(ch, "["), isc(ch, "]"))
        A_ = name(c0)
        B_ = tm.and_(tm.not_(A_), isc(c0, "+"), name(c1))
        C_ = tm.and_(tm.not_(A_), tm.not_(B_), isc(c0, "-"), name(c1))
        D_ = tm.and_(tm.not_(A_), tm.not_(B_), tm.not_(C_), tm.or_(fnc("isdigit", c0), isc(c0, "+"), isc(c0, "-"), isc(c0, ".")))
        E_ = tm.and_(tm.not_(A_), tm.not_(B_), tm.not_(C_), tm.not_(D_))
        wv = _fn_writes(s, ("m", "R"), co)
        wp = _fn_writes(s, ("m", "P"), ea)
        p0 = tm.select(entry_arr(ex, s, ("m", "P")), ea, tm.num(0, "I"))
        sd = [e for e in s.events if _short(e) == "strtod"]
        for tag, cond, val, adv in (("no_coefficient", A_, 1, 0), ("bare_plus", B_, 1, 1), ("bare_minus", C_, -1 if not twin else 1, 1)):
            hy = list(s.pc) + [cond]
            if not sat(hy):
                continue
            seen.add(tag)
            put(r, "%s.coefficient==%d" % (tag, val), bool(wv) and _isnum(wv[-1], val), repr(wv[-1:]))
            put(r, "%s.text_position_%s" % (tag, "past_the_sign" if adv else "unchanged"), (len(wp) == 1 and _same(hy, wp[0], p0 + tm.num(1, "I"))) if adv else not wp, repr(wp))
            put(r, "%s.OK" % tag, _isnum(s.ret, D("OK")), repr(s.ret))
        hy = list(s.pc) + [D_]
        if sat(hy):
            seen.add("number")
            if put(r, "number.converted_once_by_strtod", len(sd) == 1, "%d" % len(sd), kind="trace"):
                put(r, "number.coefficient_is_the_strtod_result", bool(wv) and wv[-1] is sd[0].result, repr(wv[-1:]))
                tz = [(ix, v) for ix, v in writes(s, ("m", "I")) if ix[0] is sd[0].args[0]]
                put(r, "number.converted_text_is_the_copied_characters_terminated_by_NUL", bool(tz) and _isnum(tz[-1][1], 0), repr(tz[-1:]), kind="trace")
                put(r, "number.text_position_moved_to_where_the_copy_stopped", len(wp) == 1 and wp[0] is local(info, s, "cptr"), repr(wp))
                if _isnum(s.ret, D("ERROR")):
                    put(r, "number.ERROR_is_reported", any(_short(e) == "error_msg" for e in s.events), "")
        hy = list(s.pc) + [E_]
        if sat(hy):
            seen.add("other")
            put(r, "anything_else.ERROR_and_reported", _isnum(s.ret, D("ERROR")) and any(_short(e) == "error_msg" for e in s.events), repr(s.ret))
    its = lives(info["iter"].get(0, []))
    ncp = 0
    for s in its:
        if s.status not in ("run", "cont"):
            continue
        ci = tm.sym("iter_c", "I"); ii = tm.sym("iter_i", "I"); cp = tm.sym("iter_cptr", "P")
        wt = [(ix, v) for key, ix, v in U.iter_writes(s) if key == ("m", "I")]
        put(r, "copy.character_i_copied", len(wt) == 1 and wt[0][0][1] is ii and wt[0][1] is ci, repr(wt))
        eqr(r, "copy.next_index", list(s.pc), local(info, s, "i"), ii + tm.num(1, "I"))
        put(r, "copy.position_advanced_by_one_and_next_character_read_there", _same(list(s.pc), local(info, s, "cptr"), cp + tm.num(1, "I")) and _reads_char_at(list(s.pc), local(info, s, "c"), cp, 1), repr(local(info, s, "c")))
        ncp += 1
    drop_head(q, 0)
    put(r, "reach", seen >= {"no_coefficient", "bare_plus", "bare_minus", "number", "other"} and ncp >= 1, "%r copy %d" % (sorted(seen), ncp), kind="vacuity", undecided=True)
    r.assumptions += ["isalpha / isdigit functions of their argument; strtod(text) is the decimal value of text", "a name starts with a letter or one of ( ) [ ]", "MAX_LENGTH guard of the copy: C08"]
    return r


UNITS.append(("C01.get_coef.none_is_1_bare_sign_is_+-1_else_the_number", unit_get_coef))


def unit_get_species(twin=False):
    q = "Phreeqc::get_species"
    fn = A.find_function(PARSE, q)
    r = U.new_unit("C01.get_species.coefficient_name_and_charge_into_the_next_token_of_the_work_reaction", PARSE, q, fn)
    f, ex, fin, info = U.run_function(PARSE, q, ctx=ctx())
    cp = tm.sym("P0_cptr", "P")
    n = {"ok": 0, "err": 0}
    for s in lives(fin, ("ret",)):
        n0 = fld0(ex, s, "count_trxn", "I")
        evs = list(s.events)
        gc = [e for e in evs if _short(e) == "get_coef"]; gt = [e for e in evs if _short(e) == "get_token"]; hs = [e for e in evs if _short(e) == "string_hsave"]
        if not put(r, "coefficient_read_first", len(gc) == 1 and gc[0].args[1] is cp, repr([e.args for e in gc]), kind="trace"):
            continue
        tgt = gc[0].args[0]
        okt = tgt.op == "app" and tgt.args[0] == "fld:coef" and tgt.args[1].op == "+" and _same(list(s.pc), tgt.args[1].args[1], n0 if not twin else n0 + tm.num(1, "I")) and "#vdata" in repr(tgt.args[1].args[0]) \
            and _mentions(tgt.args[1].args[0], tm.app("fld:token", (tm.app("fld:trxn", (THIS,), "P"),), "P"))
        put(r, "coefficient_goes_to_token[count_trxn].coef", okt, repr(tgt), kind="trace")
        tk = tgt.args[1] if tgt.op == "app" else None
        if _isnum(s.ret, D("OK")):
            n["ok"] += 1
            ok = len(gt) == 1 and len(hs) == 1 and gt[0].args[0] is cp and gt[0].args[2] is tm.app("fld:z", (tk,), "P") and _mentions(hs[0].args[0], gt[0].args[1]) and evs.index(gc[0]) < evs.index(gt[0]) < evs.index(hs[0])
            put(r, "OK.name_and_charge_read_after_the_coefficient_charge_into_token[count_trxn].z", ok, repr([(_short(e), e.args) for e in evs if _short(e) in ("get_token", "string_hsave")]), kind="trace")
            wn = [(ix, v) for ix, v in writes(s, ("f", "name", "P"))]
            put(r, "OK.token[count_trxn].name=the_saved_text_of_the_name_read", len(wn) == 1 and wn[0][0][0] is tk and hs and wn[0][1] is hs[0].result, repr(wn))
            valid(r, "OK.only_when_both_readers_succeeded", list(s.pc), tm.and_(tm.not_(tm.eq(gc[0].result, tm.num(D("ERROR"), "I"))), tm.not_(tm.eq(gt[0].result, tm.num(D("ERROR"), "I"))) if gt else tm.FALSE))
            put(r, "OK.count_trxn_left_to_the_caller", "count_trxn" not in [f_ for f_, v in _this_writes_fn(s)], "")
        else:
            n["err"] += 1
            put(r, "failure.returns_ERROR", _isnum(s.ret, D("ERROR")), repr(s.ret))
            put(r, "failure.no_name_stored", not writes(s, ("f", "name", "P")), "")
    put(r, "reach", n["ok"] >= 1 and n["err"] >= 2, repr(n), kind="vacuity", undecided=True)
    r.assumptions += ["get_coef: C01.get_coef...; get_token(&text, name, &z, &l) reads a species name with its charge suffix and sets z (utilities.cpp; its charge arithmetic: C01.get_charge...)", "string_hsave interns the text", "std::vector resize keeps existing elements"]
    return r


UNITS.append(("C01.get_species.coefficient_name_and_charge_into_the_next_token_of_the_work_reaction", unit_get_species))


def unit_get_charge(twin=False):
    """charge suffix of a species name: "" -> 0; a run of n '+' / '-' -> +n / -n; a sign followed by an integer -> that integer (a non-zero
    fraction -> the decimal value); anything else is an error.  The text is normalised ("+", "-", "+3", "-2", "") so that Fe+++ and Fe+3 name
    the same species"""
    q = "Phreeqc::get_charge"
    fn = A.find_function(PARSE, q)
    r = U.new_unit("C01.get_charge.sign_and_magnitude_of_the_charge_suffix", PARSE, q, fn)
    c = ctx()
    def h_abs(ex_, st, n_, name, recv, args):
        x = args[0]
        return [(st, tm.ite(tm.lt(x, tm.num(0, x.sort)), tm.neg(x), x))]
    c.handlers["abs"] = h_abs
    f, ex, fin, info = U.run_function(PARSE, q, ctx=c, default="iter")
    ch, zp = tm.sym("P0_charge", "P"), tm.sym("P2_l_z", "P")
    seen = set()
    for s in lives(fin, ("ret",)):
        hy = list(s.pc)
        c0 = tm.select(entry_arr(ex, s, ("m", "I")), ch, tm.num(0, "I"))
        wz = _fn_writes(s, ("m", "R"), zp)
        sl = [e for e in s.events if _short(e) == "strtol"]; sd = [e for e in s.events if _short(e) == "strtod"]; sp = [e for e in s.events if _short(e) == "snprintf"]
        minus = tm.eq(c0, tm.num(ord("-"), "I")); plus = tm.eq(c0, tm.num(ord("+"), "I")); empty = tm.eq(c0, tm.num(0, "I"))
        if _isnum(s.ret, D("ERROR")):
            seen.add("error")
            put(r, "ERROR.reported_and_no_charge_stored", any(_short(e) == "error_msg" for e in s.events) and not wz, repr(wz))
            valid(r, "ERROR.never_for_an_empty_suffix", hy, tm.not_(empty))
            continue
        if not put(r, "OK.charge_stored_once", len(wz) == 1, repr(wz)):
            continue
        V = wz[0]
        valid(r, "OK.only_for_empty,+_or_-", hy, tm.or_(empty, plus, minus))
        if not sl and not sd and _isnum(V, 0):
            seen.add("empty")
            valid(r, "zero_without_counting.only_for_the_empty_suffix", hy, empty)
            continue
        # magnitude
        if sl:
            seen.add("number")
            put(r, "number.converted_from_the_suffix_text", sl[0].args[0] is ch, repr(sl[0].args), kind="trace")
            I_ = sl[0].result
            if sd:
                seen.add("fraction")
                put(r, "fraction.value_is_strtod_of_the_suffix", V is sd[0].result and sd[0].args[0] is ch, repr(V))
                continue
            eqr(r, "number.charge_is_the_integer_read", hy, V, tm.to_real(I_))
        else:
            seen.add("run")
            iv = local(info, s, "i")
            # the count is what the counting loop left (number of leading sign characters + 1), minus one, with the sign of the run
            hv = [u for u in tm.subterms(V) if u.op == "sym" and str(u.args[0]).startswith("havoc_i")]
            if not put(r, "run.charge_computed_from_the_count_of_sign_characters", len(hv) == 1, repr(V), kind="trace"):
                continue
            cnt = hv[0] - tm.num(1, "I")
            for hc, neg_ in cases(hy, minus):
                want = tm.to_real(tm.neg(cnt) if (neg_ and not twin) else cnt)
                eqr(r, "run.charge==%s(count-1)" % ("-" if neg_ else "+"), hc, V, want)
            c1 = [p for p in hy if "havoc_c1" in repr(p)[:40]]
            put(r, "run.only_when_the_signs_run_to_the_end_of_the_text", bool(c1) and c1[0].op != "not", repr(c1[:1]), kind="trace")
            I_ = tm.neg(cnt) if proved(hy, minus) else cnt
        # normalised text
        mag = tm.ite(tm.lt(I_, tm.num(0, "I")), tm.neg(I_), I_)
        wt = dict((int(ix[1].args[0]), v) for ix, v in writes(s, ("m", "I")) if ix[0] is ch and tm.isnum(ix[1]))
        if sp:
            ok = sp[0].args[0] is ch and sp[0].args[1] is tm.sym("P1_charge_size", sp[0].args[1].sort) and _strval(sp[0].args[2]) == "%-+d" and _same(hy, sp[0].args[3], I_)
            put(r, "text.|z|>1_written_as_sign_and_integer_within_the_given_capacity", ok, repr(sp[0].args), kind="trace")
            valid(r, "text.integer_form_only_for_|z|>1", hy, tm.lt(tm.num(1, "I"), mag))
        elif set(wt) == {0, 1}:
            put(r, "text.|z|==1_written_as_the_bare_sign", wt[0] is c0 and _isnum(wt[1], 0), repr(wt))
            valid(r, "text.bare_sign_only_for_|z|==1", hy, tm.eq(mag, tm.num(1, "I")))
        elif set(wt) == {0}:
            put(r, "text.z==0_written_as_empty", _isnum(wt[0], 0), repr(wt))
            valid(r, "text.empty_only_for_z==0", hy, tm.eq(I_, tm.num(0, "I")))
        else:
            put(r, "text.normalised", False, repr(wt))
    # the counting loop
    k = 0
    ent = info["entry"].get(k, [])
    put(r, "count.starts_at_0", bool(ent) and _isnum(local(info, ent[0], "i"), 0), repr(local(info, ent[0], "i")) if ent else "", kind="establishment")
    nit = 0
    for s in lives(info["iter"].get(k, [])):
        ii = tm.sym("iter_i", "I")
        c0 = tm.select(entry_arr(ex, s, ("m", "I")), ch, tm.num(0, "I"))
        ci = tm.select(entry_arr(ex, s, ("m", "I")), ch, ii)
        eqr(r, "count.one_more_per_character_examined", list(s.pc), local(info, s, "i"), ii + tm.num(1, "I"))
        put(r, "count.examines_character_i_of_the_suffix", local(info, s, "c1") is ci, repr(local(info, s, "c1")))
        valid(r, "count.goes_on_while_the_character_equals_the_first_one", [], tm.eq(tm.to_bool(s.pc[-1]), tm.eq(c0, ci)), kind="establishment")
        nit += 1
    drop_head(q, k)
    # a non-zero fraction: found inside the scan of the fractional part
    for k2, sts in info["iter"].items():
        if k2 == k:
            continue
        drop_head(q, k2)
        for s in lives(sts):
            if s.status != "ret":
                continue
            sd = [e for e in U.iter_events(s) if _short(e) == "strtod"]
            wz = [v for key, ix, v in U.iter_writes(s) if key == ("m", "R") and ix[0] is zp]
            seen.add("fraction")
            put(r, "fraction.charge_is_strtod_of_the_whole_suffix_and_OK", len(sd) == 1 and sd[0].args[0] is ch and len(wz) == 1 and wz[0] is sd[0].result and _isnum(s.ret, D("OK")), "strtod%r z %r" % ([e.args for e in sd], wz))
    put(r, "reach", seen >= {"error", "empty", "number", "fraction", "run"} and nit >= 1, repr(sorted(seen)), kind="vacuity", undecided=True)
    r.assumptions += ["strtol(text, &rest, 0) / strtod(text) give the integer / decimal value of text; abs(x) = |x|; snprintf(buf, n, \"%-+d\", i) writes the signed integer",
                      "the counting loop `while (c == (c1 = charge[i++]));` is an iteration contract: together with count.starts_at_0 it leaves i = (number of leading characters equal to the first) + 1",
                      "the scan of a fractional part (.000 accepted, non-zero fraction read by strtod) is an inner loop: only its outcome (strtod of the suffix) is specified"]
    return r


UNITS.append(("C01.get_charge.sign_and_magnitude_of_the_charge_suffix", unit_get_charge))


def unit_master_species_columns(twin=False):
    """SOLUTION_MASTER_SPECIES line `element species alk gfw_or_formula [element_gfw]`: the third column is the alkalinity contribution of the master
    species, the fourth its formula weight (a number) or the formula to compute it from (text), an element name without '(' makes the entry
    primary, and for a primary entry other than E the fifth column is the element's formula weight"""
    q = "Phreeqc::read_master_species"
    fn = A.find_function(READ, q)
    r = U.new_unit("C01.read_master_species.alk_gfw_formula_primary_flag_and_element_weight_columns", READ, q, fn)
    k = the_loop(fn, READ, "master_alloc(", innermost=False, what="line loop")
    body = loops_of(fn)[k]["inner"][-1].get("inner", [])
    txt = [text_of(READ, x) for x in body]
    hit = [i for i, t in enumerate(txt) if "sscanf(" in t and body[i].get("kind") == "BinaryOperator"][:1]       # the first column that is scanned as a number
    if len(hit) != 1 or hit[0] == 0:
        raise Undecided("read_master_species: the statement that scans the alkalinity column was not found")
    c = ctx(functional=("strchr", "strcmp"))
    fr, ex, sts, info = region(READ, q, body[hit[0] - 1:], c=c)
    cm = tm.sym("L_count_master", "I")
    n = {"ok": 0, "err": 0, "num": 0, "formula": 0, "prim": 0, "sec": 0, "E": 0}
    for s in live(sts, ("run", "cont")):
        hy = list(s.pc)
        M = _velem_region(ex, s, "master", cm)
        ct = [e for e in s.events if _short(e) == "copy_token"]; sc = [e for e in s.events if _short(e) == "sscanf"]
        tw = [f_ for f_, v in _this_writes_fn(s)]
        if not put(r, "alk.third_column_scanned_into_the_new_entry's_alk", len(ct) >= 1 and len(sc) >= 1 and sc[0].args[0] is ct[0].args[0] and _fmt_count(sc[0].args[1]) == 1 and sc[0].args[2] is tm.app("fld:alk" if not twin else "fld:gfw", (M,), "P"), repr(sc[0].args if sc else None), kind="trace"):
            continue
        put(r, "columns_are_taken_one_after_the_other_from_the_same_cursor", all(e.args[1] is ct[0].args[1] and e.args[0] is ct[0].args[0] for e in ct), repr([e.args[:2] for e in ct]), kind="trace")
        if s.status == "cont":
            n["err"] += 1
            put(r, "bad_line.reported_and_counted", "input_error" in tw and any(_short(e) == "error_msg" for e in s.events), repr(tw))
            if len(sc) == 1:
                valid(r, "bad_line.after_the_alk_column_only_when_no_number_was_read", hy, tm.not_(tm.eq(sc[0].result, tm.num(1, "I")))) if len(ct) == 1 else None
            continue
        n["ok"] += 1
        put(r, "good_line.no_error_counted", "input_error" not in tw, repr(tw))
        w = dict((f_, v) for f_, o, v in _rec_writes_region(s) if o is M)
        kind = ct[1].result if len(ct) > 1 else None
        if "gfw_formula" in w:
            n["formula"] += 1
            hs = [e for e in s.events if _short(e) == "string_hsave"]
            put(r, "formula.fourth_column_text_kept_as_gfw_formula", len(hs) == 1 and hs[0].args[0] is ct[0].args[0] and w["gfw_formula"] is hs[0].result, repr(w["gfw_formula"]))
            valid(r, "formula.only_when_the_column_starts_with_an_upper_case_letter", hy, tm.eq(kind, tm.num(D("UPPER"), "I")))
            gsc = sc[1:]
        else:
            n["num"] += 1
            put(r, "number.fourth_column_scanned_into_the_entry's_gfw", len(sc) >= 2 and sc[1].args[0] is ct[0].args[0] and sc[1].args[2] is tm.app("fld:gfw", (M,), "P"), repr(sc[1].args if len(sc) > 1 else None), kind="trace")
            valid(r, "number.only_when_the_column_is_a_number", hy, tm.eq(kind, tm.num(D("DIGIT"), "I")))
            gsc = sc[2:]
        el = tm.select(_base(ex.heap_arr(s, ("f", "elt", "P"))), M)
        par = [tm.eq(e.result, tm.NULL) for e in s.events if _short(e) == "strchr" and _is_field_of(e.args[0], "name", el) and _isnum(e.args[1], ord("("))]
        if not put(r, "primary_flag.decided_by_a_'('_in_the_element_name", len(par) == 1 and "primary" in w, repr(sorted(w)), kind="trace"):
            continue
        isp = _isnum(w["primary"], D("TRUE"))
        valid(r, "primary_flag.TRUE_iff_no_'('_in_the_element_name", hy, par[0] if isp else tm.not_(par[0]))
        put(r, "primary_flag.is_TRUE_or_FALSE", isp or _isnum(w["primary"], D("FALSE")), repr(w["primary"]))
        isE = [tm.eq(e.result, tm.num(0, "I")) for e in s.events if _short(e) == "strcmp" and _strval(e.args[1]) == "E"]
        if gsc:
            n["prim"] += 1
            ok = len(gsc) == 1 and gsc[0].args[0] is ct[0].args[0] and gsc[0].args[2] is tm.app("fld:gfw", (el,), "P") and len(ct) == 3
            put(r, "element_weight.fifth_column_scanned_into_the_ELEMENT's_gfw", ok, repr(gsc[0].args), kind="trace")
            valid(r, "element_weight.only_for_a_primary_entry_other_than_E_with_a_number_in_the_column", hy, tm.and_(par[0], tm.not_(isE[0]) if isE else tm.FALSE, tm.eq(ct[2].result, tm.num(D("DIGIT"), "I")) if len(ct) == 3 else tm.FALSE))
        else:
            if isp:
                n["E"] += 1
                valid(r, "element_weight.skipped_for_a_primary_entry_only_when_it_is_E", hy, isE[0] if isE else tm.FALSE)
            else:
                n["sec"] += 1
    put(r, "reach", n["ok"] >= 4 and n["err"] >= 3 and n["num"] >= 1 and n["formula"] >= 1 and n["prim"] >= 1 and n["sec"] >= 1 and n["E"] >= 1, repr(n), kind="vacuity", undecided=True)
    r.assumptions += ["copy_token(token, &cursor, &l) splits off the next column and classifies it (DIGIT / UPPER / ...); sscanf stores the number it reads",
                      "region contract: the statements of the line loop from the alkalinity column on, run from an arbitrary state; the first part of the loop body (element and species columns) compares std::string objects, which the engine does not model, and is NOT under contract",
                      "strchr / strcmp functions of their arguments"]
    return r


def _velem_region(ex, s, vec, i):
    return tm.select(_base(ex.heap_arr(s, ("m", "P"))), tm.select(_base(ex.heap_arr(s, ("f", "#vdata", "P"))), tm.app("fld:" + vec, (THIS,), "P")), i)


UNITS.append(("C01.read_master_species.alk_gfw_formula_primary_flag_and_element_weight_columns", unit_master_species_columns))
