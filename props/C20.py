"""C20 — surface complexation obeys its mass-action and electrostatic laws (partial).
Statement contracts on the charge-potential rows of Phreeqc::residuals (Gouy-Chapman diffuse layer without explicit layer, constant
capacitance) and on their Jacobian entries in Phreeqc::jacobian_sums (derivative lemma).  Site balance and mass action at convergence,
CD-MUSIC, the explicit diffuse-layer integration and Donnan are NOT decided."""
import time
from fractions import Fraction as F
from vf import core
from vf.core import Undecided, FAILED, DISCHARGED, UNDECIDED
from vf.astvc import ast as A, terms as tm, unit as U, backends as B, stl as STLM, hdr
from vf.astvc import symex as SX

PID = "C20"
MODEL = "src/phreeqcpp/model.cpp"
GS = "src/phreeqcpp/global_structures.h"
THIS = tm.sym("this", "P")


def mkctx():
    ctx = SX.Ctx(); ctx.stl = STLM.STL(SX); ctx.stl.check_bounds = False
    ev = A.enum_values_compiled("Phreeqc.h", ["cxxSurface::DDL", "cxxSurface::CCM", "cxxSurface::NO_DL", "cxxSurface::CD_MUSIC"])
    ctx.enum_values.update({k.split("::")[-1]: v for k, v in ev.items()})
    class AllPure(set):
        def __contains__(self, x): return True
    ctx.pure = AllPure()
    ctx.functional.update({"Get_surface_ptr", "Find_charge", "Get_grams", "Get_specific_area", "Get_capacitance0", "Get_capacitance1", "Get_type"})
    return ctx


def branch(fn, surface_type):
    """the `then` block of  else if (x[i]->type == SURFACE_CB && use.Get_surface_ptr()->Get_type() == cxxSurface::<surface_type>)"""
    import re
    src = open(core.REPO + "/" + MODEL, "rb").read()
    for x in A.walk(fn):
        if x.get("kind") != "IfStmt":
            continue
        b, e = A.src_range_text(x["inner"][0])
        if b is None or not e:
            continue
        text = re.sub(rb"\s+", b" ", src[b:e]).decode("latin1")
        if text == "x[i]->type == SURFACE_CB && use.Get_surface_ptr()->Get_type() == cxxSurface::%s" % surface_type:
            return [x["inner"][1]]
    return None


def unit_residual_row(surface_type, twin=False):
    fn0 = A.find_function(MODEL, "Phreeqc::residuals")
    r = U.new_unit("C20.residuals.%s_charge_potential_row" % surface_type, MODEL, "Phreeqc::residuals", fn0)
    ctx = mkctx()
    class Sel(object):
        whole_function = True
        def __call__(self, stmts): raise TypeError
        def pick(self, fn): return branch(fn, surface_type)
    fn, ex, finals, info = U.run_region(MODEL, "Phreeqc::residuals", Sel(), ctx=ctx)
    i = tm.sym("L_i", "I")
    R = tm.num(hdr.define_value(GS, "R_KJ_DEG_MOL")); FC = tm.num(hdr.define_value(GS, "F_C_MOL")); FK = tm.num(hdr.define_value(GS, "F_KJ_V_EQ")); E0 = tm.num(hdr.define_value(GS, "EPSILON_ZERO"))
    seen = set()
    for k, s in enumerate(finals):
        if s.status != "run" or B.z3_sat(list(s.pc)) == "unsat":
            continue
        fld = lambda name, so="R", obj=THIS: tm.select(ex.heap_arr(s, ("f", name, so)), obj)
        xd = tm.select(ex.heap_arr(s, ("f", "#vdata", "P")), tm.app("fld:x", (THIS,), "P"))
        xi = tm.select(ex.heap_arr(s, ("m", "P")), xd, i)
        f = fld("f", "R", xi)
        m0 = tm.select(ex.heap_arr(s, ("m", "P")), fld("master", "P", xi) if False else tm.select(ex.heap_arr(s, ("f", "#vdata", "P")), tm.app("fld:master", (xi,), "P")), tm.num(0, "I"))
        la = fld("la", "R", fld("s", "P", m0))
        rd = tm.select(ex.heap_arr(s, ("f", "#vdata", "P")), tm.app("fld:residual", (THIS,), "P"))
        key = ("m", "R")
        if key not in s.heap:
            continue
        res = tm.select(s.heap[key], rd, i)
        ids = [y["id"] for y in A.walk(info["stmts"][0]) if y.get("kind") == "VarDecl" and y.get("name") == "charge_ptr"]
        ch = s.locals.get(ids[0]) if ids else None
        if ch is None or isinstance(ch, tuple):
            raise Undecided("charge_ptr is not a scalar local of the branch")
        grams = tm.app("call:Get_grams", (ch,), "R"); area = tm.app("call:Get_specific_area", (ch,), "R")
        ln10, mu, tk, eps = fld("LOG_10"), fld("mu_x"), fld("tk_x"), fld("eps_r")
        dl = fld("dl_type_x", "I")
        hy = list(s.pc)
        sigma = f * FC / (area * grams)
        if B.z3_prove(hy, tm.eq(grams, tm.num(0)))[0] == "proved":
            seen.add("no_surface")
            U.discharge_valid(r, "zero_grams.residual==0", hy, tm.eq(res, tm.num(0)))
        elif B.z3_prove(hy, tm.not_(tm.eq(dl, tm.num(ctx.enum_values["NO_DL"], "I"))))[0] == "proved":
            seen.add("explicit_layer")
            U.discharge_eq_real(r, "explicit_diffuse_layer.residual==-f", hy, res, tm.neg(f))
        else:
            seen.add("law")
            if surface_type == "DDL":
                const = tm.app("sqrt", (tm.num(8) * eps * E0 * (R * tm.num(1000)) * tk * tm.num(1000),), "R")
                law = const * tm.app("sqrt", (mu,), "R") * tm.app("sinh", (la * ln10,), "R")
                name = "gouy_chapman.residual==sqrt(8*eps_r*eps0*R*T*1e6)*sqrt(mu)*sinh(F*psi/2RT)-sigma_species"
            else:
                cap = tm.app("call:Get_capacitance0", (ch,), "R")
                psi = la * tm.num(2) * R * tk * ln10 / FK          # F psi / (2 R T) = la * ln10
                law = cap * psi
                name = "constant_capacitance.residual==C*psi-sigma_species(psi=2RT*la*ln10/F)"
            spec = law - sigma if not twin else law + sigma
            U.discharge_eq_real(r, name, hy, res, spec)
    want = {"no_surface", "explicit_layer", "law"}
    r.add("reach.three_cases", DISCHARGED if seen == want else UNDECIDED, "symex", 0, repr(sorted(seen)), kind="vacuity")
    # constants
    ok = abs(hdr.define_value(GS, "F_C_MOL") - F("96485.33")) / F("96485.33") < F(1, 5000)
    r.add("const.F_C_MOL~96485(rel 2e-4)", DISCHARGED if ok else FAILED, "exact-rational", 0, "", kind="const")
    ok = abs(hdr.define_value(GS, "EPSILON_ZERO") - F("8.8541878e-12")) / F("8.8541878e-12") < F(1, 5000)
    r.add("const.EPSILON_ZERO~8.854e-12(rel 2e-4)", DISCHARGED if ok else FAILED, "exact-rational", 0, "", kind="const")
    r.assumptions += ["doubles as reals; sinh/sqrt as real functions", "surface-charge getters are pure", "sigma_species = f*F/(A_s*g) with f the unknown's accumulated charge (its own computation is not under this contract)"]
    return r


PREP = "src/phreeqcpp/prep.cpp"
INTEG = "src/phreeqcpp/integrate.cpp"
READ = "src/phreeqcpp/read.cpp"


def _src_if(fn, rel, pred):
    import re
    src = open(core.REPO + "/" + rel, "rb").read()
    for x in A.walk(fn):
        if x.get("kind") != "IfStmt":
            continue
        b, e = A.src_range_text(x["inner"][0])
        if b is None or not e:
            continue
        if pred(re.sub(rb"\s+", b" ", src[b:e]).decode("latin1"), x):
            return x
    return None


def unit_potential_factor(twin=False):
    """prep.cpp add_potential_factor: the psi master species enters the mass-action equation with coefficient -2*dz where dz is the
    net charge of everything in the reaction that is not on the surface: aqueous species, H+ and e-."""
    fn0 = A.find_function(PREP, "Phreeqc::add_potential_factor")
    r = U.new_unit("C20.add_potential_factor.boltzmann_exponent", PREP, "Phreeqc::add_potential_factor", fn0)
    ctx = mkctx()
    AQ = hdr.define_value(GS, "AQ"); SURF = hdr.define_value(GS, "SURF")
    fn, ex, iters, info = U.run_loop_isolated(PREP, "Phreeqc::add_potential_factor", 0, ctx=ctx)
    n = 0
    for s in iters:
        if s.status not in ("run", "cont") or B.z3_sat(list(s.pc)) == "unsat":
            continue
        n += 1
        i = U.local_of(info, s, "i")
        fld = lambda name, so, obj: tm.select(ex.heap_arr(s, ("f", name, so)), obj)
        sz1 = U.local_of(info, s, "sum_z"); sz0 = tm.sym("iter_sum_z", "R")
        # the token species of this iteration: found through the pc / value terms
        cand = [t for t in tm.subterms(tm.and_(tm.eq(sz1, sz1), *s.pc)) if t.op == "select" and t.args[0].op == "sym" and ".type:" in t.args[0].args[0]]
        if not cand:
            r.add("iteration.reads_species_type", UNDECIDED, "symex", 0, "no species type read on this path")
            continue
        sp = cand[0].args[1]
        if isinstance(sp, tuple): sp = sp[0]
        ty = fld("type", "I", sp); z = fld("z", "R", sp)
        coefs = [t for t in tm.subterms(sz1) if t.op == "select" and t.args[0].op == "sym" and ".coef:" in t.args[0].args[0]]
        hplus = fld("s_hplus", "P", THIS); eminus = fld("s_eminus", "P", THIS)
        off_surface = tm.or_(tm.eq(ty, tm.num(AQ, "I")), tm.eq(sp, hplus), tm.eq(sp, eminus))
        if twin:
            off_surface = tm.or_(tm.eq(ty, tm.num(AQ, "I")), tm.eq(sp, hplus))
        hy = list(s.pc)
        # the specification splits the cases, not the code: a path the code does not split is checked under both
        inside = B.z3_sat(hy + [off_surface]) != "unsat"
        outside = B.z3_sat(hy + [tm.not_(off_surface)]) != "unsat"
        zc = z * coefs[0] if coefs else z * tm.select(ex.heap_arr(s, ("f", "coef", "R")), tm.sym("?coef", "P"))
        if inside:
            if not coefs:
                r.add("aqueous_H+_e-.charge_counted", FAILED, "symex+z3", 0, "sum_z unchanged on a path that an aqueous species, H+ or e- can take: %r" % (sz1,))
            else:
                U.discharge_eq_real(r, "aqueous_H+_e-.sum_z+=z*coef", hy + [off_surface], sz1, sz0 + zc)
        if outside:
            U.discharge_eq_real(r, "other_species.sum_z_unchanged", hy + [tm.not_(off_surface)], sz1, sz0)
    r.add("reach.iterations", DISCHARGED if n >= 2 else UNDECIDED, "symex", 0, "%d paths" % n, kind="vacuity")
    from props import common as CM
    CM.check_accumulator_init(r, fn0, PREP, CM.loop_node(fn0, 0), "sum_z", "charge_sum")
    # tail: coefficient of the potential term
    tail = _src_if(fn0, PREP, lambda t, x: t == "master_ptr != NULL" and any(y.get("kind") == "UnaryOperator" and y.get("opcode") == "++" for y in A.walk(x["inner"][1])))
    if tail is None:
        raise Undecided("tail `if (master_ptr != NULL)` of add_potential_factor not found")
    class Sel(object):
        whole_function = True
        def __call__(self, stmts): raise TypeError
        def pick(self, fn): return [tail]
    ctx2 = mkctx()
    fn, ex2, finals, info2 = U.run_region(PREP, "Phreeqc::add_potential_factor", Sel(), ctx=ctx2)
    m = 0
    for s in finals:
        if s.status != "run" or B.z3_sat(list(s.pc)) == "unsat":
            continue
        mp = s.locals[info2["names"]["master_ptr"]]
        if B.z3_prove(list(s.pc), tm.not_(tm.eq(mp, tm.num(0, "P"))))[0] != "proved":
            continue
        key = ("f", "coef", "R")
        if key not in s.heap or s.heap[key].op != "store":
            r.add("psi_term.coef_written", FAILED, "symex", 0, "no coefficient stored")
            continue
        m += 1
        sz = tm.sym("L_sum_z", "R")
        U.discharge_eq_real(r, "psi_term.coef==-2*sum_z(activity of psi species is exp(-F*psi/2RT))", list(s.pc), s.heap[key].args[2], tm.num(-2) * sz if not twin else tm.num(2) * sz)
        ct0 = tm.select(ex2.heap_arr(s, ("f", "count_trxn", "I")), THIS) if False else None
    r.add("reach.tail", DISCHARGED if m >= 1 else UNDECIDED, "symex", 0, "%d paths" % m, kind="vacuity")
    r.assumptions += ["the rest of add_potential_factor (unknown look-up, resize) and its callers in build_model are not under contract",
                      "AQ/SURF type codes read from global_structures.h"]
    return r


def unit_quadrature_partition(twin=False):
    """integrate.cpp calc_all_g: in every branch of the piecewise Romberg ladder the segments tile [1, xd] without gap or overlap
    and new_g is their sum."""
    fn0 = A.find_function(INTEG, "Phreeqc::calc_all_g")
    r = U.new_unit("C20.calc_all_g.piecewise_quadrature_partitions_[1,xd]", INTEG, "Phreeqc::calc_all_g", fn0)
    top = _src_if(fn0, INTEG, lambda t, x: t == "xd_global > 0.1")
    if top is None:
        raise Undecided("quadrature ladder `if (xd_global > 0.1)` not found in calc_all_g")
    class Sel(object):
        whole_function = True
        def __call__(self, stmts): raise TypeError
        def pick(self, fn): return [top]
    ctx = mkctx()
    fn, ex, finals, info = U.run_region(INTEG, "Phreeqc::calc_all_g", Sel(), ctx=ctx)
    n = 0
    for s in finals:
        if s.status != "run" or B.z3_sat(list(s.pc)) == "unsat":
            continue
        evs = [e for e in s.events if e.name.endswith("qromb_midpnt")]
        if not evs:
            r.add("branch.integrates", FAILED, "symex", 0, "a branch of the ladder calls no quadrature")
            continue
        n += 1
        xd = tm.select(ex.heap_arr(s, ("f", "xd_global", "R")), THIS)
        hy = list(s.pc)
        tag = "%d_segments" % len(evs)
        U.discharge_eq_real(r, tag + ".starts_at_1", hy, evs[0].args[1], tm.num(1) if not twin else tm.num(2))
        U.discharge_eq_real(r, tag + ".ends_at_xd", hy, evs[-1].args[2], xd)
        for k in range(len(evs) - 1):
            U.discharge_eq_real(r, tag + ".contiguous[%d]" % k, hy, evs[k].args[2], evs[k + 1].args[1])
        for k in range(len(evs)):
            # break points are above xd (no segment is integrated backwards): upper < lower for k < last is implied by pc
            if k < len(evs) - 1:
                U.discharge_valid(r, tag + ".breakpoint_above_xd[%d]" % k, hy, tm.le(xd, evs[k].args[2]))
        total = evs[0].result
        for e in evs[1:]:
            total = total + e.result
        U.discharge_eq_real(r, tag + ".new_g==sum_of_segments", hy, U.local_of(info, s, "new_g"), total)
    r.add("reach.ladder_branches", DISCHARGED if n >= 8 else UNDECIDED, "symex", 0, "%d branches" % n, kind="vacuity")
    r.assumptions += ["qromb_midpnt(charge, a, b) integrates g_function from a to b (its body and g_function are not under contract)",
                      "the surrounding convergence loop of calc_all_g is not under contract"]
    return r


def unit_cd_music_distribution(twin=False):
    """read.cpp read_surface_species, -cd_music dz0 dz1 dz2 f charge: the fraction f of the central-ion charge goes to plane 0 and
    1-f to plane 1; plane 2 takes dz2; the reaction record gets the same three values."""
    fn0 = A.find_function(READ, "Phreeqc::read_surface_species")
    r = U.new_unit("C20.read_surface_species.cd_music_charge_distribution", READ, "Phreeqc::read_surface_species", fn0)
    src = open(core.REPO + "/" + READ, "rb").read()
    stmts = []
    for x in A.walk(fn0):
        if x.get("kind") == "BinaryOperator" and x.get("opcode") == "=":
            b, e = A.src_range_text(x)
            t = src[b:e].decode("latin1") if b is not None else ""
            if t.replace(" ", "").startswith("s_ptr->dz["):
                stmts.append(x)
    if len(stmts) != 3:
        raise Undecided("expected three assignments to s_ptr->dz[k] in read_surface_species, found %d" % len(stmts))
    # the copying loop that follows
    class Sel(object):
        whole_function = True
        def __call__(self, st): raise TypeError
        def pick(self, fn): return stmts
    ctx = mkctx()
    fn, ex, finals, info = U.run_region(READ, "Phreeqc::read_surface_species", Sel(), ctx=ctx)
    sp = tm.sym("L_s_ptr", "P")
    n = 0
    for s in finals:
        if s.status != "run":
            continue
        n += 1
        arr = ex.heap_arr(s, ("m", "R"))
        cd = tm.app("fld:cd_music", (sp,), "P"); dz = tm.app("fld:dz", (sp,), "P")
        c = lambda k: tm.select(tm.sym("H0.mem:R", "A"), cd, tm.num(k, "I")) if False else tm.select(_entry(ex, s, ("m", "R")), cd, tm.num(k, "I"))
        d = lambda k: tm.select(s.heap[("m", "R")], dz, tm.num(k, "I"))
        f, q = c(3), c(4)
        if twin:
            f = tm.num(1) - f
        U.discharge_eq_real(r, "plane0.dz0==dz0_in+f*charge", list(s.pc), d(0), c(0) + f * q)
        U.discharge_eq_real(r, "plane1.dz1==dz1_in+(1-f)*charge", list(s.pc), d(1), c(1) + (tm.num(1) - f) * q)
        U.discharge_eq_real(r, "plane2.dz2==dz2_in", list(s.pc), d(2), c(2))
        U.discharge_eq_real(r, "total.dz0+dz1+dz2==dz_in_total+charge", list(s.pc), d(0) + d(1) + d(2), c(0) + c(1) + c(2) + c(4))
    r.add("reach.region", DISCHARGED if n == 1 else UNDECIDED, "symex", 0, "%d paths" % n, kind="vacuity")
    r.assumptions += ["cd_music[] and dz[] are distinct arrays of the species record (distinct fields)", "token scanning into cd_music[] and the copy into rxn.dz[] are not under contract"]
    return r


def _entry(ex, s, key):
    a = s.heap.get(key)
    if a is None:
        return ex.heap_arr(s, key)
    while a.op == "store":
        a = a.args[0]
    return a


def units(tier):
    us = []
    def wrap(uid, f, *a):
        def g():
            r = f(*a)
            if not any(o.status == FAILED for o in r.obligations):
                U.must_fail_twin(r, "vacuity.must_fail_twin", lambda: f(*a, twin=True))
            return r
        us.append((uid, g))
    wrap("C20.residuals.DDL_charge_potential_row", unit_residual_row, "DDL")
    wrap("C20.residuals.CCM_charge_potential_row", unit_residual_row, "CCM")
    wrap("C20.add_potential_factor.boltzmann_exponent", unit_potential_factor)
    wrap("C20.calc_all_g.piecewise_quadrature_partitions_[1,xd]", unit_quadrature_partition)
    wrap("C20.read_surface_species.cd_music_charge_distribution", unit_cd_music_distribution)
    from props import c20_more as MO
    wrap("C20.residuals.CD_MUSIC_plane0_charge_from_site_masters", MO.unit_cd_music_sigma0)
    wrap("C20.donnan.charge_group_equivalents_include_enrichment", MO.unit_donnan_equivalents)
    wrap("C20.kinetic_related_sorbents_follow_the_current_amount", MO.unit_related_to_kinetics)
    return us


def run(tier, seed, only, jobs):
    t0 = time.time()
    U.TIER.update(tier=tier, seed=seed)
    us = units(tier)
    from props.common import ext_units as _ext
    us += _ext("C20")
    if only:
        us = [x for x in us if only in x[0]]
    res = core.run_units(us, jobs=jobs)
    return core.finish(PID, tier, seed, "proof", res, t0,
        checker_cmd="astvc: clang AST of model.cpp -> statement contracts on regions of residuals() / jacobian_sums() -> sympy (cancel, diff) / z3 5.1",
        trusted_base=["clang 14 AST", "astvc (vf/astvc)", "sympy 1.14", "z3 5.1"],
        assumptions=["doubles as reals"],
        explanation="The charge-potential rows and their Jacobian entries; site balance and mass action with the potential term at convergence, CD-MUSIC, calc_all_g and Donnan are not decided.")
