"""C02, extension units (helper-written): what the add_* functions of step.cpp put into the reacting system is exactly the reactant's inventory
(every element of it once, amount = coefficient x amount of reactant), what is taken from a reactant is what is added to the solution,
the saved solid solutions are the solved ones, and a negative element total is never silently accepted.  Engine B (astvc)."""
from props.c01_ext_util import *
from props import C02 as P
from vf.astvc import hdr

STEP = "src/phreeqcpp/step.cpp"
MS = "src/phreeqcpp/mainsubs.cpp"
GS = "src/phreeqcpp/global_structures.h"
GETTERS = {"element_store", "Get_elementList", "Get_totals", "Get_gas_comps", "Get_phase_name", "phase_bsearch", "Get_moles", "Get_exchange_comps", "Get_charge_balance", "Get_la",
           "Get_new_def", "Get_type", "Get_surface_comps", "Get_master_element", "Get_surface_charges", "Get_dl_type", "Get_diffuse_layer_totals", "surface_get_psi_master", "Get_name",
           "Get_la_psi", "Get_pp_assemblage_comps", "Get_add_formula", "Get_precipitate_only", "size", "Get_reactantList", "Get_steps", "Get_equalIncrements", "Get_reaction_steps",
           "Get_units", "Get_ss_comps", "Vectorize", "Get_formula", "Get_total_p", "fabs", "Get_ss_assemblage_ptr", "Get_SSs"}


def C(extra=()):
    c = P.mkctx(); c.pure = AllPure(); c.functional.update(GETTERS); c.functional.update(extra)
    c.snapshot = {"add_elt_list": [("count_elts", "I")], "get_elts_in_species": [("count_elts", "I")]}
    return c


ACCS = ("total_h_x", "total_o_x", "total")


def acc_writes(s):
    return [(k, ix, v) for (k, ix, v) in U.iter_writes(s) if k[0] == "f" and k[1] in ACCS]


def check_entry(r, tag, ex, s, mp, amount, twin=False):
    """exactly one accumulator receives `amount`, and it is the accumulator of the master mp (H -> total_h_x, O -> total_o_x, else mp->total)"""
    hy = list(s.pc)
    ws = acc_writes(s)
    if not put(r, "%s.exactly_one_accumulator_written" % tag, len(ws) == 1, "%d writes" % len(ws), kind="frame"):
        return
    key, ix, v = ws[0]
    old = tm.select(entry_arr(ex, s, key), *ix)
    sp = fld0(ex, s, "s", "P", mp); hp = fld0(ex, s, "s_hplus", "P"); hw = fld0(ex, s, "s_h2o", "P")
    if key[1] == "total_h_x":
        valid(r, "%s.total_h_x_only_for_hydrogen" % tag, hy, tm.eq(sp, hp))
    elif key[1] == "total_o_x":
        valid(r, "%s.total_o_x_only_for_oxygen" % tag, hy, tm.eq(sp, hw))
    else:
        valid(r, "%s.master_total_is_that_of_THIS_element's_master" % tag, hy, tm.eq(ix[0], mp))
        valid(r, "%s.master_total_only_for_other_elements" % tag, hy, tm.and_(tm.not_(tm.eq(sp, hp)), tm.not_(tm.eq(sp, hw))))
    eqr(r, "%s.amount_added[%s]" % (tag, key[1]), hy, v, old + (amount if not twin else amount * tm.num(2)))


def map_entry(ex, s, itname="it"):
    it = tm.sym("iter_" + itname, "P")
    node = tm.app("mnode", (it,), "P")
    return it, node, fld0(ex, s, "first", "S", node), fld0(ex, s, "second", "R", node)


def map_cond(r, tag, s, it, container):
    b = [p for p in s.pc if it in tm.subterms(p) and "mend" in repr(p)]
    valid(r, "%s.loop_runs_to_the_end_of_the_list" % tag, [], tm.eq(tm.to_bool(b[0]) if b else tm.FALSE, tm.not_(tm.eq(it, tm.app("mend", (container,), "P")))), kind="establishment")


def index_of(s, prefix="iter_"):
    return [v for v in s.locals.values() if v is not None and not isinstance(v, tuple) and v.op == "sym" and str(v.args[0]).startswith(prefix) and v.sort == "I"]


def elt_slot(ex, s, i):
    return tm.select(entry_arr(ex, s, ("f", "#vdata", "P")), tm.app("fld:elt_list", (THIS,), "P")) + i


def elt_list_loop(r, tag, rel, q, ordinal, amount_of, twin=False, c=None):
    """loop `for (i = 0; i < count_elts; i++)` that books elt_list[i] into the accumulators: amount = amount_of(coef_i, state)"""
    f, ex, its, info = run_iter(rel, q, ordinal, c or C())
    n = 0
    for s in lives(its, ("run", "cont")):
        if not acc_writes(s):
            put(r, "%s.every_element_of_the_list_is_booked" % tag, False, "path %r books nothing" % (s.pc,), kind="post")
            continue
        n += 1
        ok = False
        for i in index_of(s):
            slot = elt_slot(ex, s, i)
            mp = fld0(ex, s, "primary", "P", fld0(ex, s, "elt", "P", slot))
            if any(mp in tm.subterms(p) for p in s.pc):
                ok = True
                check_entry(r, tag, ex, s, mp, amount_of(fld0(ex, s, "coef", "R", slot), s, info), twin)
                if n == 1:
                    b = [p for p in s.pc if i in tm.subterms(p) and "count_elts" in repr(p)]
                    valid(r, "%s.loop_covers_the_whole_element_list" % tag, [], tm.eq(tm.to_bool(b[0]) if b else tm.FALSE, tm.lt(i, fld0(ex, s, "count_elts", "I"))), kind="establishment")
        put(r, "%s.element_is_entry_i_of_the_element_list" % tag, ok, repr(s.pc)[:200], kind="trace") if not ok else None
    put(r, "reach.%s" % tag, n == 3, "%d booking paths" % n, kind="vacuity", undecided=True)
    return f, ex, its, info


# ------------------------------------------------------------------------------------------------ add_reaction
def unit_add_reaction_step(twin=False):
    """the amount of REACTION added in step n (manual, REACTION data block):
       cumulative mode (INCREMENTAL_REACTIONS false): list of amounts -> S[n-1] (the last one beyond the list); `A in N steps` -> A*n/N (A beyond N)
       incremental mode: list -> S[n-1] (last beyond the list); `A in N steps` -> A/N (nothing beyond N);  no amounts -> 0;
       units moles / millimoles / micromoles / nanomoles scale by 1 / 1e-3 / 1e-6 / 1e-9."""
    q = "Phreeqc::add_reaction"
    fn = A.find_function(STEP, q)
    r = U.new_unit("C02.add_reaction.step_amount_as_the_REACTION_block_defines_it", STEP, q, fn)
    f, ex, fin, info = U.run_function(STEP, q, modes={0: "iter"}, ctx=C())
    ent = lives(info["entry"].get(0, []))
    rp = tm.sym("P0_reaction_ptr", "P"); n = tm.sym("P1_step_number", "I")
    seen = set()
    for s in ent:
        hy = list(s.pc)
        steps = tm.app("call:Get_steps", (rp,), "P")
        sz = tm.select(ex.heap_arr(s, ("f", "#vsize", "I")), steps)
        S = lambda k: tm.select(ex.heap_arr(s, ("m", "R")), tm.select(ex.heap_arr(s, ("f", "#vdata", "P")), steps), k)
        N = tm.app("call:Get_reaction_steps", (rp,), "I")
        eqi = tm.app("call:Get_equalIncrements", (rp,), "B")
        hy += [tm.or_(eqi, tm.eq(N, sz))]         # cxxReaction::Get_reaction_steps: steps.size() for a list of amounts
        inc = tm.not_(tm.eq(fld(ex, s, "incremental_reactions", "I"), I(0)))
        cterm = s.locals.get(info["names"]["c"])
        val = fld(ex, s, "step_x", "R")
        for h1, isinc in cases(hy, inc):
            for h2, have in cases(h1, tm.lt(I(0), sz)):
                if not have:
                    seen.add("none"); base = tm.num(0); leaves = [(h2, base, "no_amounts")]
                else:
                    leaves = []
                    for h3, e in cases(h2, eqi):
                        if not e:
                            for h4, beyond in cases(h3, tm.lt(sz, n)):
                                leaves.append((h4, S(sz - I(1)) if beyond else S(n - I(1)), "list.%s" % ("beyond" if beyond else "within")))
                        else:
                            for h4, beyond in cases(h3, tm.lt(N, n)):
                                if isinc:
                                    leaves.append((h4, tm.num(0) if beyond else S(I(0)) / tm.to_real(N), "equal.%s" % ("beyond" if beyond else "within")))
                                else:
                                    leaves.append((h4, S(I(0)) if beyond else S(I(0)) * tm.to_real(n) / tm.to_real(N), "equal.%s" % ("beyond" if beyond else "within")))
                for h, base, nm in leaves:
                    for (code, fac, un) in ((109, "1e-3", "milli"), (117, "1e-6", "micro"), (110, "1e-9", "nano")):
                        pass
                    # unit factor by the first letter of the units string
                    def unit_cases(h, k=0):
                        codes = [(109, tm.Q("1e-3") if not twin else tm.Q("1e-6")), (117, tm.Q("1e-6")), (110, tm.Q("1e-9"))]
                        if k == len(codes):
                            return [(h, tm.num(1))]
                        out = []
                        for hh, yes in cases(h, tm.eq(cterm, I(codes[k][0]))):
                            out += [(hh, codes[k][1])] if yes else unit_cases(hh, k + 1)
                        return out
                    for hh, fac in unit_cases(h):
                        tag = "%s.%s" % ("incremental" if isinc else "cumulative", nm)
                        seen.add(tag)
                        eqr(r, "step_x[%s]" % tag, hh, val, base * fac)
    want = {"%s.%s" % (m, k) for m in ("incremental", "cumulative") for k in ("no_amounts", "list.beyond", "list.within", "equal.beyond", "equal.within")}
    put(r, "reach.all_cases", want <= seen, repr(sorted(want - seen)), kind="vacuity", undecided=True)
    put(r, "units.first_letter_of_the_units_string_decides", all("Get_units" in repr(s.locals.get(info["names"]["c"])) for s in ent), "", kind="trace")
    r.assumptions += ["cxxReaction getters are pure; Get_reaction_steps() == steps.size() unless equalIncrements (Reaction.cxx)", "units strings start with m(illi) / u (micro) / n(ano) or are moles (read_reaction_steps)",
                      "doubles as reals"]
    return r


def unit_add_reaction_elements(twin=False):
    q = "Phreeqc::add_reaction"
    fn = A.find_function(STEP, q)
    r = U.new_unit("C02.add_reaction.each_element_gets_coefficient_x_step_amount_x_fraction", STEP, q, fn)
    f0, ex, its, info0 = run_iter(STEP, q, 0, C())
    its = lives(its, ("run", "cont"))
    rp = tm.sym("P0_reaction_ptr", "P")
    n = 0
    for s in its:
        it, node, name, coef = map_entry(ex, s)
        el = tm.app("call:element_store", (THIS, tm.app("c_str", (name,), "P")), "P")
        if n == 0:
            map_cond(r, "elements", s, it, tm.app("call:Get_elementList", (tm.sym("L_reaction_ptr", "P"),), "P"))
        n += 1
        mp = fld0(ex, s, "primary", "P", el)
        for hyc, known in cases(list(s.pc), tm.and_(nonnull(el), nonnull(mp))):
            if known:
                if acc_writes(s):
                    check_entry(r, "element", ex, s, mp, coef * fld0(ex, s, "step_x", "R") * tm.sym("L_step_fraction", "R"), twin)
                else:
                    put(r, "element.known_element_is_added", False, repr(s.pc)[:200])
            else:
                put(r, "element.unknown_element_adds_nothing", not acc_writes(s), "", kind="frame")
    put(r, "reach.element_paths", n >= 4, "%d" % n, kind="vacuity", undecided=True)
    f, ex, fin, info = U.run_function(STEP, q, modes={0: "skip"}, ctx=C())
    for s in lives(info["entry"].get(0, []))[:1]:
        itv = s.locals.get(info["names"]["it"])
        bg = [e for e in s.events if e.name.endswith("::begin") and e.result is itv]
        put(r, "elements.loop_starts_at_the_beginning_of_the_reaction's_element_list", len(bg) == 1 and bg[0].recv is tm.app("call:Get_elementList", (rp,), "P"), repr(itv), kind="establishment")
        rc = [e for e in s.events if e.name.endswith("reaction_calc")]
        put(r, "elements.list_is_rebuilt_first(reaction_calc on this reaction)", len(rc) == 1 and rc[0].args[0] is rp, repr([e.args for e in rc]), kind="establishment")
    r.assumptions += ["the element list is the one reaction_calc stored (unit C02.reaction_calc)", "element_store(name) returns the element record of that name", "doubles as reals"]
    return r


def unit_reaction_calc(twin=False):
    q = "Phreeqc::reaction_calc"
    fn = A.find_function(STEP, q)
    r = U.new_unit("C02.reaction_calc.element_list==sum_of_coefficient_x_formula_over_reactants", STEP, q, fn)
    f, ex, fin, info = U.run_function(STEP, q, modes={0: "iter", 1: "iter"}, ctx=C())
    its = lives(info["iter"].get(0, []), ("run", "cont"))
    nph = nsp = 0
    for s in its:
        it, node, name, coef = map_entry(ex, s)
        cname = tm.app("c_str", (name,), "P")
        pb = events(s, "phase_bsearch")
        if not put(r, "reactant.looked_up_as_a_phase_by_its_own_name", len(pb) == 1 and pb[0].args[0] is cname, repr([e.args for e in pb])[:200], kind="trace"):
            continue
        ph = pb[0].result
        ae = events(s, "add_elt_list"); ge = events(s, "get_elts_in_species")
        put(r, "reactant.formula_added_exactly_once", len(ae) + len(ge) == 1, "%d/%d" % (len(ae), len(ge)), kind="trace")
        for hyc, isph in cases(list(s.pc), nonnull(ph)):
            if isph:
                nph += 1
                if put(r, "phase_reactant.adds_the_phase's_element_list", len(ae) == 1 and ae[0].args[0] is tm.app("fld:next_elt", (ph,), "P"), repr([e.args for e in ae])[:200], kind="trace"):
                    eqr(r, "phase_reactant.scaled_by_the_reactant's_coefficient", hyc, ae[0].args[1], coef if not twin else tm.num(1))
            else:
                nsp += 1
                if put(r, "formula_reactant.parses_the_reactant's_own_name", len(ge) == 1, "", kind="trace"):
                    eqr(r, "formula_reactant.scaled_by_the_reactant's_coefficient", hyc, ge[0].args[1], coef)
                    cp = tm.select(ex.heap_arr(s, ("m", "P")), ge[0].args[0], I(0))
                    put(r, "formula_reactant.text_parsed_is_the_reactant's_name", cp is cname, repr(cp), kind="trace")
    put(r, "reach.phase_and_formula_reactants", nph >= 1 and nsp >= 1, "%d/%d" % (nph, nsp), kind="vacuity", undecided=True)
    for s in lives(info["entry"].get(0, []))[:1]:
        ce = fld(ex, s, "count_elts", "I")
        put(r, "list.starts_empty(count_elts==0)", tm.isnum(ce) and ce.args[0] == 0, repr(ce), kind="establishment")
        ct = [e for e in s.events if "cxxNameDouble" in e.name or e.name.startswith("ctor")]
        put(r, "list.reactants_are_those_of_this_reaction", any("Get_reactantList" in repr(e.args) or "Get_reactantList" in repr(e.recv) for e in s.events) or "Get_reactantList" in repr(s.locals.get(info["names"]["nd"])) or any(e.name.endswith("Get_reactantList") and e.recv is tm.sym("P0_reaction_ptr", "P") for e in s.events), "", kind="establishment")
    for s in lives(fin, ("ret",)):
        se = [e for e in s.events if e.name.endswith("Set_elementList")]
        en = [e for e in s.events if e.name.endswith("elt_list_NameDouble")]
        put(r, "exit.stores_the_accumulated_list_in_the_reaction", len(se) == 1 and se[0].recv is tm.sym("P0_reaction_ptr", "P") and len(en) == 1 and rec_addr(se[0].args[0]) is not None and (se[0].args[0] is en[0].result or en[0].result in tm.subterms(se[0].args[0])), repr([e.args for e in se])[:200], kind="trace")
    # unknown element => error
    m = 0
    for s in lives(info["iter"].get(1, []), ("run", "cont")):
        ii = index_of(s)
        for i in ii:
            slot = elt_slot(ex, s, i)
            ms = fld0(ex, s, "master", "P", fld0(ex, s, "elt", "P", slot))
            if any(ms in tm.subterms(p) for p in s.pc):
                for hyc, missing in cases(list(s.pc), isnull(ms)):
                    m += 1
                    rv = local(info, s, "return_value")
                    if missing:
                        put(r, "undefined_element.reported_and_ERROR", bool(events(s, "error_msg")) and tm.isnum(rv) and rv.args[0] == 0, repr(rv))
                    else:
                        put(r, "defined_element.silent", not events(s, "error_msg") and rv is tm.sym("iter_return_value", "I"), repr(rv), kind="frame")
    put(r, "reach.element_check", m >= 2, "%d" % m, kind="vacuity", undecided=True)
    r.assumptions += ["add_elt_list(list, c) / get_elts_in_species(&text, c) append c x (elements of the list / formula) to elt_list (parse.cpp; not under contract)",
                      "elt_list_NameDouble() combines elt_list into a name -> amount map", "phase_bsearch is a pure look-up by name"]
    return r


# ------------------------------------------------------------------------------------------------ add_kinetics
def unit_add_kinetics(twin=False):
    q = "Phreeqc::add_kinetics"
    fn = A.find_function(STEP, q)
    r = U.new_unit("C02.add_kinetics.each_element_of_the_reacted_totals_is_added_once", STEP, q, fn)
    f, ex, fin, info = U.run_function(STEP, q, modes={0: "iter"}, ctx=C())
    kp = tm.sym("P0_kinetics_ptr", "P")
    n = 0
    for s in lives(info["iter"].get(0, []), ("run", "cont")):  # one entry state only: the iteration states are not multiplied
        it, node, name, coef = map_entry(ex, s)
        el = tm.app("call:element_store", (THIS, tm.app("c_str", (name,), "P")), "P")
        if n == 0:
            map_cond(r, "totals", s, it, tm.app("call:Get_totals", (kp,), "P"))
        n += 1
        mp = fld0(ex, s, "primary", "P", el)
        for hyc, known in cases(list(s.pc), tm.and_(nonnull(el), nonnull(mp))):
            if known:
                if acc_writes(s):
                    check_entry(r, "element", ex, s, mp, coef, twin)
                else:
                    put(r, "element.known_element_is_added", False, repr(s.pc)[:200])
            else:
                put(r, "element.unknown_element_is_a_fatal_error", not acc_writes(s) and bool(events(s, "error_msg")), "", kind="trace")
    put(r, "reach.element_paths", n >= 4, "%d" % n, kind="vacuity", undecided=True)
    for s in lives(info["entry"].get(0, []))[:1]:
        itv = s.locals.get(info["names"]["it"])
        bg = [e for e in s.events if e.name.endswith("::begin") and e.result is itv]
        put(r, "totals.loop_starts_at_the_beginning_of_the_kinetics_totals", len(bg) == 1 and bg[0].recv is tm.app("call:Get_totals", (kp,), "P"), repr(itv), kind="establishment")
    r.assumptions += ["cxxKinetics::Get_totals() holds the moles of each element reacted in this step (calc_final_kinetic_reaction: unit C02.kinetics.*)", "doubles as reals"]
    return r


# ------------------------------------------------------------------------------------------------ add_gas_phase
def unit_add_gas_phase(twin=False):
    q = "Phreeqc::add_gas_phase"
    fn = A.find_function(STEP, q)
    r = U.new_unit("C02.add_gas_phase.each_component_adds_moles_x_formula", STEP, q, fn)
    f, ex, fin, info = U.run_function(STEP, q, modes={0: "iter", 1: "iter"}, ctx=C())
    gp = tm.sym("P0_gas_phase_ptr", "P")
    nf = nm = 0
    for s in lives(info["iter"].get(0, []), ("run", "cont")):
        comps = tm.app("call:Get_gas_comps", (gp,), "P")
        ok = False
        for i in index_of(s):
            comp = tm.select(entry_arr(ex, s, ("f", "#vdata", "P")), comps) + i
            pb = events(s, "phase_bsearch")
            if len(pb) == 1 and pb[0].args[0] is tm.app("c_str", (tm.app("call:Get_phase_name", (comp,), "S"),), "P"):
                ok = True
                ph = pb[0].result
                ae = events(s, "add_elt_list")
                for hyc, found in cases(list(s.pc), nonnull(ph)):
                    if found:
                        nf += 1
                        if put(r, "component.formula_of_ITS_phase_added_once", len(ae) == 1 and ae[0].args[0] is tm.app("fld:next_elt", (ph,), "P"), repr([e.args for e in ae])[:200], kind="trace"):
                            mol = tm.app("call:Get_moles", (comp,), "R")
                            eqr(r, "component.scaled_by_ITS_moles", hyc, ae[0].args[1], mol if not twin else tm.num(1))
                    else:
                        nm += 1
                        put(r, "component.unknown_phase_is_an_error_and_adds_nothing", not ae and bool(events(s, "error_msg")), "", kind="trace")
                if nf + nm <= 2:
                    b = [p for p in s.pc if i in tm.subterms(p) and "#vsize" in repr(p)]
                    valid(r, "components.loop_covers_every_component", [], tm.eq(tm.to_bool(b[0]) if b else tm.FALSE, tm.lt(i, tm.select(entry_arr(ex, s, ("f", "#vsize", "I")), comps))), kind="establishment")
        put(r, "component.phase_looked_up_by_the_component's_own_name", ok, repr([e.args for e in events(s, "phase_bsearch")])[:200], kind="trace")
    put(r, "reach.components", nf >= 1 and nm >= 1, "%d/%d" % (nf, nm), kind="vacuity", undecided=True)
    for s in lives(info["entry"].get(0, []))[:1]:
        ce = fld(ex, s, "count_elts", "I")
        put(r, "list.starts_empty(count_elts==0)", tm.isnum(ce) and ce.args[0] == 0, repr(ce), kind="establishment")
    k = the_loop(fn, STEP, "total_h_x+=", what="booking of the gas elements")
    elt_list_loop(r, "totals", STEP, q, k, lambda coef, s, info: coef, twin=False)
    r.assumptions += ["add_elt_list(list, c) appends c x list to elt_list (parse.cpp)", "elt_list_combine merges equal elements (sum preserved; not under contract)", "the pressure update at the end is not part of this contract"]
    return r



# ------------------------------------------------------------------------------------------------ add_exchange / add_surface
def _copied_from(evs, obj):
    """follow copy constructors: the object `obj` is (a copy of a copy of ...) what?"""
    seen = 0
    while seen < 4:
        ct = [e for e in evs if e.name.startswith("ctor ") and e.recv is obj and len(e.args) == 1]
        if not ct:
            return obj
        obj = ct[-1].args[0]; seen += 1
    return obj


def _map_source(evs, itv):
    """the map whose begin() produced iterator value itv, with copies followed: returns (getter name, owner) or None"""
    bg = [e for e in evs if e.name.endswith("::begin") and e.result is itv]
    if len(bg) != 1:
        return None
    m = _copied_from(evs, bg[0].recv)
    if m.op == "app" and str(m.args[0]).startswith("call:Get_"):
        return str(m.args[0])[5:], _copied_from(evs, m.args[1])
    return None


def _vslot(ex, s, owner_call, i):
    return tm.select(entry_arr(ex, s, ("f", "#vdata", "P")), owner_call) + i


def _map_loop(r, tag, q, ordinal, master_field, owner_name, getter, twin=False, itname=None):
    """inner loop over a name -> moles map: each entry is booked once with its own amount to the accumulator of its own element"""
    f, ex, its, info = run_iter(STEP, q, ordinal, C())
    n = 0
    for s in lives(its, ("run", "cont")):
        itv = [v for v in s.locals.values() if v is not None and not isinstance(v, tuple) and v.op == "sym" and str(v.args[0]).startswith("iter_") and v.sort == "P"]
        if len(itv) != 1:
            raise Undecided("%s loop %d: iterator not recognised" % (q, ordinal))
        it = itv[0]
        node = tm.app("mnode", (it,), "P")
        name, coef = fld0(ex, s, "first", "S", node), fld0(ex, s, "second", "R", node)
        el = tm.app("call:element_store", (THIS, tm.app("c_str", (name,), "P")), "P")
        mfs = [mf for mf in master_field if any(fld0(ex, s, mf, "P", el) in tm.subterms(p) for p in s.pc)]
        if not acc_writes(s):
            # only an element unknown to the database may be skipped (and then only with an error)
            put(r, "%s.entry_without_booking_is_an_error" % tag, bool(events(s, "error_msg")) or s.status == "cont" and not mfs, repr(s.pc)[:200])
            continue
        n += 1
        if not put(r, "%s.element_looked_up_by_the_entry's_own_name" % tag, len(mfs) >= 1, repr(s.pc)[:200], kind="trace"):
            continue
        check_entry(r, tag, ex, s, fld0(ex, s, mfs[0], "P", el), coef, twin)
        if n == 1:
            b = [p for p in s.pc if it in tm.subterms(p) and "mend" in repr(p)]
            okb = len(b) >= 1 and b[0].op == "not" and b[0].args[0].op == "==" and it in b[0].args[0].args
            put(r, "%s.loop_runs_until_the_end_of_a_map" % tag, okb, repr(b)[:200], kind="establishment")
    put(r, "reach.%s" % tag, n >= 3, "%d booking paths" % n, kind="vacuity", undecided=True)


def unit_add_exchange(twin=False):
    q = "Phreeqc::add_exchange"
    fn = A.find_function(STEP, q)
    r = U.new_unit("C02.add_exchange.sorbed_elements_and_charge_added_once_per_component", STEP, q, fn)
    k_in = the_loop(fn, STEP, "total_h_x+=", what="booking of the sorbed elements")
    _map_loop(r, "sorbed", q, k_in, ("primary",), None, None, twin)
    # the map iterated is (a copy of) the totals of component i, for every component
    k_out = k_in - 1
    f, ex, its, info = run_iter(STEP, q, k_out, C())
    xp = tm.sym("L_exchange_ptr", "P")
    comps = tm.app("call:Get_exchange_comps", (xp,), "P")
    for s in info["inner_entries"].get(k_in, [])[:1]:
        i = index_of(s)[0]
        src_ = _map_source(U.iter_events(s), s.locals.get(info["names"]["it"]))
        put(r, "sorbed.map_is_the_totals_of_component_i", src_ is not None and src_[0] == "Get_totals" and src_[1] is _vslot(ex, s, comps, i), repr(src_), kind="establishment")
        b = [p for p in s.pc if i in tm.subterms(p)]
        valid(r, "sorbed.every_component_visited", [], tm.eq(tm.to_bool(b[0]) if b else tm.FALSE, tm.lt(i, tm.select(entry_arr(ex, s, ("f", "#vsize", "I")), comps))), kind="establishment")
    put(r, "reach.component_loop", bool(info["inner_entries"].get(k_in)), "", kind="vacuity", undecided=True)
    # charge balance of a saved exchanger
    lps = loops_of(fn)
    comp_loops = [k for k in loops_with_body(fn, STEP, "Get_exchange_comps()[", innermost=False)]
    if len(comp_loops) < 2:
        raise Undecided("the second loop over the exchange components (saved exchanger) of add_exchange was not found")
    k_cb = [k for k in comp_loops if k != k_out][0]
    f, ex, its, info = run_iter(STEP, q, k_cb, C())
    m = 0
    for s in lives(its, ("run", "cont")):
        i = index_of(s)[0]
        comp = _vslot(ex, s, comps, i)
        w = [(ix, v) for ix, v in writes(s, ("f", "cb_x", "R"))]
        m += 1
        if put(r, "charge.cb_x_receives_the_component's_charge_once", len(w) == 1, "%d writes to cb_x in the loop over the components of a saved exchanger" % len(w), kind="post"):
            old = tm.select(entry_arr(ex, s, ("f", "cb_x", "R")), THIS) if w[0][1].op != "+" else w[0][1].args[0]
            cbv = tm.app("call:Get_charge_balance", (comp,), "R")
            eqr(r, "charge.cb_x+=charge_balance_of_component_i", list(s.pc), w[0][1], old + (cbv if not twin else tm.neg(cbv)))
            put(r, "charge.added_to_the_running_value", old.op == "select" and "cb_x" in repr(old.args[0]) and old.args[0].op == "sym", repr(old), kind="frame")
        b = [p for p in s.pc if i in tm.subterms(p)]
        valid(r, "charge.every_component_visited", [], tm.eq(tm.to_bool(b[0]) if b else tm.FALSE, tm.lt(i, tm.select(entry_arr(ex, s, ("f", "#vsize", "I")), comps))), kind="establishment")
    put(r, "reach.charge_loop", m >= 1, "%d" % m, kind="vacuity", undecided=True)
    # the charge is added exactly when the exchanger is a saved one (not a new definition)
    ff, exf, finf, infof = U.run_function(STEP, q, default="skip", ctx=C())
    ent = infof["entry"].get(k_cb, [])
    newdef = tm.app("call:Get_new_def", (tm.sym("P0_exchange_ptr", "P"),), "B")
    put(r, "charge.loop_reached_only_for_a_saved_exchanger", bool(ent) and all(proved(list(s.pc), tm.not_(newdef)) for s in ent), "", kind="establishment")
    other = [s for s in lives(finf, ("ret",)) if sat(list(s.pc) + [tm.not_(newdef), nonnull(tm.sym("P0_exchange_ptr", "P"))])]
    put(r, "charge.a_saved_exchanger_always_reaches_it", bool(ent) and len(other) >= 1, "%d" % len(other), kind="establishment")
    r.assumptions += ["cxxExchComp::Get_totals(): moles of every element sorbed on the component incl. the exchanger itself (xexchange_save: C02.xexchange_save)",
                      "copy constructors copy; element_store(name) returns the element of that name", "the log-activity estimates written here are not part of the contract", "doubles as reals"]
    return r


def unit_add_surface(twin=False):
    q = "Phreeqc::add_surface"
    fn = A.find_function(STEP, q)
    r = U.new_unit("C02.add_surface.sorbed_elements_and_charge_added_once_per_component_and_layer", STEP, q, fn)
    lps = loops_of(fn)
    k_tot = the_loop(fn, STEP, "total_h_x+=", nth=0, what="booking of the sorbed elements")
    k_dl = the_loop(fn, STEP, "total_h_x+=", nth=1, what="booking of the diffuse-layer elements")
    _map_loop(r, "sorbed", q, k_tot, ("primary",), None, None, twin)
    _map_loop(r, "diffuse_layer", q, k_dl, ("master", "primary"), None, None, False)
    sp = tm.sym("L_surface_ptr", "P")
    for (k_in, k_out, veccall, getter, tag) in ((k_tot, k_tot - 1, "Get_surface_comps", "totals", "sorbed"), (k_dl, k_dl - 1, "Get_surface_charges", "diffuse_layer_totals", "diffuse_layer")):
        f, ex, its, info = run_iter(STEP, q, k_out, C())
        vec = tm.app("call:" + veccall, (sp,), "P")
        ie = info["inner_entries"].get(k_in, [])
        for s in ie[:1]:
            i = index_of(s)[0]
            ptr = "comp_ptr" if tag == "sorbed" else "charge_ptr"
            pv = s.locals.get(info["names"].get(ptr)) if ptr in info["names"] else None
            put(r, "%s.item_pointer_is_item_i" % tag, pv is _vslot(ex, s, vec, i), repr(pv), kind="establishment")
            # the inner loop walks <pointer>->Get_<getter>() from begin() to end()
            fi, exi, itsi, infoi = run_iter(STEP, q, k_in, C())
            cont = tm.app("call:Get_" + getter, (tm.sym("L_" + ptr, "P"),), "P")
            for t in lives(itsi, ("run", "cont"))[:1]:
                jv = [v for v in t.locals.values() if v is not None and not isinstance(v, tuple) and v.op == "sym" and str(v.args[0]).startswith("iter_") and v.sort == "P"][0]
                b2 = [p_ for p_ in t.pc if jv in tm.subterms(p_) and "mend" in repr(p_)]
                valid(r, "%s.walk_ends_at_the_end_of_the_item's_%s" % (tag, getter), [], tm.eq(tm.to_bool(b2[0]) if b2 else tm.FALSE, tm.not_(tm.eq(jv, tm.app("mend", (cont,), "P")))), kind="establishment")
            fr, exr, finr, infor = region(STEP, q, [lps[k_in]["inner"][0]], C())
            for t in lives(finr)[:1]:
                bg = [e for e in t.events if e.name.endswith("::begin") and any(v is e.result for v in t.locals.values())]
                put(r, "%s.walk_starts_at_the_beginning_of_the_item's_%s" % (tag, getter), len(bg) == 1 and bg[0].recv is cont, repr([e.recv for e in bg]), kind="establishment")
            b = [p for p in s.pc if i in tm.subterms(p) and "#vsize" in repr(p)]
            valid(r, "%s.every_item_visited" % tag, [], tm.eq(tm.to_bool(b[0]) if b else tm.FALSE, tm.lt(i, tm.select(entry_arr(ex, s, ("f", "#vsize", "I")), vec))), kind="establishment")
        put(r, "reach.%s_outer_loop" % tag, bool(ie), "", kind="vacuity", undecided=True)
        # charge: written before the inner loop is reached; decided per state at the inner loop entry or at the end of an iteration that skips it
        def passed_inner(t):
            return any(len(t.pc) >= len(u.pc) and list(t.pc[:len(u.pc)]) == list(u.pc) for u in ie)
        ends = [t for t in lives(its, ("run", "cont")) if not passed_inner(t)]
        nch = {True: 0, False: 0}
        for s in list(ie) + ends:
            if not sat(list(s.pc)):
                continue
            i = index_of(s)[0]
            item = _vslot(ex, s, vec, i)
            ty = tm.app("call:Get_type", (sp,), "I")
            E = lambda n: tm.sym("E." + n, "I")
            want = tm.eq(ty, E("NO_EDL")) if tag == "sorbed" else tm.or_(tm.eq(ty, E("DDL")), tm.eq(ty, E("CCM")), tm.eq(ty, E("CD_MUSIC")))
            cbv = tm.app("call:Get_charge_balance", (item,), "R")
            arr = s.heap.get(("f", "cb_x", "R"))
            base = arr
            nst = 0
            while base is not None and base.op == "store":
                base = base.args[0]; nst += 1
            old = tm.select(base, THIS) if base is not None else fld(ex, s, "cb_x", "R")
            cur = fld(ex, s, "cb_x", "R")
            put(r, "%s.charge.cb_x_written_at_most_once_per_item" % tag, nst <= 1, "%d" % nst, kind="frame") if nst > 1 else None
            for hyc, on in cases(list(s.pc), want):
                nch[on] += 1
                eqr(r, "%s.charge.%s" % (tag, "cb_x+=charge_balance_of_item_i" if on else "no_charge_from_this_record_for_other_surface_types"), hyc, cur, old + (cbv if not (twin and tag == "diffuse_layer") else tm.num(0)) if on else old)
        put(r, "reach.%s.charge_cases" % tag, nch[True] >= 1 and (nch[False] >= 1 or tag == "diffuse_layer"), repr(nch), kind="vacuity", undecided=True)
    r.assumptions += ["cxxSurfaceComp::Get_totals / cxxSurfaceCharge::Get_diffuse_layer_totals hold the moles saved by xsurface_save (C02.xsurface_save)", "which branch of the diffuse layer is added back: C02.add_surface.saved_diffuse_layer_totals_are_added_back",
                      "the charge loop is only reached for DDL / CCM / CD_MUSIC surfaces (early return otherwise)", "the log-activity estimates written here are not part of the contract", "doubles as reals"]
    return r



# ------------------------------------------------------------------------------------------------ add_pp_assemblage / add_ss_assemblage
def _take_and_give(r, fname, comp_loop, book_loop, comp_of, twin=False):
    """a small amount A of a phase / solid-solution component is moved into the solution so that every element of it exists:
       the solution receives coef_e * A of every element e of the formula (booking loop), the component loses exactly A
       (Set_moles(moles - A), Set_delta(A)), and A never exceeds the moles present."""
    q = "Phreeqc::" + fname
    fn = A.find_function(STEP, q)
    elt_list_loop(r, "given", STEP, q, book_loop, lambda coef, s, info: coef * (tm.sym("L_amount_to_add", "R") if not twin else tm.num(1)))
    f, ex, its, info = run_iter(STEP, q, comp_loop, C())
    ie = info["inner_entries"].get(book_loop, [])
    nmove = nkeep = 0
    for s in lives(its, ("run", "cont")):
        comp = comp_of(ex, s, info)
        sm = [e for e in U.iter_events(s) if e.name.endswith("Set_moles")]
        sd = [e for e in U.iter_events(s) if e.name.endswith("Set_delta")]
        Aend = local(info, s, "amount_to_add")
        hy = list(s.pc)
        mol = tm.app("call:Get_moles", (comp,), "R")
        if sm:
            nmove += 1
            put(r, "taken.one_update_of_THIS_component", len(sm) == 1 and sm[0].recv is comp and bool(sd) and sd[-1].recv is comp, repr([(e.recv, e.args) for e in sm])[:200], kind="trace")
            eqr(r, "taken.moles_reduced_by_exactly_the_amount_given", hy, sm[0].args[0], mol - Aend)
            eqr(r, "taken.delta_records_the_amount_given", hy, sd[-1].args[0], Aend)
            valid(r, "taken.never_more_than_present(moles stay >= 0)", hy, tm.le(tm.num(0), sm[0].args[0]))
            valid(r, "taken.only_a_positive_amount", hy, tm.lt(tm.num(0), Aend))
        else:
            nkeep += 1
            put(r, "kept.component_untouched_and_nothing_given", all(tm.isnum(e.args[0]) and e.args[0].args[0] == 0 for e in sd) and not acc_writes(s), repr([e.args for e in sd])[:100], kind="frame")
    put(r, "reach.move_and_keep", nmove >= 1 and nkeep >= 1, "%d/%d" % (nmove, nkeep), kind="vacuity", undecided=True)
    # the booking loop is entered exactly on the paths that take from the component, with the same amount
    for s in ie:
        sm = [e for e in U.iter_events(s) if e.name.endswith("Set_moles")]
        put(r, "given.only_together_with_the_reduction_of_the_component", len(sm) == 1, "%d" % len(sm), kind="trace")
        if sm:
            eqr(r, "given.amount_is_the_amount_taken", list(s.pc), tm.app("call:Get_moles", (sm[0].recv,), "R") - sm[0].args[0], local(info, s, "amount_to_add"))
    put(r, "reach.booking_loop_entry", bool(ie), "%d" % len(ie), kind="vacuity", undecided=True)
    return fn, ex, its, info


def unit_add_pp(twin=False):
    q = "Phreeqc::add_pp_assemblage"
    fn = A.find_function(STEP, q)
    r = U.new_unit("C02.add_pp_assemblage.amount_taken_from_a_phase_is_what_the_solution_receives", STEP, q, fn)
    lps = loops_of(fn)
    elt = [None, the_loop(fn, STEP, "total_h_x+=", what="booking loop")]
    if the_loop(fn, STEP, "Set_moles(", innermost=False, what="component loop") != 0:
        raise Undecided("add_pp_assemblage: the component loop is not the outermost loop")
    comp_of = lambda ex, s, info: tm.app("fld:second", (tm.app("mnode", (tm.sym("iter_it", "P"),), "P"),), "P")
    f, ex, its, info = _take_and_give(r, "add_pp_assemblage", 0, elt[1], comp_of, twin)
    # the formula used is that of THIS phase alone
    n = 0
    for s in lives(its, ("run", "cont")):
        ae = [e for e in U.iter_events(s) if e.name.endswith("add_elt_list")]
        ge = [e for e in U.iter_events(s) if e.name.endswith("get_elts_in_species")]
        if not ae and not ge:
            continue
        n += 1
        pb = [e for e in U.iter_events(s) if e.name.endswith("phase_bsearch")]
        nm = tm.app("c_str", (fld0(ex, s, "first", "S", tm.app("mnode", (tm.sym("iter_it", "P"),), "P")),), "P")
        for e in ae:
            put(r, "formula.element_list_of_THIS_phase_with_coefficient_1_into_an_empty_list", len(pb) == 1 and pb[0].args[0] is nm and e.args[0] is tm.app("fld:next_elt", (pb[0].result,), "P")
                and tm.isnum(e.args[1]) and e.args[1].args[0] == 1 and e.snap and tm.isnum(e.snap.get("count_elts")) and e.snap["count_elts"].args[0] == 0, repr((e.args, e.snap))[:200], kind="trace")
        for e in ge:
            put(r, "formula.alternative_formula_with_coefficient_1", tm.isnum(e.args[1]) and e.args[1].args[0] == 1, repr(e.args)[:100], kind="trace")
        put(r, "formula.exactly_one_source", len(ae) + len(ge) == 1, "%d/%d" % (len(ae), len(ge)), kind="trace")
    put(r, "reach.formula", n >= 2, "%d" % n, kind="vacuity", undecided=True)
    r.assumptions += ["cxxPPassemblageComp setters/getters are plain accessors", "how large the amount is (enough to bring every element above 1e-10 mol) is not pinned, only that it is positive and at most the moles present",
                      "add_elt_list / get_elts_in_species append coefficient x formula to elt_list (C02.add_pp_assemblage.formula_workspace covers the other branch's empty list)", "doubles as reals"]
    return r


def unit_add_ss(twin=False):
    q = "Phreeqc::add_ss_assemblage"
    fn = A.find_function(STEP, q)
    r = U.new_unit("C02.add_ss_assemblage.amount_taken_from_a_component_is_what_the_solution_receives", STEP, q, fn)
    lps = loops_of(fn)
    elt = [None, the_loop(fn, STEP, "total_h_x+=", what="booking loop")]
    comps = [k for k in loops_with_body(fn, STEP, "Set_moles(", innermost=False) if "comp_ptr=" in text_of(STEP, lps[k]["inner"][-1]) or "comp_ptr=&" in text_of(STEP, lps[k]["inner"][-1])]
    comps = comps[-1:]        # the innermost loop that declares the component pointer and updates its moles
    if len(comps) != 1:
        raise Undecided("add_ss_assemblage: component loop not recognised")
    def comp_of(ex, s, info):
        v = s.locals.get(info["names"]["comp_ptr"])
        if v is None or isinstance(v, tuple):
            raise Undecided("comp_ptr not a scalar")
        return v
    f, ex, its, info = _take_and_give(r, "add_ss_assemblage", comps[0], elt[1], comp_of, twin)
    for s in lives(its, ("run", "cont"))[:1]:
        j = [v for v in index_of(s) if "j" in str(v.args[0])]
        ssp = s.locals.get(info["names"]["ss_ptr"])
        want = tm.select(entry_arr(ex, s, ("f", "#vdata", "P")), tm.app("call:Get_ss_comps", (ssp,), "P")) + (j[0] if j else I(0))
        put(r, "component.is_component_j_of_the_solid_solution", comp_of(ex, s, info) is want, repr(comp_of(ex, s, info)), kind="establishment")
    r.assumptions += ["cxxSScomp setters/getters are plain accessors", "the formula parsed is the component's phase formula into an empty list: C02.add_ss_assemblage.formula_workspace", "doubles as reals"]
    return r


# ------------------------------------------------------------------------------------------------ xss_assemblage_save
def unit_xss_save(twin=False):
    q = "Phreeqc::xss_assemblage_save"
    fn = A.find_function(MS, q)
    r = U.new_unit("C02.xss_assemblage_save.saves_the_solved_solid_solutions_under_the_requested_number", MS, q, fn)
    c = C(("Get_ss_assemblage_ptr", "Get_SSs", "Vectorize", "Get_ss_comps", "Get_moles"))
    f, ex, fin, info = U.run_function(MS, q, default="iter", ctx=c)
    n = tm.sym("P0_n_user", "I")
    nsave = nnone = 0
    for s in lives(fin, ("ret",)):
        evs = s.events
        use = [e for e in evs if e.name.endswith("Get_ss_assemblage_ptr")]
        st = [e for e in evs if e.name.endswith("Set_SSs")]
        if not st:
            nnone += 1
            put(r, "nothing_in_use.nothing_saved", not [e for e in evs if "operator[]" in e.name or e.name.startswith("map.")], repr([e.name for e in evs])[:200], kind="frame")
            continue
        nsave += 1
        tmpo = st[0].recv
        src_ = st[0].args[0]
        put(r, "saved.solid_solutions_are_those_of_the_assemblage_in_use", src_.op == "app" and str(src_.args[0]) == "call:Get_SSs" and any(src_.args[1] is e.result for e in use), repr(src_)[:200], kind="trace")
        su = [e for e in evs if e.name.endswith("Set_n_user") and e.recv is tmpo]
        se = [e for e in evs if e.name.endswith("Set_n_user_end") and e.recv is tmpo]
        put(r, "saved.numbered_n_user", len(su) == 1 and su[0].args[0] is n and len(se) == 1 and se[0].args[0] is (n if not twin else I(0)), repr([e.args for e in su + se]), kind="trace")
        nd = [e for e in evs if e.name.endswith("Set_new_def") and e.recv is tmpo]
        put(r, "saved.marked_as_not_a_new_definition", len(nd) == 1 and (nd[0].args[0] is tm.FALSE or (tm.isnum(nd[0].args[0]) and nd[0].args[0].args[0] == 0)), repr([e.args for e in nd]), kind="trace")
        # stored under key n_user: an assignment into Rxn_ss_assemblage_map[n_user]
        stores = [e for e in evs if ("operator[]" in e.name or "map" in e.name.lower()) and any(a is n for a in e.args if a is not None and not isinstance(a, tuple))]
        mp = tm.app("fld:Rxn_ss_assemblage_map", (THIS,), "P")
        okstore = any(e.recv is mp for e in stores) or any("Rxn_ss_assemblage_map" in repr(k) for k in s.heap)
        asg = [e for e in evs if e.name.endswith("operator=") and len(e.args) == 1 and e.args[0] is tmpo]
        slot = tm.app("fld:second", (tm.app("mnode", (tm.app("miter", (mp, n), "P"),), "P"),), "P")
        okstore = len(asg) == 1 and asg[0].recv is slot
        order = [k for k, e in enumerate(evs) if e in asg or e in st]
        put(r, "saved.assembled_before_it_is_stored", len(order) == 2 and evs[order[0]] in st, repr(order), kind="trace")
        put(r, "saved.stored_in_the_solid_solution_store_under_n_user", okstore, repr([(e.name, e.recv, e.args) for e in stores])[:300], kind="trace")
    put(r, "reach.save_and_nothing", nsave >= 1 and nnone >= 1, "%d/%d" % (nsave, nnone), kind="vacuity", undecided=True)
    m = 0
    for k, sts in info["iter"].items():
        for s in lives(sts, ("run", "cont")):
            si = [e for e in U.iter_events(s) if e.name.endswith("Set_initial_moles")]
            for e in si:
                m += 1
                put(r, "saved.initial_moles:=solved_moles_of_the_same_component", e.args[0] is tm.app("call:Get_moles", (e.recv,), "R"), repr((e.recv, e.args))[:200], kind="trace")
    put(r, "reach.component_loop", m >= 1, "%d" % m, kind="vacuity", undecided=True)
    r.assumptions += ["the solver updates the moles of the assemblage in use in place (reset(): C02.reset.*); Set_SSs copies the map of solid solutions", "std::map assignment stores a copy under the key"]
    return r


# ------------------------------------------------------------------------------------------------ solution_check
def unit_solution_check(twin=False):
    """a master total within +-MIN_TOTAL of zero is set to exactly 0 (inside the property's tolerance); a positive total is left alone; a total below
    -MIN_TOTAL is NEVER silently repaired for an element: the step is rejected (MASS_BALANCE) and the total is left as it is.  Only the bookkeeping
    masters e-, H2O, H+, H3O+ (whose inventory is carried by total_h_x / total_o_x / cb_x) are reset."""
    q = "Phreeqc::solution_check"
    fn = A.find_function(STEP, q)
    r = U.new_unit("C02.solution_check.negative_element_total_rejects_the_step", STEP, q, fn)
    f, ex, its, info = run_iter(STEP, q, 0, C())
    MB = int(hdr.define_value(GS, "MASS_BALANCE"))
    seen = set()
    for s in lives(its, ("run", "cont", "ret")):
        i = index_of(s)[0]
        mp = vec_elem(ex, s, "master", i)
        t = fld0(ex, s, "total", "R", mp)
        mt = fld0(ex, s, "MIN_TOTAL", "R")
        sp = fld0(ex, s, "s", "P", mp)
        special = tm.or_(*[tm.eq(sp, fld0(ex, s, nm, "P")) for nm in ("s_eminus", "s_h2o", "s_hplus", "s_h3oplus")])
        hy = list(s.pc) + [tm.lt(tm.num(0), mt)]
        w = writes(s, ("f", "total", "R"))
        others = [k for k in s.heap if writes(s, k) and k not in (("f", "total", "R"), ("f", "error_string", "P"))]
        put(r, "frame.only_master_totals_written", not others, repr(others), kind="frame") if others else None
        tiny = tm.and_(tm.le(t, mt), tm.le(tm.neg(mt), t))
        if s.status == "ret":
            seen.add("reject")
            valid(r, "reject.only_an_element_total_below_-MIN_TOTAL", hy, tm.and_(tm.lt(t, tm.neg(mt)), tm.not_(special)))
            valid(r, "reject.returns_MASS_BALANCE", hy, tm.eq(s.ret, I(MB if not twin else 1)))
            put(r, "reject.total_left_as_it_is(no mass created)", not w, repr(w)[:100], kind="frame")
        elif w:
            seen.add("zeroed")
            put(r, "zeroed.this_master's_total_only_and_to_exactly_0", len(w) == 1 and w[0][0] == (mp,) and tm.isnum(w[0][1]) and w[0][1].args[0] == 0, repr(w)[:200], kind="frame")
            valid(r, "zeroed.only_within_MIN_TOTAL_of_zero_or_a_bookkeeping_master_below_zero", hy, tm.or_(tiny, tm.and_(tm.lt(t, tm.num(0)), special)))
        else:
            seen.add("kept")
            valid(r, "kept.only_a_positive_total", hy, tm.lt(tm.num(0), t) if False else tm.le(tm.num(0), t))
    put(r, "reach.three_outcomes", seen == {"reject", "zeroed", "kept"}, repr(sorted(seen)), kind="vacuity", undecided=True)
    for s in lives(its)[:1]:
        i = index_of(s)[0]
        b = [p for p in s.pc if i in tm.subterms(p) and "#vsize" in repr(p)]
        valid(r, "loop.covers_every_master", [], tm.eq(tm.to_bool(b[0]) if b else tm.FALSE, tm.lt(i, tm.select(entry_arr(ex, s, ("f", "#vsize", "I")), tm.app("fld:master", (THIS,), "P")))), kind="establishment")
    ff, exf, finf, infof = U.run_function(STEP, q, default="havoc", ctx=C())
    okr = [s for s in lives(finf, ("ret",)) if tm.isnum(s.ret) and s.ret.args[0] == 1]
    put(r, "exit.OK_only_after_the_whole_list_was_checked", len(okr) == 1 and len(lives(finf, ("ret",))) == 1, "%d OK exits of %d" % (len(okr), len(lives(finf, ("ret",)))), kind="establishment")
    r.assumptions += ["MIN_TOTAL > 0", "the caller (step / run_reactions) retries or reports when MASS_BALANCE is returned; not under this contract", "doubles as reals"]
    return r


UNITS = [
    ("C02.add_reaction.step_amount_as_the_REACTION_block_defines_it", unit_add_reaction_step),
    ("C02.add_reaction.each_element_gets_coefficient_x_step_amount_x_fraction", unit_add_reaction_elements),
    ("C02.reaction_calc.element_list==sum_of_coefficient_x_formula_over_reactants", unit_reaction_calc),
    ("C02.add_kinetics.each_element_of_the_reacted_totals_is_added_once", unit_add_kinetics),
    ("C02.add_gas_phase.each_component_adds_moles_x_formula", unit_add_gas_phase),
    ("C02.add_exchange.sorbed_elements_and_charge_added_once_per_component", unit_add_exchange),
    ("C02.add_surface.sorbed_elements_and_charge_added_once_per_component_and_layer", unit_add_surface),
    ("C02.add_pp_assemblage.amount_taken_from_a_phase_is_what_the_solution_receives", unit_add_pp),
    ("C02.add_ss_assemblage.amount_taken_from_a_component_is_what_the_solution_receives", unit_add_ss),
    ("C02.xss_assemblage_save.saves_the_solved_solid_solutions_under_the_requested_number", unit_xss_save),
    ("C02.solution_check.negative_element_total_rejects_the_step", unit_solution_check),
]

from props.c02_ext2 import UNITS as _U2; UNITS = UNITS + _U2
from props.c02_ext3 import UNITS as _U3; UNITS = UNITS + _U3
from props.c02_ext5 import UNITS as _U5; UNITS = UNITS + _U5
