"""C15 (extension 3): WHICH WORD of an option line each solution option reads.

The same water can be written as a SOLUTION block, as the block-level defaults of SOLUTION_SPREAD, or in the cells of a SOLUTION_SPREAD row.  The
three readers (read_solution, read_solution_spread, spread_row_to_solution) have an option switch each; the earlier units say which MEMBER an
option changes.  This unit follows the token data flow: the line behind the option name is a sequence of words W1 W2 W3 ...; copy_token(token, &cursor)
delivers word(cursor) and moves the cursor to after(cursor); sscanf(text) delivers number(text).  With these three uninterpreted functions the value
every option stores is a term that tells from which word it came, and the contract is one table for all three readers:

    -temp / -pressure / -potential / -water / -ph / -pe (defaults)  : the number of word 1
    -density                                                        : the number of word 1; `calculate` is switched on exactly when WORD 2 begins with c / C
    -units / -redox                                                 : word 1 (normalised by check_units / parse_couple)
    -isotope                                                        : name = word 1, ratio = number of word 2, uncertainty = number of word 3
    -isotope_uncertainty (defaults only)                            : name = word 1, uncertainty = number of word 2

so `-density 1.02 calc` means the same in all three places."""
from props.common import *
from props.c01_ext_util import put, valid, proved, I, lives, sat
from props.c15_ext2 import reader_ctx, opt_names, outer_switch_with, opt_of, short, READ, SPREAD, ONE, ENUMS
from vf.core import FAILED, DISCHARGED, UNDECIDED
from vf.astvc import symex as SX

XENUMS = ENUMS + ["CParser::TT_EMPTY", "CParser::TT_DIGIT", "CParser::TT_UPPER", "CParser::TT_LOWER", "CParser::PARSER_OK", "CParser::PARSER_ERROR"]


# ------------------------------------------------------------------------------------------------ word-level models of the scanners
def word_handler(ex, st, n, name, recv, args):
    """copy_token(token, &cursor): token = word(cursor), cursor = after(cursor), result = toktype(word(cursor))"""
    argn = n["inner"][1:]
    if len(args) < 2 or args[1].sort != "P":
        return None
    lvc = ex.deref(st, args[1])
    p = ex.load(st, lvc, "P")
    w = tm.app("word", (p,), "S")
    for s, l in ex.lv(argn[0], st):
        ex.store(s, l, w, "S")
    ex.store(st, lvc, tm.app("after", (p,), "P"), "P")
    res = tm.app("toktype", (w,), "I")
    e = SX.Event(name, recv, args, res, n)
    e.snap = {"token": w, "at": p}
    st.events.append(e)
    return [(st, res)]


def number_handler(ex, st, n, name, recv, args):
    """sscanf(text, "%lf", &x): result nconv(text); x = number(text) when that is 1, unchanged otherwise"""
    fr = tm.app("number", (args[0],), "R")
    res = tm.app("nconv", (args[0],), "I")
    if len(args) >= 3 and args[2].sort == "P":
        lv = ex.deref(st, args[2])
        old = ex.load(st, lv, "R")
        ex.store(st, lv, tm.ite(tm.eq(res, ONE), fr, old), "R")
    e = SX.Event(name, recv, args, res, n)
    e.snap = {"value": fr, "source": args[0]}
    st.events.append(e)
    return [(st, res)]


def char_at_handler(ex, st, n, name, *rest):
    """s[i] of a std::string: char_at(s, i)"""
    if len(rest) != 1:
        return None
    an = rest[0]
    out = []
    for s1, i in ex.ev(an[1], st):
        for s2, l in ex.lv(an[0], s1):
            out.append((s2, tm.app("char_at", (ex.load(s2, l, "S"), i), "I")))
    return out


def units_handler(ex, st, n, name, recv, args):
    """check_units(units, ...): normalises `units` in place, result units_ok(raw text)"""
    argn = n["inner"][1:]
    canon = tm.app("canonical_unit", (args[0],), "S")
    for s, l in ex.lv(argn[0], st):
        ex.store(s, l, canon, "S")
    res = tm.app("units_ok", (args[0],), "I")
    e = SX.Event(name, recv, args, res, n)
    e.snap = {"canon": canon, "raw": args[0]}
    st.events.append(e)
    return [(st, res)]


def couple_handler(ex, st, n, name, recv, args):
    """CParser::parse_couple(token): orders the couple in place, result couple_ok(raw text)"""
    argn = n["inner"][1:]
    canon = tm.app("canonical_couple", (args[0],), "S")
    for s, l in ex.lv(argn[0], st):
        ex.store(s, l, canon, "S")
    res = tm.app("couple_ok", (args[0],), "I")
    e = SX.Event(name, recv, args, res, n)
    st.events.append(e)
    return [(st, res)]


def word_ctx():
    c = reader_ctx(("string_hsave",))
    ev = A.enum_values_compiled("Phreeqc.h", XENUMS)
    c.enum_values.update({k.split("::")[-1]: v for k, v in ev.items()})
    c.handlers["copy_token"] = word_handler
    c.handlers["sscanf"] = number_handler
    c.handlers["check_units"] = units_handler
    c.handlers["parse_couple"] = couple_handler
    c.handlers["std::basic_string<char>::operator[]"] = char_at_handler
    return c


# ------------------------------------------------------------------------------------------------ the table
# abstract member  <-  (kind, word position)
TABLE = {
    "temp": {"temperature": ("num", 1)}, "temperature": {"temperature": ("num", 1)},
    "dens": {"density": ("num", 1), "calc": ("flag", 2)}, "density": {"density": ("num", 1), "calc": ("flag", 2)},
    "units": {"units": ("word", 1)}, "unit": {"units": ("word", 1)}, "redox": {"redox": ("word", 1)},
    "ph": {"ph": ("num", 1)}, "pe": {"pe": ("num", 1)}, "water": {"water": ("num", 1)},
    "pressure": {"pressure": ("num", 1)}, "press": {"pressure": ("num", 1)}, "potential": {"potential": ("num", 1)},
    "isotope": {"iso_name": ("word", 1), "iso_ratio": ("num", 2), "iso_unc": ("num", 3)},
    "isotope_uncertainty": {"iso_name": ("word", 1), "iso_unc": ("num", 2)}, "uncertainty": {"iso_name": ("word", 1), "iso_unc": ("num", 2)},
    "uncertainties": {"iso_name": ("word", 1), "iso_unc": ("num", 2)},
}
FIELD2ABS = {"temp": "temperature", "density": "density", "calc_density": "calc", "units": "units", "redox": "redox", "ph": "ph", "pe": "pe", "water": "water",
             "pressure": "pressure", "iso.name": "iso_name", "iso.value": "iso_ratio", "iso.uncertainty": "iso_unc"}
SETTER2ABS = {"Set_tc": "temperature", "Set_density": "density", "Set_calc_density": "calc", "Set_units": "units", "Set_default_pe": "redox", "Set_mass_water": "water",
              "Set_patm": "pressure", "Set_potV": "potential", "Set_isotope_name": "iso_name", "Set_ratio": "iso_ratio", "Set_ratio_uncertainty": "iso_unc"}
# constants an option may store instead of a word of its line (the member's neutral value when the line has no such word)
CONSTANT_OK = {"water": (1,), "pressure": (1,), "potential": (0,), "iso_unc": ("nan",), "iso_ratio": ("nan",), "calc": (True,)}

READERS = {
    "SOLUTION": (READ, "Phreeqc::read_solution", "Set_tc"),
    "SPREAD_defaults": (SPREAD, "Phreeqc::read_solution_spread", "spread_row_to_solution("),
    "SPREAD_row": (SPREAD, "Phreeqc::spread_row_to_solution", "Set_tc"),
}


def cursor_of(fn):
    """the cursor variable the option scanner (get_option / get_option_string) leaves behind the option name: its last argument `&cursor`"""
    names = set()
    for x in A.walk(fn):
        if x.get("kind") in ("CallExpr", "CXXMemberCallExpr"):
            cal = [y for y in A.walk(x["inner"][0]) if y.get("kind") in ("MemberExpr", "DeclRefExpr")]
            nm = (cal[0].get("name") or cal[0].get("referencedDecl", {}).get("name")) if cal else None
            if nm in ("get_option", "get_option_string"):
                last = x["inner"][-1]
                for y in A.walk(last):
                    if y.get("kind") == "DeclRefExpr" and y.get("referencedDecl", {}).get("kind") == "VarDecl":
                        names.add(y["referencedDecl"]["name"])
    if len(names) != 1:
        raise Undecided("cursor of the option scanner not unique: %r" % sorted(names))
    return names.pop()


def chain(p):
    """(base, depth) of after^depth(base)"""
    d = 0
    while isinstance(p, tm.T) and p.op == "app" and p.args[0] == "after":
        p = p.args[1]; d += 1
    return p, d


def words_in(t):
    return [x for x in tm.subterms(t) if x.op == "app" and x.args[0] == "word"]


def numbers_in(t):
    return [x for x in tm.subterms(t) if x.op == "app" and x.args[0] == "number"]


def is_nan(v, s):
    return any(e.result is v and "nan" in short(e).lower() for e in s.events) or (tm.isnum(v) is False and "nan" in repr(v).lower() and not words_in(v))


def pos_terms(base, k):
    p = base
    for _ in range(k - 1):
        p = tm.app("after", (p,), "P")
    w = tm.app("word", (p,), "S")
    return p, w


def unit_words(twin=False):
    r = U.new_unit("C15.solution_options.every_option_reads_the_same_word_of_its_line_in_SOLUTION_SPREAD_defaults_and_SPREAD_rows", SPREAD, "Phreeqc::read_solution_spread",
                   A.find_function(SPREAD, "Phreeqc::read_solution_spread"))
    table = {k: dict(v) for k, v in TABLE.items()}
    if twin:
        table["density"]["calc"] = ("flag", 1); table["dens"]["calc"] = ("flag", 1)
    handled = {}
    for reader, (rel, q, needle) in READERS.items():
        fn = A.find_function(rel, q)
        names = opt_names(fn)
        sw = outer_switch_with(fn, rel, needle)
        cond = strip(sw["inner"][0])
        if cond.get("kind") != "DeclRefExpr":
            raise Undecided("the option switch of %s does not switch on a variable" % q)
        optsym = tm.sym("L_" + cond["referencedDecl"]["name"], "I")
        cur = cursor_of(fn)
        c = word_ctx()
        ev = c.enum_values
        DIGIT, EMPTY = I(ev["DIGIT"]), I(ev["EMPTY"])
        loop_entries = []
        def rec_loop(ex_, st, nd, o):
            loop_entries.append((nd, st.clone()))
            return ex_.havoc_loop(nd, st)
        c.loop = rec_loop
        f, ex, fin, info = region(rel, q, [sw], c)
        P0 = tm.select(tm.sym("H0.mem:P", ("A", "P", "I", "P")), tm.sym("&L_" + cur, "P"), I(0))
        sdv = [x for x in A.walk(fn) if x.get("kind") == "VarDecl" and "defaults" in (x.get("type", {}).get("qualType", ""))]
        sd = tm.sym("&L_" + sdv[0]["name"], "P") if (reader == "SPREAD_defaults" and len(sdv) == 1) else None
        if reader == "SPREAD_defaults" and sd is None:
            raise Undecided("the block defaults object was not found")
        # the text of a SOLUTION_SPREAD column is "<heading> <cell> <unit cell>": for an isotope column the heading itself is word 1
        colstart = None
        if reader == "SPREAD_row":
            cs = [x for x in A.walk(fn) if x.get("kind") == "VarDecl" and any(y.get("kind") == "MemberExpr" and y.get("name") == "string_duplicate" for y in A.walk(x))
                  and not any(z is x for z in A.walk(sw))]
            if len(cs) != 1:
                raise Undecided("the copy of the column text was not found")
            colstart = tm.sym("L_" + cs[0]["name"], "P")
        n = 0
        for s in lives(fin, ("run", "cont", "brk", "ret")):
            k = opt_of(s, optsym)
            if k is None or not (0 <= k < len(names)):
                continue
            nm = names[k]
            spec = table.get(nm)
            if spec is None:
                continue            # description ...: no word-level contract
            tag = "%s.-%s" % (reader, nm)
            base = colstart if (reader == "SPREAD_row" and nm == "isotope") else P0
            hy = list(s.pc)
            # a word of class EMPTY has no first character
            for t in {x for p_ in hy for x in words_in(p_)}:
                hy.append(tm.implies(tm.eq(tm.app("toktype", (t,), "I"), EMPTY), tm.eq(tm.app("char_at", (t, I(0)), "I"), I(0))))
            # ---- what the path stores
            stores = []
            if reader == "SPREAD_defaults":
                for key in s.heap:
                    if key[0] != "f":
                        continue
                    for ix, v in writes(s, key):
                        o = ix[0]
                        if o is sd:
                            stores.append((FIELD2ABS.get(key[1], "?" + key[1]), v))
                        elif "fld:iso(%r)" % sd in repr(o) and not key[1].startswith("#"):
                            stores.append((FIELD2ABS.get("iso." + key[1], "?iso." + key[1]), v))
            else:
                for e in s.events:
                    if short(e) in SETTER2ABS and e.args:
                        stores.append((SETTER2ABS[short(e)], e.args[0]))
            # every cursor read of the path starts from the position the option scanner left (or the start of the column text for an isotope column)
            bases = {chain(e.snap["at"])[0] for e in s.events if short(e) == "copy_token"} | {chain(x.args[1])[0] for e in s.events if short(e) == "sscanf" for x in [e.snap["value"]]
                                                                                          if x.args[1].sort == "P" and not (x.args[1].op == "app" and x.args[1].args[0] == "c_str")}
            okb = all(b is base for b in bases)
            if not okb or (tag, "base") not in handled:
                put(r, "%s.words_are_read_from_the_position_behind_the_option_name#%d" % (tag, n), okb, repr(bases)[:200]); n += 1
            handled[(tag, "base")] = 1
            stored_abs = set()
            for m, v in stores:
                if m not in spec:
                    continue            # members of another option: unit ...each_option_stores_what_it_reads_in_its_own_member / ...change_only_their_default
                kind, k_ = spec[m]
                P, W = pos_terms(base, k_)
                if kind == "num":
                    cands = [tm.app("c_str", (W,), "P"), P]
                    nums = numbers_in(v)
                    if not nums:
                        okc = (tm.isnum(v) and any(cst != "nan" and v.args[0] == cst for cst in CONSTANT_OK.get(m, ()))) or ("nan" in CONSTANT_OK.get(m, ()) and is_nan(v, s))
                        # a stale scratch value (no number of this line at all) is not a value of the line
                        put(r, "%s.%s_without_a_number_is_only_the_neutral_value#%d" % (tag, m, n), bool(okc), repr(v)[:200]); n += 1
                        continue
                    ok = False
                    for X in cands:
                        got = hy + [tm.eq(tm.app("nconv", (X,), "I"), ONE)]
                        if sat(got) and proved(got, tm.eq(v, tm.app("number", (X,), "R"))):
                            ok = True
                    put(r, "%s.%s_is_the_number_of_word_%d#%d" % (tag, m, k_, n), ok, repr(v)[:300]); n += 1
                    if ok:
                        stored_abs.add(m); handled[(tag, m)] = 1
                elif kind == "word":
                    ws = words_in(v)
                    if not ws and v.op == "sym" and v.sort == "P" and any(e.result is v for e in s.events):
                        ws = [w_ for e in s.events if e.result is v for a_ in e.args for w_ in words_in(a_)]
                    ok = bool(ws) and all(w_ is W for w_ in ws)
                    put(r, "%s.%s_is_word_%d#%d" % (tag, m, k_, n), ok, repr(v)[:300]); n += 1
                    if ok:
                        stored_abs.add(m); handled[(tag, m)] = 1
            # ---- the calculate flag of -density
            if "calc" in spec:
                kflag = spec["calc"][1]
                on = [v for m, v in stores if m == "calc"]
                put(r, "%s.calculate_flag_is_only_switched_on#%d" % (tag, n), all(v is tm.TRUE for v in on), repr(on)[:100]); n += 1
                def begins_c(W):
                    ch = tm.app("char_at", (W, I(0)), "I")
                    return tm.or_(tm.eq(ch, I(ord("c"))), tm.eq(ch, I(ord("C"))))
                W1, W2 = pos_terms(base, 1)[1], pos_terms(base, 2)[1]
                if "density" in stored_abs:
                    Wk = pos_terms(base, kflag)[1]
                    goal = begins_c(Wk) if on else tm.not_(begins_c(Wk))
                    valid(r, "%s.with_a_number_calculate_is_on_exactly_when_word_%d_begins_with_c#%d" % (tag, kflag, n), hy, goal); n += 1
                    handled[(tag, "calc:" + ("on" if on else "off"))] = 1
                elif on:
                    valid(r, "%s.without_a_stored_number_calculate_is_on_only_for_a_word_that_begins_with_c#%d" % (tag, n), hy, tm.or_(begins_c(W1), begins_c(W2))); n += 1
        # ---- the name look-up of the isotope defaults: the entry that receives ratio / uncertainty is the one whose name equals word 1
        if reader == "SPREAD_defaults":
            allloops = [x for x in A.walk(fn) if x.get("kind") in ("ForStmt", "WhileStmt", "DoStmt")]
            look = [k_ for k_, lp in enumerate(allloops) if any(y is lp for y in A.walk(sw)) and any(y.get("kind") == "DeclRefExpr" and y.get("referencedDecl", {}).get("name") == "strcmp" for y in A.walk(lp))]
            put(r, "reach.SPREAD_defaults.isotope_name_look_ups", len(look) == 2, "%d" % len(look), kind="vacuity", undecided=True)
            for k_ in look:
                lp = allloops[k_]
                c2 = word_ctx(); c2.functional.add("strcmp")
                f2, ex2, its2, info2 = U.run_loop_isolated(rel, q, k_, ctx=c2)
                iso = tm.app("fld:iso", (sd,), "P")
                ivar = None
                for x in A.walk(lp["inner"][3]):
                    if x.get("kind") == "DeclRefExpr" and x.get("referencedDecl", {}).get("kind") == "VarDecl":
                        ivar = x["referencedDecl"]["name"]
                if ivar is None:
                    raise Undecided("index of the isotope look-up not found")
                iv = tm.sym("iter_" + ivar, "I")
                toks = set()
                for s in lives(its2, ("run", "cont", "brk")):
                    cmp_ = [e for e in U.iter_events(s) if short(e) == "strcmp"]
                    nmi = tm.select(entry_arr(ex2, s, ("f", "name", "P")), tm.add(tm.select(entry_arr(ex2, s, ("f", "#vdata", "P")), iso), iv))
                    okc = len(cmp_) == 1 and {a_ for a_ in cmp_[0].args} == {cmp_[0].args[0], nmi} and any(a_.op == "app" and a_.args[0] == "c_str" for a_ in cmp_[0].args)
                    put(r, "SPREAD_defaults.isotope_look_up%d.compares_the_word_with_the_name_of_default_i#%d" % (k_, n), okc, repr([e.args for e in cmp_])[:200]); n += 1
                    if okc:
                        toks |= {a_.args[1] for a_ in cmp_[0].args if a_.op == "app" and a_.args[0] == "c_str"}
                        hit = tm.eq(cmp_[0].result, I(0))
                        valid(r, "SPREAD_defaults.isotope_look_up%d.%s#%d" % (k_, "stops_only_at_an_equal_name" if s.status == "brk" else "goes_on_past_a_different_name", n), list(s.pc), hit if s.status == "brk" else tm.not_(hit)); n += 1
                # range: from the first default to the last (the index variable is the one the increment names - several locals share its name)
                ivid = next(x["referencedDecl"]["id"] for x in A.walk(lp["inner"][3]) if x.get("kind") == "DeclRefExpr" and x.get("referencedDecl", {}).get("kind") == "VarDecl")
                conds = [s_.pc[0] for s_ in its2 if s_.pc]
                want = tm.lt(iv, tm.select(entry_arr(ex2, its2[0], ("f", "#vsize", "I")), iso))
                put(r, "SPREAD_defaults.isotope_look_up%d.runs_over_all_defaults" % k_, bool(conds) and proved([want], conds[0]) and proved([conds[0]], want), repr(conds[:1])[:200])
                v0 = None
                for s0 in ex2.exec(lp["inner"][0], [info2["entry_state"].clone()]):
                    v0 = s0.locals.get(ivid)
                put(r, "SPREAD_defaults.isotope_look_up%d.starts_at_the_first_default" % k_, isinstance(v0, tm.T) and tm.isnum(v0) and v0.args[0] == 0, repr(v0)[:60])
                # the word compared is word 1 of the option line
                ents = [st for nd, st in loop_entries if nd is lp]
                okw = bool(ents) and len(toks) == 1
                if okw:
                    tsym = toks.pop()
                    did = [d_ for nm_, d_ in info["names"].items() if tsym.op == "sym" and tsym.args[0] == "L_" + nm_]
                    okw = len(did) == 1 and all(st.locals.get(did[0]) is pos_terms(P0, 1)[1] for st in ents)
                put(r, "SPREAD_defaults.isotope_look_up%d.the_word_looked_up_is_word_1_of_the_line" % k_, bool(okw), "%d loop entries" % len(ents))
        # ---- every option of the table that the reader has stores its members on some path
        for nm in names:
            spec = table.get(nm)
            if spec is None:
                continue
            tag = "%s.-%s" % (reader, nm)
            if reader == "SPREAD_defaults" and nm == "press":
                continue            # reachable only as option `pressure` (get_option returns the first entry the word abbreviates); stated in the older unit
            if reader != "SPREAD_defaults" and nm in ("ph", "pe"):
                continue            # parsed as a concentration line by cxxISolutionComp::read (unit C15.ISolutionComp.read...)
            for m in spec:
                if m == "calc":
                    put(r, "%s.calculate_is_switched_on_and_left_off_on_some_path_with_a_number" % tag, (tag, "calc:on") in handled and (tag, "calc:off") in handled,
                        repr(sorted(k_[1] for k_ in handled if k_[0] == tag)))
                else:
                    put(r, "%s.%s_reaches_its_member_on_some_path" % (tag, m), (tag, m) in handled, repr(sorted(k_[1] for k_ in handled if k_[0] == tag)))
    put(r, "reach.readers", len({k_[0].split(".")[0] for k_ in handled}) == 3, repr(sorted({k_[0].split(".")[0] for k_ in handled})), kind="vacuity", undecided=True)
    r.assumptions += ["copy_token(token, &cursor) delivers the next word at the cursor and moves the cursor behind it (word / after / toktype are uninterpreted: any tokeniser); "
                      "sscanf(text, \"%lf\", &x) returns nconv(text) and stores number(text) when that is 1; scanning the rest of the line and scanning its first word give the same number",
                      "s[0] of a std::string is char_at(s, 0); a word of class EMPTY has no first character (char_at = 0)",
                      "check_units / parse_couple normalise their argument in place; string_hsave returns a copy of its argument",
                      "statement contract on the option switch of each reader: get_option / get_option_string leave the cursor behind the option name (not under contract); "
                      "the line loop and the error reports are not executed; the name look-up loops of the isotope defaults are under an iteration contract of their own (the entry found is the one named by word 1)",
                      "-ph / -pe of SOLUTION and of a SPREAD row are concentration lines (cxxISolutionComp::read), not part of this table; "
                      "`-density calc` without a number (accepted by the SPREAD defaults, an input error in SOLUTION) is only required not to switch the flag on for another word"]
    return r


UNITS = [("C15.solution_options.every_option_reads_the_same_word_of_its_line_in_SOLUTION_SPREAD_defaults_and_SPREAD_rows", unit_words)]
