"""C15 (extension 2, second part): after the solution has been read.
 * initial_solutions: every new solution is speciated once, with ITSELF in use, at its own temperature and pressure, and saved under its own number
   (so renumbering or reordering the SOLUTION blocks cannot change a result); the density iteration of per-litre input restores the input unit before
   each pass and feeds convert_units the water fraction kgw/kgs of the last speciation;
 * calc_dens / calc_solution_volume: solution mass and volume are sums over the aqueous species of moles x (the species' own formula weight / molar volume);
   the density is mass over volume, consistent with pure water (rho_0) for no solutes;
 * print_totals / print_species: a printed molality is the moles of the same item divided by the mass of water of the solution (the inverse of
   the water-mass scaling of convert_units)."""
from props.common import *
from props.c01_ext_util import put, valid, eqr, proved, I, lives, loops_of, the_loop, ifs_with_then
from vf.core import FAILED, DISCHARGED, UNDECIDED
from vf.astvc import symex as SX
from fractions import Fraction as Fr

MS = "src/phreeqcpp/mainsubs.cpp"
BS = "src/phreeqcpp/basicsubs.cpp"
PR = "src/phreeqcpp/print.cpp"
ENUMS = ["TRUE", "FALSE", "OK", "ERROR", "STOP", "INITIAL_SOLUTION", "SOLUTION_PHASE_BOUNDARY", "AQ", "HPLUS", "H2O", "EX", "SURF", "MB", "ALK"]
FUN = ("Get_new_def", "Get_n_user", "Get_n_user_end", "Get_description", "c_str", "Get_tc", "Get_patm", "Get_density", "Get_initial_data", "Get_units", "Get_calc_density",
       "Get_solution_ptr", "Get_surface_ptr", "Get_isotopes", "size", "equal")


def short(e):
    return e.name.split("::")[-1].split(".")[-1]


def stores_field(e, name):
    return e.name == "store" and e.args[0].op == "str" and str(e.args[0].args[0]).strip('"') == name


def is_ctx(log=False):
    c = ctx(functional=FUN, enums_from="Phreeqc.h", enums=ENUMS)
    stop_on_error_msg(c)
    c.log_stores = log
    return c


def unit_initial_solutions(twin=False):
    q = "Phreeqc::initial_solutions"
    fn = A.find_function(MS, q)
    r = U.new_unit("C15.initial_solutions.each_new_solution_speciated_with_itself_in_use_and_saved_under_its_own_number", MS, q, fn)
    ko = the_loop(fn, MS, "xsolution_save(", innermost=True, what="loop over the new solutions")
    ki = the_loop(fn, MS, "calc_dens(", innermost=True, what="density iteration")
    f, ex, its, info = U.run_loop_isolated(MS, q, ko, ctx=is_ctx(log=True))
    smap = tm.app("fld:Rxn_solution_map", (THIS,), "P")
    use = tm.app("fld:use", (THIS,), "P")
    nrun = nskip = 0
    for s in lives(its, ("run", "cont")):
        evs = U.iter_events(s)
        hy = list(s.pc)
        nit = [v for v in s.locals.values() if isinstance(v, tm.T) and v.op == "sym" and str(v.args[0]).startswith("iter_") and v.sort == "P"]
        if len(nit) != 1:
            put(r, "iteration.one_iterator", False, repr(nit), undecided=True); continue
        key = tm.select(entry_arr(ex, s, ("m", "I")), tm.app("mnode", (nit[0],), "P"), I(0))
        ent = tm.app("fld:second", (tm.app("mnode", (tm.app("miter", (smap, key), "P"),), "P"),), "P")
        sv = [e for e in evs if short(e) == "xsolution_save"]
        sp = [e for e in evs if short(e) == "Set_solution_ptr"]
        cp = [e for e in evs if short(e) == "Rxn_copies"]
        new = tm.to_bool(tm.app("call:Get_new_def", (ent,), "B"))
        if sv or sp:
            nrun += 1
            valid(r, "run.only_a_solution_marked_new#%d" % nrun, hy, new)
            put(r, "run.the_solution_in_use_is_the_one_numbered_by_the_current_element_of_the_new_set#%d" % nrun, len(sp) == 1 and sp[0].recv is use and sp[0].args[0] is (ent if not twin else smap), repr([e.args for e in sp])[:200], kind="trace")
            nu = tm.app("call:Get_n_user", (ent,), "I")
            put(r, "run.saved_once_under_ITS_own_number#%d" % nrun, len(sv) == 1 and sv[0].args[0] is nu, repr([e.args for e in sv])[:200], kind="trace")
            put(r, "run.copied_over_ITS_own_range_n_user..n_user_end#%d" % nrun, len(cp) == 1 and cp[0].args[0] is smap and cp[0].args[1] is nu and cp[0].args[2] is tm.app("call:Get_n_user_end", (ent,), "I"),
                repr([e.args for e in cp])[:200], kind="trace")
            put(r, "run.use_set_before_the_result_is_saved#%d" % nrun, bool(sp) and bool(sv) and evs.index(sp[0]) < evs.index(sv[0]), "", kind="trace")
            iso = [e for e in evs if e.recv is tm.app("fld:isotopes_x", (THIS,), "P")]
            ok = len(iso) == 1 and (short(iso[0]) == "clear" or (short(iso[0]) == "operator=" and iso[0].args[0] is tm.app("call:Get_isotopes", (ent,), "P")))
            put(r, "run.isotope_data_saved_with_it_are_ITS_own_(or_none)#%d" % nrun, ok and evs.index(iso[0]) < evs.index(sv[0]), repr([(short(e), e.args) for e in iso])[:200], kind="trace")
            di = [e for e in evs if stores_field(e, "density_iterations")]
            last_run = max([evs.index(e) for e in evs if short(e) in ("check_residuals", "sum_species")] or [-1])
            put(r, "run.density_iteration_counter_cleared_afterwards(convert_units_of_the_next_solution_starts_from_the_input_density)#%d" % nrun,
                bool(di) and tm.isnum(di[-1].args[1]) and di[-1].args[1].args[0] == 0 and evs.index(di[-1]) > last_run >= 0, repr([e.args for e in di])[:200])
        else:
            nskip += 1
            valid(r, "skip.only_a_solution_that_is_not_new#%d" % nskip, hy, tm.not_(new))
            put(r, "skip.nothing_put_in_use_or_saved#%d" % nskip, not sp and not sv and not cp, "", kind="frame")
    put(r, "reach.run_and_skip", nrun >= 1 and nskip >= 1, "%d/%d" % (nrun, nskip), kind="vacuity", undecided=True)
    # the states in which the density iteration is entered: counter 0, starting density / unit / initial data of THIS solution
    ent0 = info["inner_entries"].get(ki, [])
    okc = bool(ent0)
    names = {}
    for s0 in ent0:
        di = fld(ex, s0, "density_iterations", "I")
        okc = okc and tm.isnum(di) and di.args[0] == 0
    put(r, "density_iteration.entered_with_the_counter_at_0", okc, "%d entries" % len(ent0))
    check_set_range(r, "new_solutions", ex, info, its)
    # ---- one pass of the density iteration
    f2, ex2, it2, info2 = U.run_loop_isolated(MS, q, ki, ctx=is_ctx(log=True))
    seen = set()
    for s in lives(it2, ("run", "cont", "brk")):
        evs = U.iter_events(s)
        hy = list(s.pc)
        kt = [e for e in evs if short(e) == "k_temp"]
        if not kt:
            put(r, "pass.sets_the_temperature", False, ""); continue
        solr = [e.recv for e in evs if short(e) == "Get_tc"]
        sol = solr[0] if solr else None
        ok = len(kt) == 1 and sol is not None and kt[0].args[0] is tm.app("call:Get_tc", (sol,), "R") and kt[0].args[1] is tm.app("call:Get_patm", (sol,), "R")
        put(r, "pass.constants_at_the_solution's_own_temperature_and_pressure#%d" % len(r.obligations), ok, repr(kt[0].args)[:200], kind="trace")
        names_ev = [short(e) for e in evs]
        order_ok = "prep" in names_ev and "model" in names_ev and "calc_dens" in names_ev and names_ev.index("prep") < names_ev.index("k_temp") < names_ev.index("model") < names_ev.index("calc_dens")
        put(r, "pass.order(prep,k_temp,model,calc_dens)#%d" % len(r.obligations), order_ok, repr(names_ev)[:200], kind="trace")
        # kgw_kgs: kg water per kg solution of the speciation just made
        st_k = [e for e in evs if stores_field(e, "kgw_kgs")]
        cd = [e for e in evs if short(e) == "calc_dens"]
        mw, sm = fld(ex2, s, "mass_water_aq_x", "R"), fld(ex2, s, "solution_mass_x", "R")
        if len(st_k) == 1 and cd:
            eqr(r, "pass.kgw_kgs==mass_of_water/mass_of_solution#%d" % len(r.obligations), hy, st_k[0].args[1], mw / sm if not twin else sm / mw)
            put(r, "pass.kgw_kgs_taken_after_calc_dens_has_refreshed_the_solution_mass#%d" % len(r.obligations), evs.index(cd[0]) < evs.index(st_k[0]), "", kind="trace")
        else:
            put(r, "pass.kgw_kgs_written_once#%d" % len(r.obligations), False, repr(st_k)[:100])
        di = [e for e in evs if stores_field(e, "density_iterations")]
        put(r, "pass.counter_incremented_once#%d" % len(r.obligations), len(di) == 1 and proved(hy, tm.eq(di[0].args[1], fld0(ex2, s, "density_iterations", "I") + I(1))), repr(di)[:200])
        sd = [e for e in evs if short(e) == "Set_density"]
        su = [e for e in evs if short(e) == "Set_units"]
        calc = tm.to_bool(tm.app("call:Get_calc_density", (tm.app("call:Get_initial_data", (sol,), "P"),), "B"))
        if sd:
            valid(r, "pass.density_replaced_only_when_`calculate`_was_asked#%d" % len(r.obligations), hy, calc)
            put(r, "pass.density_becomes_the_calculated_density_of_this_speciation#%d" % len(r.obligations), len(sd) == 1 and sd[0].recv is sol and any(e.result is sd[0].args[0] for e in cd), repr(sd[0].args)[:100])
        else:
            valid(r, "pass.density_kept_when_`calculate`_was_not_asked#%d" % len(r.obligations), hy, tm.not_(calc))
        eqs = [e for e in evs if short(e) == "equal"]
        if s.status == "cont":
            seen.add("again")
            d0 = [v for k, v in s.locals.items() if isinstance(v, tm.T) and v is tm.app("call:Get_density", (sol,), "R")]
            ok = len(su) == 1 and su[0].recv.op == "sym" and su[0].args[0].op == "sym" and len(eqs) == 1 and tm.eq(eqs[0].result, I(0)) in s.pc and bool(d0)
            put(r, "again.input_unit_restored_and_new_density_remembered_before_the_next_pass#%d" % len(r.obligations), ok, repr([e.args for e in su + eqs])[:300])
            if ok:
                names["idata"], names["units"] = str(su[0].recv.args[0])[2:], str(su[0].args[0].args[0])[2:]
            okq = len(eqs) == 1 and eqs[0].args[1] is tm.app("call:Get_density", (sol,), "R") and str(eqs[0].args[0]).startswith("iter_") and eqs[0].args[2].args[0] <= Fr(1, 10**8)
            put(r, "again.only_while_the_density_still_moves(previous_vs_new,tolerance_not_above_the_property's_1e-8)#%d" % len(r.obligations), okq, repr([e.args for e in eqs])[:200])
        elif s.status == "brk":
            seen.add("done")
            if sd:
                put(r, "done.with_`calculate`_only_when_the_density_has_settled#%d" % len(r.obligations), len(eqs) == 1 and tm.not_(tm.eq(eqs[0].result, I(0))) in s.pc, repr(s.pc)[:200])
    put(r, "reach.density_iteration", seen == {"again", "done"}, repr(sorted(seen)), kind="vacuity", undecided=True)
    # what the density iteration restores / compares was taken from THIS solution before the first pass
    if names:
        okn = bool(ent0)
        for s0 in ent0:
            sols = [e.args[0] for e in s0.events if short(e) == "Set_solution_ptr"]
            if not sols:
                okn = False; continue
            ent = sols[-1]
            idv = local(info, s0, names["idata"]); uv = local(info, s0, names["units"])
            okn = okn and idv is tm.app("call:Get_initial_data", (ent,), "P") and uv is tm.app("call:Get_units", (tm.app("call:Get_initial_data", (ent,), "P"),), "S")
        put(r, "density_iteration.restores_the_unit_read_from_THIS_solution_before_the_first_pass", okn, "%r" % (names,))
    else:
        put(r, "density_iteration.restores_the_unit_read_from_THIS_solution_before_the_first_pass", False, "restore statement not found", undecided=True)
    r.assumptions += ["prep() converts the units of use.solution (convert_units: units C15.convert_units.*), model() speciates it, calc_dens() returns the density of that speciation (unit C15.calc_dens...)",
                      "xsolution_save(n): unit C02.xsolution_save...; Utilities::Rxn_copies: unit C14.Rxn_copies; Phreeqc::equal(a, b, eps) compares with tolerance eps",
                      "std::map find gives the entry with that key (a missing entry is an assert in the code); getters of the solution functional",
                      "iteration contracts on the loop over Rxn_new_solution and on the density iteration; error_msg(.., STOP) does not return"]
    return r


def check_set_range(r, label, ex, info, its):
    """iterator loop over a std::set: from begin() to end() of one container, advanced by one"""
    node = info["node"]
    init, cond, inc, body = ex.loop_parts(node)
    v0 = cont = None
    var = None
    for x in A.walk(init) if init else []:
        if x.get("kind") == "VarDecl":
            var = x.get("name"); break
    if var is None:
        put(r, label + ".iterator_found", False, "", undecided=True); return
    for s0 in ex.exec(init, [info["entry_state"].clone()]):
        v0 = local(info, s0, var)
        b = [e for e in s0.events if short(e) == "begin" and e.result is v0]
        cont = b[0].recv if b else None
    ok = False; detail = ""
    if its:
        s = its[0]
        ends = [e for e in s.events if short(e) == "end" and any(e.result in tm.subterms(p) for p in s.pc[:1])]
        ok = cont is not None and len(ends) == 1 and ends[0].recv is cont and s.pc[0].op == "not"
        detail = "start %r of %r, bound %r" % (v0, cont, [e.recv for e in ends])
    put(r, label + ".visited_from_begin()_to_end()_of_the_same_set", ok, detail, kind="establishment")
    t = text_of(MS, inc)
    put(r, label + ".advances_by_one_element", t in (var + "++", "++" + var), t, kind="establishment")


def unit_calc_dens(twin=False):
    """calc_dens: M_T = sum over the aqueous species (types AQ and HPLUS) of moles x the species' OWN formula weight [g], V_solutes = sum of moles x the species'
    OWN molar volume [cm3]; density = mass / volume per kg of water = (1000 + M_T/W) / (1000/rho_0 + V_solutes/W) with W the mass of water, and rho_0 when there
    are no solutes; solution mass [kg] = (M_T + moles of H2O x gfw of H2O)/1000, solution volume [L] = mass / density.  calc_solution_volume returns that
    volume after refreshing it.  (These feed the mol/L <-> mol/kgw conversion: Set_density in the density iteration, kgw_kgs, soln_vol.)"""
    q = "Phreeqc::calc_dens"
    fn = A.find_function(BS, q)
    r = U.new_unit("C15.calc_dens.mass_and_volume_are_sums_over_the_species_own_values_and_density_is_their_ratio", BS, q, fn)
    c = ctx(enums_from="Phreeqc.h", enums=ENUMS + ["vm_tc"])
    ev = c.enum_values
    k = the_loop(fn, BS, "V_solutes", what="species loop (the one that accumulates V_solutes)")
    f, ex, its, info = U.run_loop_isolated(BS, q, k, ctx=c)
    seen = set()
    lp = info["node"]
    acc = None
    for s in lives(its, ("run", "cont")):
        hy = list(s.pc)
        i = induction_sym(info["node"])
        sp = vec_elem(ex, s, "s_x", i)
        ty = fld0(ex, s, "type", "I", sp)
        counted = tm.or_(tm.eq(ty, I(ev["AQ"])), tm.eq(ty, I(ev["HPLUS"] if not twin else ev["H2O"])))
        ws = [(key, ix, v) for key in s.heap for ix, v in writes(s, key)]
        racc = [(nm, v) for nm, v in ((nm, local(info, s, nm)) for nm in info["names"] if isinstance(s.locals.get(info["names"][nm]), tm.T)) if v.sort == "R" and v.op == "+" and any(str(t.args[0]) == "iter_" + nm for t in tm.subterms(v) if t.op == "sym")]
        if ws or racc:
            seen.add("counted")
            valid(r, "species.counted_only_if_aqueous(AQ_or_H+)#%d" % len(r.obligations), hy, counted)
            mol = fld0(ex, s, "moles", "R", sp)
            gfw = fld0(ex, s, "gfw", "R", sp)
            vm = tm.select(entry_arr(ex, s, ("m", "R")), tm.app("fld:logk", (sp,), "P"), I(ev["vm_tc"]))
            okm = len(racc) == 1
            put(r, "species.one_mass_accumulator#%d" % len(r.obligations), okm, repr(racc)[:200])
            if okm:
                acc = racc[0][0]
                eqr(r, "species.mass+=moles*its_own_gfw#%d" % len(r.obligations), hy, racc[0][1], tm.sym("iter_" + acc, "R") + mol * gfw)
            vws = [(key, ix, v) for key, ix, v in ws if key[1] == "V_solutes"]
            put(r, "species.frame_only_the_two_sums_are_written#%d" % len(r.obligations), len(ws) == len(vws) == 1, repr([w[0] for w in ws])[:200], kind="frame")
            if vws:
                eqr(r, "species.volume+=moles*its_own_molar_volume#%d" % len(r.obligations), hy, vws[0][2], fld0(ex, s, "V_solutes", "R") + mol * vm)
        else:
            seen.add("skipped")
            valid(r, "species.skipped_only_if_not_aqueous#%d" % len(r.obligations), hy, tm.not_(counted))
    put(r, "reach.species", seen == {"counted", "skipped"}, repr(sorted(seen)), kind="vacuity", undecided=True)
    ivn = None
    for x in A.walk(lp["inner"][3]) if lp.get("kind") == "ForStmt" else []:
        if x.get("kind") == "DeclRefExpr":
            ivn = x["referencedDecl"]["name"]; break
    if ivn:
        check_loop_range(r, "species", ex, None, info, its, ivn, I(0), lambda v: tm.lt(v, tm.select(entry_arr(ex, its[0], ("f", "#vsize", "I")), tm.app("fld:s_x", (THIS,), "P"))))
    body = A.body_of(fn)["inner"]
    kf = next(i_ for i_, x in enumerate(body) if x is lp)
    # the sums start from zero
    f0, ex0, fin0, info0 = region(BS, q, body[:kf], ctx(enums_from="Phreeqc.h", enums=ENUMS))
    for s in lives(fin0, ("run",)):
        v0 = fld(ex0, s, "V_solutes", "R")
        m0 = local(info0, s, acc) if acc else None
        put(r, "sums.start_from_zero", tm.isnum(v0) and v0.args[0] == 0 and m0 is not None and tm.isnum(m0) and m0.args[0] == 0, "%r %r" % (v0, m0), kind="establishment")
    # after the loop
    f1, ex1, fin1, info1 = region(BS, q, body[kf + 1:], ctx(enums_from="Phreeqc.h", enums=ENUMS))
    M = tm.sym("L_" + acc, "R") if acc else None
    W = lambda s: fld0(ex1, s, "mass_water_aq_x", "R")
    rho0 = lambda s: fld0(ex1, s, "rho_0", "R")
    cs = set()
    for s in lives(fin1, ("ret",)):
        if M is None:
            break
        hy = list(s.pc)
        dx = fld(ex1, s, "density_x", "R")
        V = fld0(ex1, s, "V_solutes", "R")
        h2o = fld0(ex1, s, "s_h2o", "P")
        for h2, solutes in cases(hy, tm.lt(tm.num(0), M)):
            cs.add(solutes)
            if solutes:
                nz = [tm.not_(tm.eq(W(s), tm.num(0))), tm.not_(tm.eq(rho0(s), tm.num(0)))]
                eqr(r, "density[solutes]==(1000+M/W)/(1000/rho_0+V/W)(g_per_kgw_over_cm3_per_kgw)", h2 + nz, dx, (tm.num(1000) + M / W(s)) / (tm.num(1000) / rho0(s) + V / W(s)))
            else:
                eqr(r, "density[no_solutes]==rho_0(pure_water)", h2, dx, rho0(s))
        mass = tm.num(Fr(1, 1000)) * (M + fld0(ex1, s, "moles", "R", h2o) * fld0(ex1, s, "gfw", "R", h2o))
        eqr(r, "solution_mass[kg]==(M+moles_H2O*gfw_H2O)/1000#%d" % len(r.obligations), hy, fld(ex1, s, "solution_mass_x", "R"), mass)
        eqr(r, "solution_volume[L]==solution_mass/density#%d" % len(r.obligations), hy, fld(ex1, s, "solution_volume_x", "R"), mass / dx)
        put(r, "returns_the_density_it_stored#%d" % len(r.obligations), s.ret is dx, repr(s.ret)[:100])
    put(r, "reach.both_density_cases", cs == {True, False}, repr(sorted(cs)), kind="vacuity", undecided=True)
    if M is not None and fin1:
        s = fin1[0]
        form = (tm.num(1000) + M / W(s)) / (tm.num(1000) / rho0(s) + fld0(ex1, s, "V_solutes", "R") / W(s))
        eqr(r, "lemma.formula_tends_to_rho_0_without_solutes(M=0,V=0)", [], tm.substitute(form, {M: tm.num(0), fld0(ex1, s, "V_solutes", "R"): tm.num(0)}), rho0(s), kind="lemma")
    # calc_solution_volume
    q2 = "Phreeqc::calc_solution_volume"
    c2 = ctx(enums_from="Phreeqc.h", enums=ENUMS, pure_all=False)
    f2, ex2, fin2, info2 = U.run_function(BS, q2, ctx=c2)
    for s in lives(fin2, ("ret",)):
        cd = [e for e in s.events if short(e) == "calc_dens"]
        okr = isinstance(s.ret, tm.T) and s.ret.op == "select" and "solution_volume_x:" in repr(s.ret.args[0]) and not repr(s.ret.args[0]).startswith("H0.") and s.ret.args[1][0] is THIS
        put(r, "calc_solution_volume.returns_the_volume_refreshed_by_calc_dens", len(cd) == 1 and okr, repr(s.ret)[:100])
    r.assumptions += ["s->gfw is the formula weight of the species and s->logk[vm_tc] its molar volume at the present T, P, I (set by the model set-up: not under this contract)",
                      "M > 0, W != 0, rho_0 != 0 for the density formula; doubles as reals; iteration contract on the species loop, statement contracts before / after it"]
    return r


SOLCXX = "src/phreeqcpp/Solution.cxx"
ISOLCXX = "src/phreeqcpp/ISolution.cxx"
ISC = "src/phreeqcpp/ISolutionComp.cxx"
SPREAD = "src/phreeqcpp/spread.cpp"
# block default of SOLUTION_SPREAD -> the member of the new solution / its initial data that spread_row_to_solution copies it to (unit C15.spread_row_to_solution.every_row...)
SAME_START = {"temp": ("sol", "tc"), "pressure": ("sol", "patm"), "ph": ("sol", "ph"), "pe": ("sol", "pe"), "density": ("sol", "density"), "water": ("sol", "mass_water"),
              "calc_density": ("idata", "calc_density"), "units": ("idata", "units"), "redox": ("idata", "default_pe")}


def _const_writes(ex, s, obj):
    """{member: constant} written to the fields of obj on this path (numbers as Fractions, strings lower-cased, booleans)"""
    out = {}
    for key in s.heap:
        if key[0] != "f":
            continue
        for ix, v in writes(s, key):
            if ix[0] is obj:
                out[key[1]] = v
    for e in s.events:
        if short(e) in ("operator=", "basic_string", "assign") and e.recv is not None and not isinstance(e.recv, tuple) and e.recv.op == "app" and e.recv.args[0].startswith("fld:") and e.recv.args[1] is obj and e.args:
            out[e.recv.args[0][4:]] = e.args[0]
        if e.name.startswith("ctor") and e.recv is not None and not isinstance(e.recv, tuple) and e.recv.op == "app" and e.recv.args[0].startswith("fld:") and e.recv.args[1] is obj and e.args:
            out[e.recv.args[0][4:]] = e.args[0]
    return out


def _member_inits(fn):
    """{member: constant} of the constructor's member-initialiser list (literal initialisers only)"""
    out = {}
    for x in fn.get("inner", []):
        if x.get("kind") == "CXXCtorInitializer" and x.get("anyInit", {}).get("name"):
            lits = [y for y in A.walk(x) if y.get("kind") in ("FloatingLiteral", "IntegerLiteral", "StringLiteral", "CXXBoolLiteralExpr")]
            if len(lits) == 1:
                y = lits[0]
                if y["kind"] == "StringLiteral":
                    out[x["anyInit"]["name"]] = y["value"].strip('"').lower()
                elif y["kind"] == "CXXBoolLiteralExpr":
                    out[x["anyInit"]["name"]] = bool(y["value"])
                else:
                    out[x["anyInit"]["name"]] = Fr(y["value"])
    return out


def _norm(v, s=None):
    if v is None:
        return None
    if v is tm.TRUE or v is tm.FALSE:
        return v is tm.TRUE
    if tm.isnum(v):
        return Fr(v.args[0])
    for t in tm.subterms(v):
        if t.op == "str":
            return str(t.args[0]).strip('"').lower()
    return repr(v)


def unit_same_start(twin=False):
    """a SOLUTION block and a SOLUTION_SPREAD row that give the same data must describe the same solution: what is NOT given starts from the same values in both -
    temperature 25, pH 7, pe 4, density 1, 1 kg water, 1 atm, no density calculation, mmol/kgw, redox couple pe; a new concentration has no user formula weight (gfw 0:
    convert_units then takes the weight of the element / `as` formula)."""
    r = U.new_unit("C15.defaults.SOLUTION_block_and_SOLUTION_SPREAD_row_start_from_the_same_values", SPREAD, "Phreeqc::read_solution_spread", A.find_function(SPREAD, "Phreeqc::read_solution_spread"))
    c0 = lambda: ctx(enums_from="Phreeqc.h", enums=ENUMS)
    # constructors
    f1, ex1, fin1, _ = U.run_function(SOLCXX, "cxxSolution::cxxSolution", ctx=c0(), find_kw={"param_types": ["PHRQ_io *"]})
    sol = {}
    for s in lives(fin1, ("run", "ret")):
        sol = dict(_member_inits(f1)); sol.update({k_: _norm(v) for k_, v in _const_writes(ex1, s, THIS).items()})
    f2, ex2, fin2, _ = U.run_function(ISOLCXX, "cxxISolution::cxxISolution", ctx=c0(), find_kw={"param_types": ["PHRQ_io *"]})
    idata = {}
    for s in lives(fin2, ("run", "ret")):
        idata = dict(_member_inits(f2)); idata.update({k_: _norm(v) for k_, v in _const_writes(ex2, s, THIS).items()})
    f3, ex3, fin3, _ = U.run_function(ISC, "cxxISolutionComp::cxxISolutionComp", ctx=c0(), find_kw={"param_types": ["PHRQ_io *"]})
    comp = {}
    for s in lives(fin3, ("run", "ret")):
        comp = dict(_member_inits(f3)); comp.update({k_: _norm(v) for k_, v in _const_writes(ex3, s, THIS).items()})
    # the block defaults of SOLUTION_SPREAD
    q = "Phreeqc::read_solution_spread"
    fn = A.find_function(SPREAD, q)
    body = A.body_of(fn)["inner"]
    kf = next(i_ for i_, x in enumerate(body) if x.get("kind") == "ForStmt" and "get_option" in text_of(SPREAD, x))
    sdv = [x for x in A.walk(fn) if x.get("kind") == "VarDecl" and "defaults" in (x.get("type", {}).get("qualType", ""))]
    if len(sdv) != 1:
        raise Undecided("the block defaults object was not found")
    c = c0(); c.record_types.update({"CParser", "defaults", "class defaults"})
    c.functional.add("string_hsave")
    first = next(i_ for i_, x in enumerate(body) if x.get("kind") != "DeclStmt")
    k1 = next(i_ for i_, x in enumerate(body) if x.get("kind") == "ForStmt")      # (the loop that copies the isotope defaults comes after the scalar defaults)
    f4, ex4, fin4, info4 = region(SPREAD, q, body[first:k1], c)
    sd = tm.sym("&L_" + sdv[0]["name"], "P")
    blk = {}
    try:
        f5, ex5, fin5, _ = U.run_function(SPREAD, "defaults::defaults", ctx=c0(), find_kw={"nparams": 0})
        for s in lives(fin5, ("run", "ret")):
            blk = dict(_member_inits(f5)); blk.update({k_: _norm(v) for k_, v in _const_writes(ex5, s, THIS).items()})
    except Undecided:
        blk = {}
    for s in lives(fin4, ("run",)):
        blk.update({k_: _norm(v) for k_, v in _const_writes(ex4, s, sd).items()})
    want = {"temp": Fr(25), "pressure": Fr(1), "ph": Fr(7), "pe": Fr(4), "density": Fr(1), "water": Fr(1), "calc_density": False, "units": "mmol/kgw", "redox": "pe"}
    if twin:
        want["pe"] = Fr(7)
    n = 0
    for member, (where, fld_) in sorted(SAME_START.items()):
        a = blk.get(member)
        b = (sol if where == "sol" else idata).get(fld_)
        n += a is not None and b is not None
        put(r, "%s.block_default_of_SOLUTION_SPREAD==%s_of_a_new_%s" % (member, fld_, "cxxSolution" if where == "sol" else "cxxISolution"), a is not None and a == b, "%r vs %r" % (a, b), kind="pairing")
        put(r, "%s.is_the_documented_default(%s)" % (member, want[member]), a == want[member] and b == want[member], "%r / %r" % (a, b))
    put(r, "new_concentration.no_user_formula_weight_and_no_amount(gfw==0,input_conc==0)", comp.get("gfw") == 0 and comp.get("input_conc") == 0, repr(comp)[:200])
    put(r, "reach.defaults", n >= 8, "%d of %d" % (n, len(SAME_START)), kind="vacuity", undecided=True)
    r.assumptions += ["unit strings are compared without regard to letter case (`mMol/kgw` / `mmol/kgw`: check_units / convert_units read the first letter and the `/kgw` part only for per-kg-water units)",
                      "string_hsave returns its argument's text; constructors executed from an arbitrary state: the constants are what the member initialisers / assignments store"]
    return r


PREP = "src/phreeqcpp/prep.cpp"


def unit_setup_solution(twin=False):
    """setup_solution, one total of the solution in use: the unknown created for it carries ITS OWN amount and name, and the adjustments asked for on ITS OWN
    concentration line - the component looked up under the same name in the initial data of the same solution: `charge` makes it the charge-balance unknown, a phase
    name makes it a phase boundary with that phase and that line's saturation index, its redox couple rewrites its master reactions.  Nothing is taken from another
    line or another solution, so the order of the lines and the numbering of the solutions cannot change which element is adjusted."""
    from props.c15_ext2 import reader_ctx
    q = "Phreeqc::setup_solution"
    fn = A.find_function(PREP, q)
    r = U.new_unit("C15.setup_solution.each_total_is_adjusted_by_its_own_concentration_line_of_the_solution_in_use", PREP, q, fn)
    k = the_loop(fn, PREP, "SOLUTION_PHASE_BOUNDARY", what="loop over the totals (the one that creates phase-boundary unknowns)")
    c = reader_ctx(("Get_initial_data", "Get_comps", "Get_equation_name", "Get_phase_si", "Get_pe_reaction", "master_bsearch", "phase_bsearch", "strstr", "strcmp", "string_hsave",
                    "Get_totals", "Get_cb", "size", "c_str", "get_list_master_ptrs", "Get_solution_ptr"))
    c.stl.map_like.add("cxxNameDouble")
    c.enum_values.update(A.enum_values_compiled("Phreeqc.h", ["MB", "ALK", "CB", "SOLUTION_PHASE_BOUNDARY", "AQ"]))
    ev = c.enum_values
    f, ex, its, info = U.run_loop_isolated(PREP, q, k, ctx=c)
    bad = {}; cnt = {}
    def chk(name, ok, detail=""):
        cnt[name] = cnt.get(name, 0) + 1
        if not ok:
            bad.setdefault(name, []).append(detail)
    solp = None
    for s in lives(its, ("run", "cont")):
        if any(p_.op == "==" and p_.args[0].op == "app" and str(p_.args[0].args[0]) == "fld:second" and tm.isnum(p_.args[1]) for p_ in s.pc):
            continue            # the address of a map entry is not null
        evs = U.iter_events(s)
        itv = [iterator_sym(info["node"])]
        node = tm.app("mnode", (itv[0],), "P")
        name = tm.select(entry_arr(ex, s, ("f", "first", "S")), node)
        amount_srcs = [t for k_ in s.heap for ix, v in writes(s, k_) if k_[1] == "moles" for t in [v]]
        users = [e for e in evs if short(e) in ("Get_equation_name", "Get_phase_si", "Get_pe_reaction")]
        if any(tm.isnum(e.recv) for e in users):
            continue            # engine artefact: `comp_ptr && comp_ptr->...` explored with the null pointer of a solution without initial data
        comps = {e.recv for e in users}
        if users:
            comp = users[0].recv
            gi = [e for e in evs if short(e) == "Get_initial_data"]
            sp = gi[0].recv if gi else None
            solp = solp or sp
            want = tm.app("fld:second", (tm.app("mnode", (tm.app("miter", (tm.app("call:Get_comps", (tm.app("call:Get_initial_data", (sp,), "P"),), "P"), tm.app("string_of", (tm.app("c_str", (name,), "P"),), "S")), "P"),), "P"),), "P") if sp is not None else None
            chk("component.is_the_line_with_the_SAME_name_in_the_initial_data_of_the_solution_in_use", len(comps) == 1 and comp is want and sp is not None and sp.op == "sym", "%r" % (comp,))
        else:
            comp = None
        for key in s.heap:
            for ix, v in writes(s, key):
                if key[1] == "si":
                    chk("phase_boundary.target_SI_is_the_one_on_its_own_line", comp is not None and v is tm.app("call:Get_phase_si", (comp,), "R" if not twin else "I"), repr(v)[:150])
                if key[1] == "phase":
                    chk("phase_boundary.phase_is_looked_up_by_the_name_on_its_own_line", comp is not None and v.op == "app" and v.args[0] == "call:phase_bsearch" and tm.app("call:Get_equation_name", (comp,), "P") in tm.subterms(v), repr(v)[:150])
                if key[1] == "moles":
                    okm = (v.op == "select" and ".second:R" in repr(v.args[0]) and v.args[1][0] is node) or (v.op == "app" and v.args[0] == "call:Get_cb")
                    chk("unknown.amount_is_the_total's_own_amount(or_the_charge_imbalance_for_pH)", okm, repr(v)[:150])
                if key[1] == "charge_balance_unknown":
                    pos = [p_ for p_ in s.pc if '"charge")' in repr(p_)]
                    chk("charge.only_the_line_that_says_`charge`_becomes_the_charge_balance_unknown", comp is not None and len(pos) == 1 and pos[0].op == "not" and pos[0].args[0].op == "==", repr(pos)[:150])
                if key[1] == "type" and tm.isnum(v) and int(v.args[0]) == ev["SOLUTION_PHASE_BOUNDARY"]:
                    neg = [p_ for p_ in s.pc if '"charge")' in repr(p_)]
                    chk("phase_boundary.only_for_a_line_that_names_something_else_than_`charge`", comp is not None and len(neg) == 1 and neg[0].op == "==", repr(neg)[:150])
        mr = [e for e in evs if short(e) == "setup_master_rxn"]
        for e in mr:
            if comp is not None:
                chk("redox.master_reactions_rewritten_with_the_couple_of_its_own_line", tm.app("call:Get_pe_reaction", (comp,), "S") in tm.subterms(e.args[1]), repr(e.args[1])[:150])
        hs = [e for e in evs if short(e) == "string_hsave"]
        for e in hs:
            chk("unknown.described_by_the_total's_own_name", name in tm.subterms(e.args[0]), repr(e.args[0])[:100])
    for nm_ in sorted(cnt):
        b = bad.get(nm_, [])
        put(r, "%s[%d paths]" % (nm_, cnt[nm_]), not b, "%d failing, e.g. %s" % (len(b), b[:2]))
    need = {"component.is_the_line_with_the_SAME_name_in_the_initial_data_of_the_solution_in_use", "phase_boundary.target_SI_is_the_one_on_its_own_line", "phase_boundary.phase_is_looked_up_by_the_name_on_its_own_line",
            "charge.only_the_line_that_says_`charge`_becomes_the_charge_balance_unknown", "redox.master_reactions_rewritten_with_the_couple_of_its_own_line", "unknown.amount_is_the_total's_own_amount(or_the_charge_imbalance_for_pH)"}
    for nm_ in sorted(need):
        put(r, "handled." + nm_.split(".")[0] + "." + nm_.split(".")[1][:40], nm_ in cnt, "no path does this")
    put(r, "reach.cases", need <= set(cnt), repr(sorted(need - set(cnt))), kind="vacuity", undecided=True)
    # the solution whose lines are consulted is the one in use
    body = A.body_of(fn)["inner"]
    lp = info["node"]
    top = next((i_ for i_, x in enumerate(body) if x is lp or any(y is lp for y in A.walk(x))), None)
    first = next(i_ for i_, x in enumerate(body) if x.get("kind") != "DeclStmt")
    firstloop = next(i_ for i_, x in enumerate(body) if any(y.get("kind") in ("ForStmt", "WhileStmt") for y in A.walk(x)))
    f0, ex0, fin0, info0 = region(PREP, q, body[first:min(top, firstloop)], c)
    okp = bool(fin0) and solp is not None
    for s in lives(fin0, ("run",)):
        nm_ = str(solp.args[0])[2:]
        okp = okp and nm_ in info0["names"] and local(info0, s, nm_) is tm.app("call:Get_solution_ptr", (tm.app("fld:use", (THIS,), "P"),), "P")
    put(r, "solution.whose_lines_are_consulted_is_the_solution_in_use", okp, repr(solp), kind="establishment")
    from props.c15_ext2 import check_iterator_range
    check_iterator_range(r, "totals", ex, info, its, PREP, fn=fn)
    r.assumptions += ["std::map find(name) gives the entry with that name (the totals were made from these very lines by convert_units, so the entry exists); getters functional",
                      "copy_token / str_tolower as in unit C15.read_solution.each_option...; phase_bsearch(name) finds the phase of that name",
                      "the address of a map entry is never null (paths that assume it are dropped)", "iteration contract on the loop over the totals; the special cases after the loop (alkalinity with carbon, mass of water ...) are not under this contract"]
    return r


def iterator_sym(node):
    """iter_<name> of the iterator the for statement advances"""
    if node.get("kind") == "ForStmt" and node["inner"][3]:
        for x in A.walk(node["inner"][3]):
            if x.get("kind") == "DeclRefExpr" and x.get("referencedDecl", {}).get("kind") == "VarDecl":
                return tm.sym("iter_" + x["referencedDecl"]["name"], "P")
    raise Undecided("iterator of the loop not found")


def _fields(rel, cls):
    for d in A.dump(rel, cls):
        if d.get("kind") == "CXXRecordDecl" and d.get("completeDefinition") and d.get("name") == cls:
            return [(x.get("name"), x["type"].get("desugaredQualType") or x["type"]["qualType"]) for x in d.get("inner", []) if x.get("kind") == "FieldDecl"], \
                   [b.get("type", {}).get("qualType") for b in d.get("bases", [])]
    raise Undecided("class %s not found in the AST of %s" % (cls, rel))


def unit_solution_assign(twin=False):
    """cxxSolution::operator= : storing a block (Rxn_solution_map[n] = temp_solution), copying it to a range of numbers, USE / SAVE copies - every copy IS the
    solution: each data member of the class (and of its base cxxNumKeyword) is taken from the SAME member of the right-hand side, and the initial data
    (units, concentration lines) are deep-copied when present.  (A member forgotten here would make `SOLUTION 1-3` differ from three blocks.)"""
    q = "cxxSolution::operator="
    fn = A.find_function(SOLCXX, q)
    r = U.new_unit("C15.Solution.operator=.every_member_is_copied_from_the_same_member", SOLCXX, q, fn)
    own, bases = _fields(SOLCXX, "cxxSolution")
    fields = list(own)
    for b in bases:
        try:
            fields += _fields(SOLCXX, b)[0]
        except Undecided:
            pass
    f, ex, fin, info = U.run_function(SOLCXX, q, ctx=ctx())
    rhs = tm.sym("P0_" + [x for x in fn.get("inner", []) if x.get("kind") == "ParmVarDecl"][0]["name"], "P")
    n = 0; cases_ = set()
    for s in lives(fin, ("ret",)):
        if tm.eq(THIS, rhs) in s.pc:
            put(r, "self_assignment.changes_nothing", not [1 for k_ in s.heap for _ in writes(s, k_)] and not s.events, "", kind="frame"); continue
        n += 1
        w = {}
        for key in s.heap:
            for ix, v in writes(s, key):
                if key[0] == "f" and ix[0] is THIS:
                    w[key[1]] = v
        oe = {e.recv.args[0][4:]: e for e in s.events if short(e) == "operator=" and e.recv is not None and not isinstance(e.recv, tuple) and e.recv.op == "app" and e.recv.args[0].startswith("fld:") and e.recv.args[1] is THIS}
        bad = []
        for nm_, ty in fields:
            if nm_ == "initial_data":
                continue
            src_nm = nm_ if not (twin and nm_ == "density") else "viscosity"
            if nm_ in w:
                v = w[nm_]
                ok = v.op == "select" and (".%s:" % src_nm) in repr(v.args[0]) and v.args[1][0] is rhs
            elif nm_ in oe:
                a = oe[nm_].args[0]
                ok = a is tm.app("fld:" + src_nm, (rhs,), "P") or (a.op == "select" and (".%s:" % src_nm) in repr(a.args[0]) and a.args[1][0] is rhs)
            else:
                ok = False
            if not ok:
                bad.append(nm_)
        put(r, "copy#%d.each_of_the_%d_data_members_comes_from_the_same_member_of_the_right-hand_side" % (n, len(fields) - 1), not bad, "not copied (or from another member): %r" % bad)
        rid = tm.select(entry_arr(ex, s, ("f", "initial_data", "P")), rhs)
        news = [e for e in s.events if e.name.startswith("new cxxISolution")]
        has = tm.not_(tm.eq(rid, tm.NULL))
        for hy, present in cases(list(s.pc), has):
            cases_.add(present)
            if present:
                ok = len(news) == 1 and w.get("initial_data") is news[0].result and any(rid in tm.subterms(a) for a in news[0].args)
                put(r, "copy#%d.initial_data_deep-copied_from_the_right-hand_side" % n, ok, repr(w.get("initial_data")))
            else:
                put(r, "copy#%d.no_initial_data_when_the_right-hand_side_has_none" % n, tm.isnum(w.get("initial_data", tm.TRUE)) and not news, repr(w.get("initial_data")))
    put(r, "reach.copies", n >= 2 and cases_ == {True, False}, "%d %r" % (n, sorted(cases_)), kind="vacuity", undecided=True)
    put(r, "members.listed_from_the_class_definition", len(fields) >= 25, "%d" % len(fields), kind="vacuity", undecided=True)
    r.assumptions += ["the member list is read from the class definition in the AST (cxxSolution and its base cxxNumKeyword; PHRQ_base::io is copied too but not demanded)",
                      "assignment of the container / string members copies them (STL); new cxxISolution(*p) copies *p (compiler-generated copy of cxxISolution)"]
    return r


SETTERS = [("src/phreeqcpp/model.cpp", "Phreeqc::set"), ("src/phreeqcpp/pitzer.cpp", "Phreeqc::set_pz"), ("src/phreeqcpp/sit.cpp", "Phreeqc::set_sit")]


def unit_set(twin=False):
    """set / set_pz / set_sit (the three activity models): the calculation starts from the state of the solution IN USE - temperature, pressure, potential, mass of water,
    ionic strength, pH, pe and water activity are read from that one solution, each into the model variable of the same meaning; the moles of water are the
    mass of water over the formula weight of water and the moles of H+ its molality times the mass of water.  The three functions do the same."""
    fn0 = A.find_function(SETTERS[0][0], SETTERS[0][1])
    r = U.new_unit("C15.set.model_starts_from_the_state_of_the_solution_in_use(set,set_pz,set_sit)", SETTERS[0][0], "Phreeqc::set / set_pz / set_sit", fn0)
    n = 0
    for rel, q in SETTERS:
        tag = q.split("::")[-1]
        c = ctx(functional=("Get_solution_ptr", "Get_tc", "Get_patm", "Get_potV", "Get_mass_water", "Get_mu", "Get_ah2o", "Get_ph", "Get_pe"), enums_from="Phreeqc.h", enums=ENUMS)
        f, ex, fin, info = U.run_function(rel, q, ctx=c, default="havoc")
        sp = tm.app("call:Get_solution_ptr", (tm.app("fld:use", (THIS,), "P"),), "P")
        g = lambda nm: tm.app("call:Get_" + nm, (sp,), "R")
        done = 0
        for s in lives(fin, ("ret",)):
            w = {}
            for key in s.heap:
                for ix, v in writes(s, key):
                    w[(key[1], repr(ix[0]))] = v
            tc = w.get(("tc_x", "this"))
            if tc is None:
                continue            # the hand-over to set_pz / set_sit
            done += 1
            hy = list(s.pc)
            want = {"tc_x": g("tc"), "patm_x": g("patm"), "potV_x": g("potV"), "mass_water_aq_x": g("mass_water" if not twin else "density"), "mu_x": g("mu")}
            for nm_, t in sorted(want.items()):
                put(r, "%s.%s_is_read_from_the_solution_in_use#%d" % (tag, nm_, done), w.get((nm_, "this")) is t, repr(w.get((nm_, "this")))[:120])
            tk = w.get(("tk_x", "this"))
            eqr(r, "%s.tk_x==tc+273.15#%d" % (tag, done), hy, tk, g("tc") + tm.num(Fr("273.15"))) if tk is not None else put(r, "%s.tk_x_written#%d" % (tag, done), False, "")
            h2o, hp, em = (repr(tm.select(entry_arr(ex, s, ("f", nm_, "P")), THIS)) for nm_ in ("s_h2o", "s_hplus", "s_eminus"))
            # entry_arr names may carry a later heap prefix: match by member name
            def member_of(objname, fld_):
                for (f_, o), v in w.items():
                    if f_ == fld_ and (".%s:P" % objname) in o and o.endswith("(this,))"):
                        return v
                return None
            mw = g("mass_water")
            gw = tm.select(entry_arr(ex, s, ("f", "gfw_water", "R")), THIS)
            v = member_of("s_h2o", "moles")
            ok = v is not None and v.op == "/" and v.args[0] is mw and "gfw_water" in repr(v.args[1])
            put(r, "%s.moles_of_water==mass_of_water/gfw_of_water#%d" % (tag, done), ok, repr(v)[:120])
            v = member_of("s_hplus", "la")
            eqr(r, "%s.log_activity_of_H+==-pH_of_the_solution#%d" % (tag, done), hy, v, tm.neg(g("ph"))) if v is not None else put(r, "%s.H+_activity_written#%d" % (tag, done), False, "")
            v = member_of("s_eminus", "la")
            eqr(r, "%s.log_activity_of_e-==-pe_of_the_solution#%d" % (tag, done), hy, v, tm.neg(g("pe"))) if v is not None else put(r, "%s.e-_activity_written#%d" % (tag, done), False, "")
            v = member_of("s_hplus", "moles")
            ok = v is not None and v.op == "*" and any(a is mw for a in v.args) and "Get_ph" in repr(v)
            put(r, "%s.moles_of_H+==molality_from_pH*mass_of_water#%d" % (tag, done), ok, repr(v)[:160])
            v = member_of("s_h2o", "la")
            ok = v is not None and v.op == "app" and v.args[0] == "log10" and v.args[1] is g("ah2o")
            put(r, "%s.log_activity_of_water_from_the_solution#%d" % (tag, done), ok, repr(v)[:120])
        n += done > 0
        put(r, "reach.%s" % tag, done >= 1, "%d" % done, kind="vacuity", undecided=True)
    put(r, "reach.three_models", n == 3, "%d" % n, kind="vacuity", undecided=True)
    r.assumptions += ["use.Get_solution_ptr() is the solution put in use by initial_solutions / the reaction step (units C15.initial_solutions..., C14.*); getters functional (pairing with the setters: unit C15.accessors...)",
                      "the guesses made afterwards (initial_guesses / revise_guesses) only choose the starting point of the iteration and are not under this contract; exp / log10 uninterpreted"]
    return r


def induction_sym(node):
    """iter_<name> of the variable the for statement advances"""
    if node.get("kind") == "ForStmt" and node["inner"][3]:
        for x in A.walk(node["inner"][3]):
            if x.get("kind") == "DeclRefExpr":
                return tm.sym("iter_" + x["referencedDecl"]["name"], "I")
    raise Undecided("induction variable of the loop not found")


def unit_print_molalities(twin=False):
    """print_totals / print_species: every printed molality is the moles of THE SAME item divided by the mass of water of the solution (mass_water_aq_x) - the
    inverse of the water-mass scaling convert_units applies - so that scaling `-water` and all amounts by one factor leaves the printed molalities unchanged and
    scales the printed moles; the summary lines `(eq/kg)` / `(mol/kg)` divide the matching total by the same mass of water."""
    q = "Phreeqc::print_totals"
    fn = A.find_function(PR, q)
    r = U.new_unit("C15.print_totals_print_species.molality_is_moles_of_the_same_item_over_the_mass_of_water", PR, q, fn)
    c = ctx(enums_from="Phreeqc.h", enums=ENUMS)
    k = the_loop(fn, PR, "%12.3e%12.3e", what="loop over the unknowns")
    f, ex, its, info = U.run_loop_isolated(PR, q, k, ctx=c)
    n = 0
    for s in lives(its, ("run", "cont")):
        W = fld0(ex, s, "mass_water_aq_x", "R")
        iv = [induction_sym(info["node"])]
        xi = vec_elem(ex, s, "x", iv[0])
        for e in U.iter_events(s):
            if short(e) != "sformatf" or "%12.3e%12.3e" not in repr(e.args[0]):
                continue
            n += 1
            mol, moles = e.args[-2], e.args[-1]
            own = moles in (fld0(ex, s, "sum", "R", xi), fld0(ex, s, "f", "R", xi))
            put(r, "totals.row_%d.moles_column_is_the_unknown's_own_total" % n, own, repr(moles)[:150])
            eqr(r, "totals.row_%d.molality==moles/mass_of_water" % n, list(s.pc) + [tm.not_(tm.eq(W, tm.num(0)))], mol, moles / W if not (twin and n == 1) else moles)
            lab = e.args[1]
            oklab = lab is fld0(ex, s, "description", "P", xi) or (lab.op == "str" and moles is fld0(ex, s, "f", "R", xi))
            put(r, "totals.row_%d.label_is_the_same_unknown's_name" % n, oklab, repr(lab)[:100], kind="pairing")
    put(r, "reach.totals_rows", n >= 4, "%d" % n, kind="vacuity", undecided=True)
    # summary lines after the loop
    body = A.body_of(fn)["inner"]
    lp = info["node"]
    kf = next(i_ for i_, x in enumerate(body) if x is lp)
    want = {"Total alkalinity (eq/kg)": "total_alkalinity", "Total carbon (mol/kg)": "total_carbon", "Total CO2 (mol/kg)": "total_co2"}
    got = {}
    for st in body[kf + 1:]:
        txt = text_of(PR, st)
        for label, member in want.items():
            if label in txt and st.get("kind") == "IfStmt":
                f1, ex1, fin1, info1 = region(PR, q, [st], ctx(enums_from="Phreeqc.h", enums=ENUMS))
                for s in lives(fin1, ("run",)):
                    for e in s.events:
                        if short(e) == "sformatf" and label in repr(e.args):
                            W = fld0(ex1, s, "mass_water_aq_x", "R")
                            got[label] = 1
                            eqr(r, "summary.%s==%s/mass_of_water" % (label.replace(" ", "_"), member), list(s.pc) + [tm.not_(tm.eq(W, tm.num(0)))], e.args[-1], fld0(ex1, s, member, "R") / W)
    put(r, "reach.summary_lines", set(got) == set(want), repr(sorted(got)), kind="vacuity", undecided=True)
    # print_species
    q2 = "Phreeqc::print_species"
    fn2 = A.find_function(PR, q2)
    k2 = the_loop(fn2, PR, "mass_water_aq_x", what="loop over the species list")
    f2, ex2, it2, info2 = U.run_loop_isolated(PR, q2, k2, ctx=ctx(enums_from="Phreeqc.h", enums=ENUMS + ["vm_tc"]))
    ns = nt = nw = 0
    for s in lives(it2, ("run", "cont")):
        W = fld0(ex2, s, "mass_water_aq_x", "R")
        nz = [tm.not_(tm.eq(W, tm.num(0)))]
        iv = [induction_sym(info2["node"])]
        data = tm.select(entry_arr(ex2, s, ("f", "#vdata", "P")), tm.app("fld:species_list", (THIS,), "P"))
        elem = tm.add(data, iv[0]) if not (tm.isnum(iv[0]) and iv[0].args[0] == 0) else data
        for e in U.iter_events(s):
            if short(e) != "sformatf":
                continue
            fmt = repr(e.args[0])
            if "%-11s%12.3e" in fmt and nt < 4:
                nt += 1
                tot = [t for t in tm.subterms(e.args[2]) if t.op == "select" and ".total:" in repr(t.args[0])]
                ok = len(tot) == 1
                put(r, "species.element_line_%d.reads_one_master_total" % nt, ok, repr(e.args[2])[:150])
                if ok:
                    eqr(r, "species.element_line_%d.molality==master_total/mass_of_water" % nt, list(s.pc) + nz, e.args[2], tot[0] / W)
                    nm_of = repr(e.args[1]); own = repr(tot[0].args[1][0])
                    put(r, "species.element_line_%d.name_and_total_of_the_same_master_species" % nt, ("elt:P, (%s" % own) in nm_of or own in nm_of, "%s / %s" % (nm_of[:80], own[:80]), kind="pairing")
            if "%-13s%12.3e%12.3e" in fmt and ns < 4:
                ns += 1
                sp = [t for t in tm.subterms(e.args[2]) if t.op == "select" and ".moles:" in repr(t.args[0])]
                ok = len(sp) == 1
                put(r, "species.line_%d.reads_one_species_amount" % ns, ok, repr(e.args[2])[:150])
                if ok:
                    eqr(r, "species.line_%d.molality==moles_of_the_species/mass_of_water" % ns, list(s.pc) + nz, e.args[2], sp[0] / W)
                    put(r, "species.line_%d.name_and_amount_of_the_same_species" % ns, repr(sp[0].args[1][0]) in repr(e.args[1]), "%s / %s" % (repr(e.args[1])[:80], repr(sp[0].args[1][0])[:80]), kind="pairing")
                lm = e.args[4]
                if "log10" in repr(lm) and nw < 2:
                    nw += 1
                    h2o = fld0(ex2, s, "s_h2o", "P")
                    eqr(r, "species.water_line_%d.log_molality==log10(moles_of_water/mass_of_water)" % nw, list(s.pc) + nz, lm, tm.app("log10", (fld0(ex2, s, "moles", "R", h2o) / W,), "R"))
    put(r, "reach.species_lines", ns >= 2 and nt >= 1 and nw >= 1, "%d/%d/%d" % (ns, nt, nw), kind="vacuity", undecided=True)
    r.assumptions += ["sformatf(format, args...) renders its arguments in order (printf rendering is not under contract); x[i]->sum / f are the mole totals computed by the model (C01/C02 units)",
                      "mass_water_aq_x != 0; doubles as reals; iteration contracts on the two print loops, statement contracts on the three summary lines"]
    return r


UNITS = [("C15.set.model_starts_from_the_state_of_the_solution_in_use(set,set_pz,set_sit)", unit_set),
         ("C15.Solution.operator=.every_member_is_copied_from_the_same_member", unit_solution_assign),
         ("C15.setup_solution.each_total_is_adjusted_by_its_own_concentration_line_of_the_solution_in_use", unit_setup_solution),
         ("C15.defaults.SOLUTION_block_and_SOLUTION_SPREAD_row_start_from_the_same_values", unit_same_start),
         ("C15.print_totals_print_species.molality_is_moles_of_the_same_item_over_the_mass_of_water", unit_print_molalities),
         ("C15.calc_dens.mass_and_volume_are_sums_over_the_species_own_values_and_density_is_their_ratio", unit_calc_dens),
         ("C15.initial_solutions.each_new_solution_speciated_with_itself_in_use_and_saved_under_its_own_number", unit_initial_solutions)]
