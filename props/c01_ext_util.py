"""helpers shared by the *_ext modules of C01/C02/C03 (helper-written units)"""
from props.common import *
from vf import core
from vf.core import FAILED, DISCHARGED, UNDECIDED, Undecided


def drop_head(qual, ordinal):
    """the generic 'loop head is a full traversal' obligation does not fit a loop that deliberately starts at token 1; the unit that
    calls this states the head it expects as its own obligation"""
    hs = getattr(core.PENDING, "heads", None)
    if hs:
        hs[:] = [h for h in hs if not (h["function"] == qual and h["ordinal"] == ordinal)]


def proved(hyps, goal):
    return B.z3_prove(list(hyps), goal)[0] == "proved"


def refuted(hyps, goal):
    return B.z3_prove(list(hyps), goal)[0] == "refuted"


def sat(hyps):
    return B.z3_sat(list(hyps)) != "unsat"


def put(r, name, ok, detail="", kind="post", backend="symex", undecided=False):
    r.add(name, DISCHARGED if ok else (UNDECIDED if undecided else FAILED), backend, 0, detail[:400] if isinstance(detail, str) else repr(detail)[:400], kind=kind)
    return ok


def valid(r, name, hyps, goal, kind="post", detail=""):
    return U.discharge_valid(r, name, list(hyps), goal, kind=kind, detail_ok=detail)


def eqr(r, name, hyps, a, b, kind="post"):
    return U.discharge_eq_real(r, name, list(hyps), a, b, kind=kind)


def events(s, short, it=True):
    evs = U.iter_events(s) if it else s.events
    return [e for e in evs if e.name.split("::")[-1] == short]


def I(n):
    return tm.num(n, "I")


NULLP = tm.num(0, "P")


def isnull(p):
    return tm.eq(p, NULLP)


def nonnull(p):
    return tm.not_(tm.eq(p, NULLP))


def loops_of(fn):
    return [x for x in A.walk(fn) if x.get("kind") in ("ForStmt", "WhileStmt", "DoStmt")]


def run_iter(rel, q, ordinal, c=None, **kw):
    return U.run_loop_isolated(rel, q, ordinal, ctx=c or ctx(), **kw)


def lives(states, statuses=("run", "cont", "brk", "ret")):
    return live(states, statuses)


def rec_addr(t):
    """address of a record object passed by reference.  The engine shows `obj->member` (a member record) as select(H.member:I, (obj,)) and
    `*ptr` as select(H.mem:I, (ptr, 0)); both are normalised to the address term (fld:member(obj) resp. ptr) so that two ways of naming the
    same object compare equal."""
    if t is None or isinstance(t, tuple) or t.op != "select":
        return t
    arr = t.args[0]
    base = arr
    while base.op == "store":
        base = base.args[0]
    if base.op != "sym":
        return t
    nm = str(base.args[0])
    idx = t.args[1:] if len(t.args) > 2 else t.args[1]
    if isinstance(idx, tuple) and len(idx) == 2 and ".mem:" in nm:
        return idx[0]
    if isinstance(idx, tuple) and len(idx) == 1 and "." in nm and ":" in nm:
        f = nm.split(".", 1)[1].split(":")[0]
        return tm.app("fld:" + f, (idx[0],), "P")
    return t


# ---- entry-state readers that also work when a component is first read inside the iteration after an earlier loop of the same function
# (or an inner loop) was havocked: component symbols then carry a prefix H<n> with n > 0
_common_entry_arr = entry_arr
import re as _re


def _arr_name(key):
    if key[0] == "f":
        return "%s:%s" % (key[1], key[2])
    if key[0] == "m":
        return "mem:%s" % (key[1],)
    return None


def _all_terms(s):
    for p in s.pc:
        yield p
    for e in s.events:
        for a in e.args:
            if a is not None and not isinstance(a, tuple):
                yield a
        if e.recv is not None and not isinstance(e.recv, tuple):
            yield e.recv
    for v in s.locals.values():
        if v is not None and not isinstance(v, tuple):
            yield v
    for v in s.heap.values():
        yield v


def entry_arr(ex, s, key):
    if getattr(s, "iter_entry_arrays", None) is None:
        return _common_entry_arr(ex, s, key)          # not an iteration state: entry of the function / region (H0)
    if key in getattr(ex, "iter_written", ()):
        return _common_entry_arr(ex, s, key)
    stop = s.iter_entry_arrays.get(key, ())
    if stop:
        return _common_entry_arr(ex, s, key)
    nm = _arr_name(key)
    if nm is None:
        return _common_entry_arr(ex, s, key)
    b0 = s.heap.get(key)
    while b0 is not None and b0.op == "store":
        b0 = b0.args[0]
    if b0 is not None and b0.op == "sym" and str(b0.args[0]).startswith("Hiter."):
        return b0                 # second pass of the iteration contract: the component is arbitrary at iteration entry
    best = None
    seen = set()
    for t in _all_terms(s):
        for u in tm.subterms(t, seen):
            if u.op == "sym" and isinstance(u.sort, tuple) and u.sort and u.sort[0] == "A":
                m = _re.match(r"^H(\d+)\.(.*)$", str(u.args[0]))
                if m and m.group(2) == nm:
                    k = int(m.group(1))
                    if best is None or k < best[0]:
                        best = (k, u)
    if best is not None:
        return best[1]
    return ex.heap_arr(s, key)


def renamed_since_entry(ex, s, key):
    """was the component replaced by a fresh symbol (inner loop havocked) after the iteration started?"""
    a = s.heap.get(key)
    if a is None:
        return False
    while a.op == "store":
        a = a.args[0]
    return a is not entry_arr(ex, s, key)


def fld0(ex, s, name, sort, obj=THIS):
    return tm.select(entry_arr(ex, s, ("f", name, sort)), obj)


def vec_elem(ex, s, vec_field, idx, owner=THIS, sort="P", entry=True):
    get = entry_arr if entry else (lambda ex, s, k: ex.heap_arr(s, k))
    data = tm.select(get(ex, s, ("f", "#vdata", "P")), tm.app("fld:" + vec_field, (owner,), "P"))
    return tm.select(get(ex, s, ("m", sort)), data, idx)


def loops_with_body(fn, rel, needle, innermost=True):
    """ordinals of the loops whose BODY text (white space and comments removed) contains `needle` - an anchor by what the loop does, not by its
    condition; innermost=True drops loops that merely contain another matching loop"""
    lps = loops_of(fn)
    hit = [k for k, lp in enumerate(lps) if needle in text_of(rel, lp["inner"][-1])]
    if innermost:
        hit = [k for k in hit if not any(j != k and any(y is lps[j] for y in A.walk(lps[k]["inner"][-1])) for j in hit)]
    return hit


def the_loop(fn, rel, needle, innermost=True, nth=0, what=""):
    hs = loops_with_body(fn, rel, needle, innermost)
    if len(hs) <= nth:
        raise Undecided("loop whose body contains `%s` not found (%s)" % (needle, what))
    return hs[nth]


def ifs_with_then(fn, rel, needle):
    """IfStmts whose THEN branch contains `needle` (innermost ones): an anchor by what the branch does, never by the text of its condition"""
    out = [x for x in A.walk(fn) if x.get("kind") == "IfStmt" and len(x.get("inner", [])) >= 2 and needle in text_of(rel, x["inner"][1])]
    return [x for x in out if not any(y is not x and any(z is y for z in A.walk(x["inner"][1])) for y in out)]


def index_of(s, prefix="iter_"):
    """integer loop-induction symbols of an iteration state"""
    out = []
    for v in s.locals.values():
        if v is not None and not isinstance(v, tuple) and v.op == "sym" and str(v.args[0]).startswith(prefix) and v.sort == "I" and v not in out:
            out.append(v)
    return out
