"""helpers shared by the *_ext modules of C01/C02/C03 (helper-written units)"""
from props.common import *
from vf import core
from vf.core import FAILED, DISCHARGED, UNDECIDED, Undecided


def drop_head(qual, ordinal):
    """the generic 'loop head is a full traversal' obligation does not fit a loop that deliberately starts at token 1; the unit that
    calls this states the head it expects as its own obligation"""
    hs = getattr(core.PENDING, "heads", None)
    if hs:
        hs[:] = [h for h in hs if not (h["function"] == qual and h["ordinal"] == ordinal)]


def proved(hyps, goal):
    return B.z3_prove(list(hyps), goal)[0] == "proved"


def refuted(hyps, goal):
    return B.z3_prove(list(hyps), goal)[0] == "refuted"


def sat(hyps):
    return B.z3_sat(list(hyps)) != "unsat"


def put(r, name, ok, detail="", kind="post", backend="symex", undecided=False):
    r.add(name, DISCHARGED if ok else (UNDECIDED if undecided else FAILED), backend, 0, detail[:400] if isinstance(detail, str) else repr(detail)[:400], kind=kind)
    return ok


def valid(r, name, hyps, goal, kind="post", detail=""):
    return U.discharge_valid(r, name, list(hyps), goal, kind=kind, detail_ok=detail)


def eqr(r, name, hyps, a, b, kind="post"):
    return U.discharge_eq_real(r, name, list(hyps), a, b, kind=kind)


def events(s, short, it=True):
    evs = U.iter_events(s) if it else s.events
    return [e for e in evs if e.name.split("::")[-1] == short]


def I(n):
    return tm.num(n, "I")


NULLP = tm.num(0, "P")


def isnull(p):
    return tm.eq(p, NULLP)


def nonnull(p):
    return tm.not_(tm.eq(p, NULLP))


def loops_of(fn):
    return [x for x in A.walk(fn) if x.get("kind") in ("ForStmt", "WhileStmt", "DoStmt")]


def run_iter(rel, q, ordinal, c=None, **kw):
    return U.run_loop_isolated(rel, q, ordinal, ctx=c or ctx(), **kw)


def lives(states, statuses=("run", "cont", "brk", "ret")):
    return live(states, statuses)
