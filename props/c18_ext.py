"""C18 (extension): the constraint matrix of an inverse problem and its use (inverse.cpp).

Units in this file (setup_inverse); the solver-side units live in c18_ext_solve.py, the isotope / carbon units in c18_ext_iso.py.

The linear problem handed to cl1 is  A x ~ b (optimise), C x = d, E x <= f with x = (alpha_solutions | alpha_phases | alpha_redox |
delta(element m, solution q) | delta pH | delta water | isotope deltas | phase isotope deltas), last two columns = right-hand side and
work space.  A reported model is a genuine mole-balance model only if
  * every block of unknowns and of rows sits where every other function of inverse.cpp looks for it (layout unit),
  * the mole-balance row of element m holds  c(q) * T(m, q) in the column of solution q  (c = +1 initial, -1 final), the
    stoichiometric coefficient of m in the column of each phase, and c(q) in the column of delta(m, q),
  * each delta(m, q) is bounded by  |delta| <= u(m, q) * |T(m, q)| * alpha(q)  (u > 0 relative, u < 0 absolute),
  * the water, final-fraction and charge rows are the equations of the manual (eqs 2-6 of the inverse-modelling chapter),
  * the sign vector handed to cl1 forces alpha >= 0 for initial solutions, >= 0 for dissolve-only and <= 0 for precipitate-only phases.
Every obligation is about values / indices read from the symbolic final state of the real statements, executed from an arbitrary state."""
from props.common import *
from vf.core import FAILED, DISCHARGED, UNDECIDED

INV = "src/phreeqcpp/inverse.cpp"
Q = "Phreeqc::setup_inverse"
ENUMS = ["TRUE", "FALSE", "OK", "ERROR", "STOP", "CONTINUE", "PRECIPITATE", "DISSOLVE", "EITHER"]
I0, I1 = tm.num(0, "I"), tm.num(1, "I")


def mkctx(functional=()):
    c = ctx(functional=functional, enums_from="Phreeqc.h", enums=["TRUE", "FALSE", "OK", "ERROR", "STOP", "CONTINUE"])
    from vf.astvc import hdr
    for nm in ("PRECIPITATE", "DISSOLVE", "EITHER"):
        try:
            c.enum_values[nm] = hdr.define_value("src/phreeqcpp/global_structures.h", nm)
        except Exception:
            pass
    return c


def all_loops(fn):
    return [x for x in A.walk(fn) if x.get("kind") in ("ForStmt", "WhileStmt", "DoStmt")]


def ordinal(fn, node):
    for k, lp in enumerate(all_loops(fn)):
        if lp is node:
            return k
    raise Undecided("loop node not in function")


def nested(loop):
    return [x for x in A.walk(loop["inner"][-1]) if x.get("kind") in ("ForStmt", "WhileStmt", "DoStmt")]


def head(rel, lp):
    if lp.get("kind") != "ForStmt":
        return ("", "", "")
    import re as _re
    inc = text_of(rel, lp["inner"][3])
    m = _re.match(r"^(?:\+\+(\w+)|(\w+)\+=1|(\w+)=\3\+1)$", inc)        # ++i, i+=1, i=i+1 are the same step as i++
    if m:
        inc = (m.group(1) or m.group(2) or m.group(3)) + "++"
    return (text_of(rel, lp["inner"][0]).rstrip(";"), text_of(rel, lp["inner"][2]), inc)


def top_loops(fn, rel, cond_prefix=None, body_has=()):
    """top-level ForStmts of the function body whose condition starts with cond_prefix and whose body text contains all of body_has"""
    out = []
    for x in A.body_of(fn)["inner"]:
        if x.get("kind") != "ForStmt":
            continue
        if cond_prefix is not None and not head(rel, x)[1].startswith(cond_prefix):
            continue
        t = text_of(rel, x["inner"][-1])
        if all(b in t for b in body_has):
            out.append(x)
    return out


def vdata(ex, s, name, owner=THIS):
    return tm.select(ex.heap_arr(s, ("f", "#vdata", "P")), tm.app("fld:" + name, (owner,), "P"))


def vsize(ex, s, name, owner=THIS):
    return tm.select(ex.heap_arr(s, ("f", "#vsize", "I")), tm.app("fld:" + name, (owner,), "P"))


def same(hy, a, b):
    if a is b:
        return True
    try:
        if B.sympy_equal(a, b)[0]:
            return True
    except ValueError:
        pass
    return B.z3_prove(hy, tm.eq(a, b), timeout_ms=6000)[0] == "proved"


def vec_writes(ex, s, name, owner=THIS, sort="R", hy=None):
    """[(index, value)] net stores into the element block of std::vector member `name` during the region / iteration"""
    out = []
    for ix, v in writes(s, ("m", sort)):
        if not (isinstance(ix, tuple) and len(ix) == 2):
            continue
        base = ix[0]
        if base.op == "select" and "#vdata" in repr(tm._base_sym(base.args[0])):
            a = base.args[1]
            a = a[0] if isinstance(a, tuple) else a
            if a is tm.app("fld:" + name, (owner,), "P"):
                out.append((ix[1], v))
    return out


def other_real_writes(ex, s, names, owner=THIS):
    """stores of reals that are NOT into one of the named vectors of `owner`"""
    out = []
    for ix, v in writes(s, ("m", "R")):
        base = ix[0] if isinstance(ix, tuple) else ix
        ok = False
        if base.op == "select" and "#vdata" in repr(tm._base_sym(base.args[0])):
            a = base.args[1]
            a = a[0] if isinstance(a, tuple) else a
            ok = any(a is tm.app("fld:" + n, (owner,), "P") for n in names)
        if not ok:
            out.append((ix, v))
    return out


def F(ex, s, name, sort="I", obj=THIS):
    return fld(ex, s, name, sort, obj)


def match_writes(r, label, hy, ws, expect, frame_label=None):
    """every expected (index, value, name) is the value of exactly one net write, and there is no other write"""
    left = list(ws)
    for idx, val, nm in expect:
        hit = None
        for k, (ix, v) in enumerate(left):
            if same(hy, ix, idx):
                hit = k
                break
        if hit is None:
            r.add("%s.%s.entry_written" % (label, nm), FAILED, "symex", 0, "no store to index %r; stores: %r" % (idx, [w[0] for w in ws]))
            continue
        ix, v = left.pop(hit)
        U.discharge_eq_real(r, "%s.%s" % (label, nm), hy, v, val)
    r.add("%s.%s" % (label, frame_label or "no_other_matrix_entry_written"), DISCHARGED if not left else FAILED, "symex", 0, repr(left)[:300], kind="frame")


# ------------------------------------------------------------------------------------------------ layout
def unit_layout(twin=False):
    fn = A.find_function(INV, Q)
    r = U.new_unit("C18.setup_inverse.layout.blocks_of_unknowns_and_rows_are_contiguous_and_disjoint", INV, Q, fn)
    body = A.body_of(fn)["inner"]
    a = next((k for k, x in enumerate(body) if text_of(INV, x).startswith("max_column_count=")), None)
    b = next((k for k, x in enumerate(body) if text_of(INV, x).startswith("my_array.resize(")), None)
    c = next((k for k, x in enumerate(body) if text_of(INV, x).startswith("count_optimize=")), None)
    if a is None or b is None or c is None or not a < b < c:
        raise Undecided("layout statements of setup_inverse not found")
    f, ex, fin, info = region(INV, Q, body[a:b] + [body[c]], mkctx())
    n = 0
    for s in live(fin):
        n += 1
        inv = local(info, s, "inv_ptr")
        ns = fld0(ex, s, "count_solns", "I", inv); nr = fld0(ex, s, "count_redox_rxns", "I", inv)
        sz0 = lambda nm: tm.select(entry_arr(ex, s, ("f", "#vsize", "I")), tm.app("fld:" + nm, (inv,), "P"))
        np_, ne, niu, niso = sz0("phases"), sz0("elts"), sz0("isotope_unknowns"), sz0("isotopes")
        carbon = fld(ex, s, "carbon", "I")
        g = lambda nm: fld(ex, s, nm, "I")
        hy = list(s.pc)
        eqs = [("col_phases==count_solns", g("col_phases"), ns),
               ("col_redox==col_phases+phases", g("col_redox"), g("col_phases") + np_),
               ("col_epsilon==col_redox+redox_rxns", g("col_epsilon"), g("col_redox") + nr),
               ("col_ph==col_epsilon+elts*solns", g("col_ph"), g("col_epsilon") + (ne * ns if not twin else ne)),
               ("col_water==col_ph+carbon*solns", g("col_water"), g("col_ph") + carbon * ns),
               ("col_isotopes==col_water+1", g("col_isotopes"), g("col_water") + I1),
               ("col_phase_isotopes==col_isotopes+isotope_unknowns*solns", g("col_phase_isotopes"), g("col_isotopes") + niu * ns),
               ("count_unknowns==col_phase_isotopes+isotopes*phases", g("count_unknowns"), g("col_phase_isotopes") + niso * np_),
               ("max_column_count==count_unknowns+rhs+workspace", g("max_column_count"), g("count_unknowns") + tm.num(2, "I")),
               ("row_mb==one_optimisation_row_per_uncertainty_unknown(count_unknowns-col_epsilon)", g("row_mb"), g("count_unknowns") - g("col_epsilon")),
               ("count_optimize==row_mb", g("count_optimize"), g("row_mb")),
               ("row_fract==row_mb+elts", g("row_fract"), g("row_mb") + ne),
               ("row_charge==row_fract+water_row+final_fraction_row", g("row_charge"), g("row_fract") + tm.num(2, "I")),
               ("row_carbon==row_charge+solns", g("row_carbon"), g("row_charge") + ns),
               ("row_isotopes==row_carbon+carbon*solns", g("row_isotopes"), g("row_carbon") + carbon * ns),
               ("row_epsilon==row_isotopes+isotopes", g("row_epsilon"), g("row_isotopes") + niso),
               ("max_row_count==equalities+two_inequalities_per_uncertainty_unknown+2", g("max_row_count"), g("row_epsilon") + tm.num(2, "I") * g("row_mb") + tm.num(2, "I"))]
        for nm, lhs, rhs in eqs:
            U.discharge_eq_real(r, "layout." + nm, hy, lhs, rhs)
    r.add("reach.layout", DISCHARGED if n == 1 else UNDECIDED, "symex", 0, "%d path(s)" % n, kind="vacuity")
    r.assumptions += ["integers as mathematical integers (no overflow of size_t products)",
                      "the statements are located by the member they assign (max_column_count= ... up to my_array.resize, and count_optimize=)"]
    return r



def decide(hy, cond):
    if B.z3_prove(hy, cond, timeout_ms=6000)[0] == "proved":
        return True
    if B.z3_prove(hy, tm.not_(cond), timeout_ms=6000)[0] == "proved":
        return False
    return None


def spec_cases(hy, conds, base=None):
    """all truth assignments of the specification's case conditions that are satisfiable together with the path condition:
    yields (dict name -> bool, hypotheses).  The code need not branch on them: the contract is checked under each case.
    Conditions the path condition `base` already decides are fixed first (cheap, and keeps nonlinear side facts out of the pruning)."""
    import itertools
    fixed = {}
    b = hy if base is None else base
    for nm, c in conds:
        if B.z3_prove(b, c, timeout_ms=3000)[0] == "proved":
            fixed[nm] = True
        elif B.z3_prove(b, tm.not_(c), timeout_ms=3000)[0] == "proved":
            fixed[nm] = False
    free = [(nm, c) for nm, c in conds if nm not in fixed]
    out = []
    for bits in itertools.product((True, False), repeat=len(free)):
        case = dict(fixed); case.update((nm, bb) for (nm, c), bb in zip(free, bits))
        h = list(hy) + [c if case[nm] else tm.not_(c) for nm, c in conds]
        if (free or base is not None) and B.z3_sat(h) == "unsat":
            continue
        out.append((case, h))
    return out


def midx(ex, s, row, col):
    """linear index of matrix entry (row, col): row * max_column_count + col"""
    return row * F(ex, s, "max_column_count") + col


# ------------------------------------------------------------------------------------------------ solution columns
def unit_solution_columns(twin=False):
    """column q of the mole-balance row of every element in the model = c(q) * total of that element in solution q, c = -1 for the
    final (last) solution, +1 otherwise, 0 for the electron row; entry (row_charge + q, q) = charge imbalance of the elements in the model
    (sum over master species in the model of z~ * total, z~ = z + alk, -1 for alkalinity, 0 for e-)."""
    fn = A.find_function(INV, Q)
    r = U.new_unit("C18.setup_inverse.solution_columns.signed_totals_and_charge_imbalance", INV, Q, fn)
    outer = top_loops(fn, INV, "i<inv_ptr->count_solns", ["xsolution_zero()"])
    if len(outer) != 1:
        raise Undecided("solution loop of setup_inverse not found (%d)" % len(outer))
    inner = [lp for lp in nested(outer[0]) if "master.size()" in head(INV, lp)[1]]
    tot = [lp for lp in nested(outer[0]) if "Get_totals().end()" in head(INV, lp)[1]]
    if len(inner) != 2 or len(tot) != 1:
        raise Undecided("inner loops over master / totals not found (%d, %d)" % (len(inner), len(tot)))
    k0, k1, k2, kt = ordinal(fn, outer[0]), ordinal(fn, inner[0]), ordinal(fn, inner[1]), ordinal(fn, tot[0])
    c = mkctx(functional=("master_bsearch",))
    f, ex, its, info = U.run_loop_isolated(INV, Q, k0, ctx=c, inner_modes={k1: "iter", k2: "iter", kt: "iter"})
    i = tm.sym("iter_i", "I"); j = tm.sym("iter_j", "I")
    # (1) totals loop: the total of the master species found for the name grows by the solution's total of that name
    n = 0
    for s in live(info["inner_iters"].get(kt, []), ("run", "cont")):
        evs = [e for e in U.iter_events(s) if e.name.endswith("master_bsearch")]
        w = writes(s, ("f", "total", "R"))
        if len(evs) < 1 or len(w) != 1:
            r.add("totals.one_master_total_updated", FAILED, "symex", 0, "%d look-ups, stores %r" % (len(evs), w)[:200]); continue
        n += 1
        mp = evs[0].result
        ok = w[0][0] == (mp,) or w[0][0] is mp
        r.add("totals.updates_the_master_species_found_for_the_entry_name", DISCHARGED if ok else FAILED, "symex", 0, repr(w[0][0])[:120])
        old = tm.select(entry_arr(ex, s, ("f", "total", "R")), mp)
        inc = w[0][1] - old
        # the increment is the mapped value of the entry (jit->second): no other real enters
        reals = [t for t in tm.subterms(inc) if t.sort == "R" and t.op in ("select", "sym") and t is not old]
        okv = B.sympy_equal(w[0][1], old + inc)[0] and len([t for t in reals if "second" in repr(t)]) >= 1 and same(list(s.pc), w[0][1], old + [t for t in reals if "second" in repr(t)][0])
        r.add("totals.total+=entry_value", DISCHARGED if okv else FAILED, "symex", 0, repr(w[0][1])[:200])
    r.add("reach.totals", DISCHARGED if n else UNDECIDED, "symex", 0, "%d" % n, kind="vacuity")
    # (2) first loop over master: matrix column of solution i
    seen = set()
    for s in live(info["inner_iters"].get(k1, []), ("run", "cont")):
        hy = list(s.pc)
        inv = local(info, s, "inv_ptr")
        ns = F(ex, s, "count_solns", "I", inv)
        mj = tm.select(ex.heap_arr(s, ("m", "P")), vdata(ex, s, "master"), j)
        inn = F(ex, s, "in", "I", mj); total = F(ex, s, "total", "R", mj)
        ws = vec_writes(ex, s, "my_array")
        for case, h in spec_cases(hy, [("in", tm.le(I0, inn)), ("last", tm.eq(i, ns - I1)), ("elec", tm.eq(F(ex, s, "s", "P", mj), F(ex, s, "s_eminus", "P")))]):
            if not case["in"]:
                seen.add("not_in_model")
                r.add("column.master_not_in_model_writes_nothing", DISCHARGED if not ws else FAILED, "symex", 0, repr(ws)[:200], kind="frame")
                continue
            last, elec = case["last"], case["elec"]
            sign = tm.num(-1) if last else tm.num(1)
            if twin and last:
                sign = tm.num(1)
            val = tm.num(0) if elec else sign * total
            seen.add(("final" if last else "initial") + ("_electron" if elec else ""))
            match_writes(r, "column[%s%s]" % ("final" if last else "initial", ",e-" if elec else ""), h, ws,
                         [(midx(ex, s, inn, i), val, "entry(row_of_element,soln)==%s" % ("0" if elec else ("-total" if last else "+total")))])
        ow = other_real_writes(ex, s, ["my_array"])
        r.add("column.no_other_real_written", DISCHARGED if not ow else FAILED, "symex", 0, repr(ow)[:200], kind="frame")
    r.add("reach.column_cases", DISCHARGED if {"final", "initial", "final_electron", "initial_electron", "not_in_model"} <= seen else UNDECIDED, "symex", 0, repr(sorted(seen)), kind="vacuity")
    # (3) second loop over master: charge imbalance accumulator
    seen = set()
    for s in live(info["inner_iters"].get(k2, []), ("run", "cont")):
        hy = list(s.pc)
        mj = tm.select(ex.heap_arr(s, ("m", "P")), vdata(ex, s, "master"), j)
        inn = F(ex, s, "in", "I", mj); total = F(ex, s, "total", "R", mj)
        sp = F(ex, s, "s", "P", mj)
        cb0, cb1 = tm.sym("iter_cb", "R"), local(info, s, "cb")
        for case, h in spec_cases(hy, [("in", tm.le(I0, inn)), ("elec", tm.eq(sp, F(ex, s, "s_eminus", "P"))), ("alk", tm.eq(mj, F(ex, s, "master_alk", "P")))]):
            if not case["in"]:
                seen.add("skip")
                U.discharge_eq_real(r, "charge.master_not_in_model_adds_nothing", h, cb1, cb0); continue
            if case["elec"]:
                z = tm.num(0); tag = "electron:0"
            elif case["alk"]:
                z = tm.num(-1); tag = "alkalinity:-1"
            else:
                z = F(ex, s, "z", "R", sp) + (F(ex, s, "alk", "R", sp) if not twin else tm.num(0)); tag = "z+alk"
            seen.add(tag)
            U.discharge_eq_real(r, "charge.cb+=(%s)*total" % tag, h, cb1, cb0 + z * total)
        r.add("charge.accumulation_writes_no_matrix_entry", DISCHARGED if not writes(s, ("m", "R")) else FAILED, "symex", 0, "", kind="frame")
    r.add("reach.charge_cases", DISCHARGED if {"skip", "electron:0", "alkalinity:-1", "z+alk"} <= seen else UNDECIDED, "symex", 0, repr(sorted(seen)), kind="vacuity")
    # (4) after the loops: cb stored at (row_charge + i, i), clamped to 0 below the tolerance
    n = 0
    for s in live(its, ("run", "cont")):
        hy = list(s.pc)
        ws = vec_writes(ex, s, "my_array")
        cb = local(info, s, "cb")
        if not ws:
            r.add("charge.entry_written", FAILED, "symex", 0, "no matrix store after the accumulation"); continue
        n += 1
        match_writes(r, "charge", hy, ws, [(midx(ex, s, F(ex, s, "row_charge") + i, i), cb, "entry(row_charge+soln,soln)==cb_or_0_below_tolerance")])
    r.add("reach.charge_entry", DISCHARGED if n else UNDECIDED, "symex", 0, "%d" % n, kind="vacuity")
    r.assumptions += ["master_bsearch is functional; xsolution_zero() zeroes every master total before the totals loop (not under this contract)",
                      "error_msg(..., STOP) does not return (the path with a missing solution is not a reported model)",
                      "loops over master / totals are taken by iteration contract: one arbitrary iteration from an arbitrary state; the accumulator cb starts at 0 (checked syntactically below)",
                      "doubles as reals"]
    check_accumulator_init(r, fn, INV, inner[1], "cb", "charge")
    return r



def absr(x):
    return tm.ite(tm.lt(x, tm.num(0)), tm.neg(x), x)


def take(hy, ws, idx):
    """remove and return the value of the net write whose index provably equals idx (None when there is none)"""
    for k, (ix, v) in enumerate(ws):
        if same(hy, ix, idx):
            ws.pop(k)
            return v
    return None


def vdata0(ex, s, name, owner=THIS):
    return tm.select(entry_arr(ex, s, ("f", "#vdata", "P")), tm.app("fld:" + name, (owner,), "P"))


def vsize0(ex, s, name, owner=THIS):
    return tm.select(entry_arr(ex, s, ("f", "#vsize", "I")), tm.app("fld:" + name, (owner,), "P"))


def at(base, j):
    """address of element j of an aggregate element block"""
    return base if (tm.isnum(j) and j.args[0] == 0) else tm.T("+", (base, j), "P")


def elt_addr(ex, s, inv, j):
    return at(vdata0(ex, s, "elts", inv), j)


def eps_col(ex, s, inv, elt, soln):
    """THE column of delta(element elt, solution soln): col_epsilon + elt * count_solns + soln"""
    return F(ex, s, "col_epsilon") + elt * F(ex, s, "count_solns", "I", inv) + soln


# ------------------------------------------------------------------------------------------------ uncertainty inequalities
def unit_uncertainty_rows(twin=False):
    """For element m (not e-) and solution q with bound b = |u * T(m,q)| (u > 0) or -u (u <= 0), b < tolerance -> 0:
    b == 0: the delta column is zeroed (the unknown is removed) and no inequality is written;
    b > 0 : optimisation row (col - col_epsilon) gets SCALE_EPSILON / b on the delta column; one row  s*(delta - b*alpha_q) <= 0 (s > 0);
            if T == 0 the sign vector forces delta >= 0, else a second row s*(-delta - b'*alpha_q) <= 0 with b' = b, or |T| + tolerance when
            b > |T| for a non-alkalinity element (a concentration cannot become negative).  count_rows advances by the rows written."""
    fn = A.find_function(INV, Q)
    r = U.new_unit("C18.setup_inverse.uncertainty_rows.delta_bounded_by_uncertainty_times_fraction", INV, Q, fn)
    outer = [lp for lp in top_loops(fn, INV, "i<inv_ptr->count_solns", ["uncertainties[i]"])]
    if len(outer) != 1:
        raise Undecided("uncertainty loop not found (%d)" % len(outer))
    inner = [lp for lp in nested(outer[0]) if head(INV, lp)[1].startswith("j<inv_ptr->elts.size()")]
    if len(inner) != 1:
        raise Undecided("element loop of the uncertainty block not found")
    zero = nested(inner[0])
    if len(zero) != 1:
        raise Undecided("column-zeroing loop not found")
    kj, kz = ordinal(fn, inner[0]), ordinal(fn, zero[0])
    c = mkctx(functional=("strstr",))
    f, ex, its, info = U.run_loop_isolated(INV, Q, kj, ctx=c, inner_modes={kz: "iter"})
    i = tm.sym("L_i", "I"); j = tm.sym("iter_j", "I")
    SC = tm.num(tm_fraction(".0009765625"))
    seen = set()
    for s in live(its, ("run", "cont")):
        hy0 = list(s.pc)
        inv = local(info, s, "inv_ptr")
        ea = elt_addr(ex, s, inv, j)
        mp = fld0(ex, s, "master", "P", ea)
        u = tm.select(entry_arr(ex, s, ("m", "R")), tm.select(entry_arr(ex, s, ("f", "#vdata", "P")), tm.app("fld:uncertainties", (ea,), "P")), i)
        maxc = fld0(ex, s, "max_column_count", "I")
        arr0 = entry_arr(ex, s, ("m", "R"))
        A0 = tm.select(entry_arr(ex, s, ("f", "#vdata", "P")), tm.app("fld:my_array", (THIS,), "P"))
        conc = tm.select(arr0, A0, fld0(ex, s, "in", "I", mp) * maxc + i)
        toler = fld0(ex, s, "toler", "R")
        col = fld0(ex, s, "col_epsilon", "I") + j * fld0(ex, s, "count_solns", "I", inv) + i
        cr0, cr1 = fld0(ex, s, "count_rows", "I"), fld(ex, s, "count_rows", "I")
        b0 = tm.ite(tm.le(u, tm.num(0)), tm.neg(u), absr(conc * u))
        if twin:
            b0 = tm.ite(tm.le(u, tm.num(0)), tm.neg(u), absr(u))
        strs = [e for e in U.iter_events(s) if e.name.endswith("strstr")]
        conds = [("elec", tm.eq(fld0(ex, s, "s", "P", mp), fld0(ex, s, "s_eminus", "P"))), ("zero", tm.lt(b0, toler)), ("noconc", tm.eq(conc, tm.num(0))), ("wide", tm.lt(absr(conc), b0))]
        if strs:
            conds.append(("alk", tm.eq(strs[0].result, strs[0].args[0])))
        # preconditions (established by the layout unit and the row cursor): the element's mole-balance row lies between the optimisation
        # rows and the cursor, the delta column is a column of the matrix to the right of the solution columns, tolerance > 0
        inn = fld0(ex, s, "in", "I", mp); cu = fld0(ex, s, "count_unknowns", "I"); ce = fld0(ex, s, "col_epsilon", "I")
        pre = [tm.lt(tm.num(0), toler), tm.le(cu - ce, inn), tm.lt(inn, cr0), tm.le(I0, i), tm.lt(i, ce), tm.le(ce, col), tm.lt(col, cu), tm.lt(cu, maxc)]
        cells = [(inn, i), (col - ce, col), (cr0, col), (cr0, i), (cr0 + I1, col), (cr0 + I1, i)]
        pre += distinct_cells(cells, maxc)
        for case, hy in spec_cases(hy0 + pre, conds, base=hy0):
            ws = vec_writes(ex, s, "my_array"); wd = vec_writes(ex, s, "delta")
            if case["elec"]:
                seen.add("electron")
                r.add("electron.no_rows_no_entries", DISCHARGED if not ws and not wd and cr1 is cr0 else FAILED, "symex", 0, repr(ws)[:200], kind="frame")
                continue
            if case["zero"]:
                seen.add("zero_bound")
                # the zeroing loop ran (its effect is the inner iteration contract below); nothing is written after it
                ran = any(st.pc[:len(hy0)] == hy0[:len(st.pc)] or True for st in info["inner_entries"].get(kz, []))
                after = [w for w in writes(s, ("m", "R"))]
                r.add("zero_bound.no_inequality_row_written", DISCHARGED if s.status == "cont" and not after and kz in info["inner_entries"] else FAILED, "symex", 0, "status %s, later stores %r" % (s.status, after)[:200])
                continue
            b = b0
            # optimisation row
            v = take(hy, ws, (col - fld0(ex, s, "col_epsilon", "I")) * maxc + col)
            if v is None:
                r.add("optimise.entry(col-col_epsilon,col)_written", FAILED, "symex", 0, repr([w[0] for w in ws])[:300]); continue
            U.discharge_eq_real(r, "optimise.entry(col-col_epsilon,col)==SCALE_EPSILON/bound", hy, v, SC / b)
            v1, v2 = take(hy, ws, cr0 * maxc + col), take(hy, ws, cr0 * maxc + i)
            if v1 is None or v2 is None:
                r.add("upper.row_written_at_count_rows", FAILED, "symex", 0, repr([w[0] for w in ws])[:300]); continue
            U.discharge_valid(r, "upper.row_is_s*(delta-bound*alpha)<=0,s>0", hy, tm.and_(tm.lt(tm.num(0), v1), tm.eq(v2, tm.neg(v1 * b))))
            if case["noconc"]:
                seen.add("zero_concentration")
                okd = len(wd) == 1 and same(hy, wd[0][0], col) and same(hy, wd[0][1], tm.num(1))
                r.add("zero_concentration.delta_forced_non-negative(sign[col]=+1)", DISCHARGED if okd else FAILED, "symex", 0, repr(wd)[:200])
                r.add("zero_concentration.no_further_entry", DISCHARGED if not ws else FAILED, "symex", 0, repr(ws)[:200], kind="frame")
                U.discharge_valid(r, "zero_concentration.count_rows+=1", hy, tm.eq(cr1, cr0 + I1))
                continue
            capped = case["wide"] and strs and not case.get("alk", False)
            if case["wide"] and not strs:
                r.add("lower.alkalinity_test_made_when_bound_exceeds_concentration", FAILED, "symex", 0, "no element-name test on this path"); continue
            b1 = (absr(conc) + toler) if capped else b
            seen.add("capped" if capped else ("alkalinity_uncapped" if case["wide"] else "lower"))
            w1, w2 = take(hy, ws, (cr0 + I1) * maxc + col), take(hy, ws, (cr0 + I1) * maxc + i)
            if w1 is None or w2 is None:
                r.add("lower.row_written_at_count_rows+1", FAILED, "symex", 0, repr([w[0] for w in ws])[:300]); continue
            U.discharge_valid(r, "lower[%s].row_is_s*(-delta-bound'*alpha)<=0,s>0" % ("capped_at_concentration" if capped else "bound"), hy, tm.and_(tm.lt(w1, tm.num(0)), tm.eq(w2, w1 * b1)))
            r.add("lower.no_further_entry", DISCHARGED if not ws and not wd else FAILED, "symex", 0, repr((ws, wd))[:200], kind="frame")
            U.discharge_valid(r, "lower.count_rows+=2", hy, tm.eq(cr1, cr0 + tm.num(2, "I")))
    need = {"electron", "zero_bound", "zero_concentration", "lower", "capped", "alkalinity_uncapped"}
    r.add("reach.cases", DISCHARGED if need <= seen else UNDECIDED, "symex", 0, repr(sorted(seen)), kind="vacuity")
    # the zeroing loop: iteration k writes 0 at (k, column) and nothing else
    nz = 0
    for s in live(info["inner_iters"].get(kz, []), ("run", "cont")):
        nz += 1
        ws = vec_writes(ex, s, "my_array")
        k = tm.sym("iter_k", "I")
        colz = local(info, s, "column")
        match_writes(r, "zero_column", list(s.pc), ws, [(k * F(ex, s, "max_column_count") + colz, tm.num(0), "entry(k,column)==0")])
        okf = not writes(s, ("f", "count_rows", "I")) and not other_real_writes(ex, s, ["my_array"])
        r.add("zero_column.frame", DISCHARGED if okf else FAILED, "symex", 0, "", kind="frame")
    zh = head(INV, zero[0])
    r.add("zero_column.covers_rows_0..count_rows-1", DISCHARGED if zh == ("k=0", "k<count_rows", "k++") else FAILED, "syntactic", 0, repr(zh), kind="structural")
    r.add("reach.zero_column", DISCHARGED if nz else UNDECIDED, "symex", 0, "%d" % nz, kind="vacuity")
    r.assumptions += ["'is alkalinity' is the element-name prefix test of the source (strstr(name, \"Alkalinity\") == name), taken as the definition",
                      "the loop header of the zeroing loop is compared as text (k = 0; k < count_rows; k++)",
                      "rows are written at the cursor count_rows; that the cursor is past every equality row is the row-cursor unit", "doubles as reals"]
    return r


def distinct_cells(cells, maxc):
    """instances of the arithmetic lemma: for 0 <= c1, c2 < maxc:  r1*maxc + c1 == r2*maxc + c2  <=>  r1 == r2 and c1 == c2
    (row-major storage is injective); stated for the cells a contract talks about so that the solver need not do nonlinear reasoning"""
    out = []
    for a in range(len(cells)):
        for b in range(a + 1, len(cells)):
            (r1, c1), (r2, c2) = cells[a], cells[b]
            out.append(tm.or_(tm.and_(tm.eq(r1, r2), tm.eq(c1, c2)), tm.not_(tm.eq(r1 * maxc + c1, r2 * maxc + c2))))
    return out


def _base(a):
    while a is not None and a.op == "store":
        a = a.args[0]
    return a


def tm_fraction(txt):
    import fractions
    return fractions.Fraction(txt)



# ------------------------------------------------------------------------------------------------ phase columns
def unit_phase_columns(twin=False):
    """column col_phases + p of the mole-balance row of master species m = stoichiometric coefficient of m in the dissolution reaction
    of phase p (times the element count of m in its master species when that is positive); H+ contributes nothing; H2O goes to the
    water row (row_fract) only with -mineral_water; the alkalinity row gets the alkalinity of the reaction."""
    fn = A.find_function(INV, Q)
    r = U.new_unit("C18.setup_inverse.phase_columns.stoichiometry_in_the_rows_of_its_elements", INV, Q, fn)
    outer = top_loops(fn, INV, "i<inv_ptr->phases.size()", ["col_phases", "rxn_s"])
    if len(outer) != 1:
        raise Undecided("phase loop not found (%d)" % len(outer))
    inner = nested(outer[0])
    if len(inner) != 1:
        raise Undecided("token loop of the phase block not found")
    k0, k1 = ordinal(fn, outer[0]), ordinal(fn, inner[0])
    f, ex, its, info = U.run_loop_isolated(INV, Q, k0, ctx=mkctx(functional=("calc_alk",)), inner_modes={k1: "iter"})
    i = tm.sym("iter_i", "I"); j = tm.sym("iter_j", "I")
    seen = set()
    for s in live(info["inner_iters"].get(k1, []), ("run", "cont")):
        hy0 = list(s.pc)
        inv = local(info, s, "inv_ptr")
        phase = F(ex, s, "phase", "P", at(vdata(ex, s, "phases", inv), i))
        tok = at(vdata(ex, s, "token", tm.app("fld:rxn_s", (phase,), "P")), j)
        sp = F(ex, s, "s", "P", tok); tc = F(ex, s, "coef", "R", tok)
        sec, prim = F(ex, s, "secondary", "P", sp), F(ex, s, "primary", "P", sp)
        m = tm.ite(tm.not_(tm.eq(sec, tm.NULL)), sec, prim)
        ms = tm.ite(tm.not_(tm.eq(sec, tm.NULL)), F(ex, s, "s", "P", sec), F(ex, s, "s", "P", prim))
        mc = tm.ite(tm.not_(tm.eq(sec, tm.NULL)), F(ex, s, "coef", "R", sec), F(ex, s, "coef", "R", prim))
        mi = tm.ite(tm.not_(tm.eq(sec, tm.NULL)), F(ex, s, "in", "I", sec), F(ex, s, "in", "I", prim))
        col = F(ex, s, "col_phases") + i
        conds = [("nomaster", tm.eq(m, tm.NULL)), ("hplus", tm.eq(ms, F(ex, s, "s_hplus", "P"))), ("h2o", tm.eq(ms, F(ex, s, "s_h2o", "P"))),
                 ("mw", tm.eq(F(ex, s, "mineral_water", "I", inv), I1)), ("pos", tm.lt(tm.num(0), mc))]
        for case, hy in spec_cases(hy0, conds):
            ws = vec_writes(ex, s, "my_array")
            if case["nomaster"]:
                continue            # error_msg(..., STOP): no model is reported
            if case["hplus"] or (case["h2o"] and not case["mw"]):
                seen.add("skipped")
                r.add("token[%s].writes_nothing" % ("H+" if case["hplus"] else "H2O_without_mineral_water"), DISCHARGED if not ws else FAILED, "symex", 0, repr(ws)[:200], kind="frame")
                continue
            row = F(ex, s, "row_fract") if case["h2o"] else mi
            if twin and not case["h2o"]:
                row = F(ex, s, "row_fract")
            val = tc * mc if case["pos"] else tc
            seen.add(("water" if case["h2o"] else "element") + ("*count" if case["pos"] else ""))
            match_writes(r, "token[%s]" % ("H2O->water_row" if case["h2o"] else "element_row"), hy, ws,
                         [(midx(ex, s, row, col), val, "entry(row,col_phases+p)==coef%s" % ("*master_coef" if case["pos"] else ""))])
    r.add("reach.token_cases", DISCHARGED if {"skipped", "water", "element", "element*count"} <= seen else UNDECIDED, "symex", 0, repr(sorted(seen)), kind="vacuity")
    th = head(INV, inner[0])
    r.add("token_loop.visits_every_product_token(j=1..terminator)", DISCHARGED if th[0] == "j=1" and th[1] == "rxn_ptr->token[j].s!=NULL" and th[2] == "j++" else FAILED, "syntactic", 0, repr(th), kind="structural")
    n = 0
    for s in live(its, ("run", "cont")):
        hy = list(s.pc)
        ws = vec_writes(ex, s, "my_array")
        ca = [e for e in U.iter_events(s) if e.name.endswith("calc_alk")]
        if len(ca) != 1:
            r.add("alkalinity.calc_alk_called_once", FAILED, "trace", 0, "%d" % len(ca)); continue
        n += 1
        a = ca[0].args[0]
        inv = local(info, s, "inv_ptr")
        phase = fld0(ex, s, "phase", "P", at(vdata0(ex, s, "phases", inv), i))
        okarg = a.op == "select" and ".rxn_s:" in repr(_base(a.args[0])) and (a.args[1] == (phase,) or a.args[1] is phase)
        r.add("alkalinity.of_the_phase's_own_reaction", DISCHARGED if okarg else FAILED, "trace", 0, repr(a)[:200])
        row = F(ex, s, "in", "I", F(ex, s, "master_alk", "P"))
        match_writes(r, "alkalinity", hy, ws, [(midx(ex, s, row, fld0(ex, s, "col_phases", "I") + i), ca[0].result, "entry(alkalinity_row,col_phases+p)==calc_alk(reaction)")])
    r.add("reach.alkalinity", DISCHARGED if n else UNDECIDED, "symex", 0, "%d" % n, kind="vacuity")
    r.assumptions += ["calc_alk is functional (sum of coef * alk over the reaction) and not under this contract", "error_msg(..., STOP) does not return",
                      "the header of the token loop is compared as text", "doubles as reals"]
    return r


# ------------------------------------------------------------------------------------------------ epsilon columns
def unit_epsilon_columns(twin=False):
    """delta(m, q) sits in column col_epsilon + m * count_solns + q and enters the mole-balance row of m with c(q) (+1 initial, -1 final, 0 for e-).
    The block is filled with a running column: invariant column == col_epsilon + i * count_solns + j (base: column = col_epsilon before the loops,
    step: exactly one increment per inner iteration, inner loop runs j = 0 .. count_solns - 1)."""
    fn = A.find_function(INV, Q)
    r = U.new_unit("C18.setup_inverse.epsilon_columns.delta_enters_its_element_row_with_the_sign_of_its_solution", INV, Q, fn)
    outer = top_loops(fn, INV, "i<inv_ptr->elts.size()", ["column++"])
    if len(outer) != 1:
        raise Undecided("epsilon block not found (%d)" % len(outer))
    inner = nested(outer[0])
    if len(inner) != 1:
        raise Undecided("inner loop of the epsilon block not found")
    k1 = ordinal(fn, inner[0])
    oh, ih = head(INV, outer[0]), head(INV, inner[0])
    def prepare(ex, st, info):
        inv = st.locals[info["names"]["inv_ptr"]]
        col = st.locals[info["names"]["column"]]
        i_ = st.locals[info["names"]["i"]]; j_ = st.locals[info["names"]["j"]]
        st.assume(tm.eq(col, eps_col(ex, st, inv, i_, j_)))
        st.assume(tm.eq(st.locals[info["names"]["row"]], F(ex, st, "in", "I", F(ex, st, "master", "P", at(vdata(ex, st, "elts", inv), i_)))))
    f, ex, its, info = U.run_loop_isolated(INV, Q, k1, ctx=mkctx(), prepare=prepare)
    i = tm.sym("L_i", "I"); j = tm.sym("iter_j", "I")
    seen = set()
    for s in live(its, ("run", "cont")):
        hy0 = list(s.pc)
        inv = local(info, s, "inv_ptr")
        ea = elt_addr(ex, s, inv, i)
        mp = fld0(ex, s, "master", "P", ea)
        ns = fld0(ex, s, "count_solns", "I", inv)
        col0 = fld0(ex, s, "col_epsilon", "I") + i * ns + j
        for case, hy in spec_cases(hy0, [("last", tm.eq(j, ns - I1)), ("elec", tm.eq(fld0(ex, s, "s", "P", mp), fld0(ex, s, "s_eminus", "P")))]):
            ws = vec_writes(ex, s, "my_array")
            v = tm.num(0) if case["elec"] else (tm.num(-1) if case["last"] else tm.num(1))
            if twin and case["last"]:
                v = tm.num(1)
            seen.add(("final" if case["last"] else "initial") + ("_e-" if case["elec"] else ""))
            match_writes(r, "entry[%s%s]" % ("final" if case["last"] else "initial", ",e-" if case["elec"] else ""), hy, ws,
                         [(midx(ex, s, fld0(ex, s, "in", "I", mp), col0), v, "(row_of_element,col_epsilon+m*solns+q)==%s" % ("0" if case["elec"] else ("-1" if case["last"] else "+1")))])
            U.discharge_eq_real(r, "invariant.column_advances_by_one", hy, local(info, s, "column"), col0 + I1)
    r.add("reach.cases", DISCHARGED if {"final", "initial", "final_e-", "initial_e-"} <= seen else UNDECIDED, "symex", 0, repr(sorted(seen)), kind="vacuity")
    # base and outer step of the invariant: structural facts about the two loop headers and the statement before them
    body = A.body_of(fn)["inner"]
    k = next(k for k, x in enumerate(body) if x is outer[0])
    base = text_of(INV, body[k - 1]).rstrip(";")
    r.add("invariant.base(column=col_epsilon_before_the_block)", DISCHARGED if base == "column=col_epsilon" else FAILED, "syntactic", 0, base, kind="establishment")
    okh = oh == ("i=0", "i<inv_ptr->elts.size()", "i++") and ih == ("j=0", "j<inv_ptr->count_solns", "j++")
    r.add("invariant.outer_step(elements_outer,solutions_inner,unit_steps_from_0)", DISCHARGED if okh else FAILED, "syntactic", 0, repr((oh, ih)), kind="structural")
    first = [x for x in outer[0]["inner"][-1].get("inner", []) if x.get("kind") != "ForStmt"]
    okr = len(first) == 1 and text_of(INV, first[0]).rstrip(";") == "row=inv_ptr->elts[i].master->in"
    r.add("row_is_the_mole-balance_row_of_element_i", DISCHARGED if okr else FAILED, "syntactic", 0, repr([text_of(INV, x) for x in first])[:200], kind="structural")
    r.assumptions += ["the running-column invariant is proved by one arbitrary inner iteration; its base and the outer step are read from the loop headers (text)",
                      "count_solns >= 1"]
    return r


# ------------------------------------------------------------------------------------------------ water row, final fraction, charge rows
def unit_water_final_charge(twin=False):
    """water row: (moles of water of solution q) * c(q) on alpha_q, +1 on the water delta when -water uncertainty > 0;
    final-fraction row: alpha_final = 1;  charge row of solution q: z~(m) on delta(m, q) for every element m, with the same z~ as the
    charge imbalance stored at (row_charge + q, q) by the solution block (z + alk, -1 for alkalinity, 0 for e-)."""
    fn = A.find_function(INV, Q)
    r = U.new_unit("C18.setup_inverse.water_final_fraction_and_charge_rows", INV, Q, fn)
    body = A.body_of(fn)["inner"]
    wl = top_loops(fn, INV, "i<inv_ptr->count_solns", ["gfw_water", "Get_mass_water"])
    cl = top_loops(fn, INV, "i<inv_ptr->count_solns", ["charge", "col_epsilon"])
    if len(wl) != 1 or len(cl) != 1:
        raise Undecided("water / charge loops not found (%d, %d)" % (len(wl), len(cl)))
    # water loop
    f, ex, its, info = U.run_loop_isolated(INV, Q, ordinal(fn, wl[0]), ctx=mkctx(functional=("Rxn_find", "Get_mass_water")))
    i = tm.sym("iter_i", "I")
    seen = set()
    for s in live(its, ("run", "cont")):
        inv = local(info, s, "inv_ptr"); ns = fld0(ex, s, "count_solns", "I", inv)
        mw = [e for e in U.iter_events(s) if e.name.endswith("Get_mass_water")]
        rf = [e for e in U.iter_events(s) if e.name.endswith("Rxn_find")]
        if len(mw) != 1 or len(rf) != 1:
            r.add("water.reads_the_water_mass_of_one_solution", FAILED, "trace", 0, "%d %d" % (len(mw), len(rf))); continue
        num = tm.select(entry_arr(ex, s, ("m", "I")), vdata0(ex, s, "solns", inv), i)
        okn = rf[0].args[-1] is num and mw[0].recv is rf[0].result
        r.add("water.solution_is_number_solns[q]", DISCHARGED if okn else FAILED, "trace", 0, repr(rf[0].args)[:200])
        g = fld0(ex, s, "gfw_water", "R")
        for case, hy in spec_cases(list(s.pc), [("last", tm.eq(i, ns - I1))]):
            ws = vec_writes(ex, s, "my_array")
            sign = tm.num(-1) if case["last"] else tm.num(1)
            if twin and case["last"]:
                sign = tm.num(1)
            seen.add("final" if case["last"] else "initial")
            match_writes(r, "water[%s]" % ("final" if case["last"] else "initial"), hy, ws,
                         [(midx(ex, s, fld0(ex, s, "count_rows", "I"), i), sign * mw[0].result / g, "entry(water_row,q)==%smass_water/gfw_water" % ("-" if case["last"] else "+"))])
    r.add("reach.water", DISCHARGED if seen == {"final", "initial"} else UNDECIDED, "symex", 0, repr(sorted(seen)), kind="vacuity")
    # straight-line block after the water loop: water delta, row_water, final-fraction row
    k = next(k for k, x in enumerate(body) if x is wl[0])
    kc = next(k for k, x in enumerate(body) if x is cl[0])
    f, ex, fin, info = region(INV, Q, body[k + 1:kc], mkctx())
    n = 0
    for s in live(fin):
        n += 1
        inv = local(info, s, "inv_ptr"); ns = fld0(ex, s, "count_solns", "I", inv)
        cr0 = fld0(ex, s, "count_rows", "I"); maxc = fld0(ex, s, "max_column_count", "I")
        cw = fld0(ex, s, "col_water", "I"); cu = fld0(ex, s, "count_unknowns", "I")
        pre = [tm.lt(I0, ns), tm.lt(ns - I1, cw), tm.lt(cw, cu), tm.lt(cu, maxc)]
        cells = [(cr0, cw), (cr0 + I1, ns - I1), (cr0 + I1, cu)]
        for case, hy in spec_cases(list(s.pc) + pre + distinct_cells(cells, maxc), [("wu", tm.lt(tm.num(0), fld0(ex, s, "water_uncertainty", "R", inv)))], base=list(s.pc)):
            ws = vec_writes(ex, s, "my_array")
            exp = [(cr0 * maxc + cw, tm.num(1), "water_delta_enters_water_row_with_+1")] if case["wu"] else []
            exp += [((cr0 + I1) * maxc + (ns - I1), tm.num(1) if not twin else tm.num(-1), "final_fraction_row.alpha_final_coefficient==1"), ((cr0 + I1) * maxc + cu, tm.num(1), "final_fraction_row.rhs==1")]
            match_writes(r, "block[%s]" % ("water_uncertainty" if case["wu"] else "no_water_uncertainty"), hy, ws, exp)
            U.discharge_valid(r, "block.row_water==the_row_the_water_loop_filled", hy, tm.eq(fld(ex, s, "row_water", "I"), cr0))
            U.discharge_valid(r, "block.count_rows+=2", hy, tm.eq(fld(ex, s, "count_rows", "I"), cr0 + tm.num(2, "I")))
    r.add("reach.block", DISCHARGED if n else UNDECIDED, "symex", 0, "%d" % n, kind="vacuity")
    # charge rows
    inner = nested(cl[0])
    if len(inner) != 1:
        raise Undecided("element loop of the charge block not found")
    f, ex, its, info = U.run_loop_isolated(INV, Q, ordinal(fn, inner[0]), ctx=mkctx())
    i = tm.sym("L_i", "I"); j = tm.sym("iter_j", "I")
    seen = set()
    for s in live(its, ("run", "cont")):
        inv = local(info, s, "inv_ptr")
        mp = fld0(ex, s, "master", "P", elt_addr(ex, s, inv, j)); sp = fld0(ex, s, "s", "P", mp)
        col = fld0(ex, s, "col_epsilon", "I") + j * fld0(ex, s, "count_solns", "I", inv) + i
        for case, hy in spec_cases(list(s.pc), [("elec", tm.eq(sp, fld0(ex, s, "s_eminus", "P"))), ("alk", tm.eq(mp, fld0(ex, s, "master_alk", "P")))]):
            ws = vec_writes(ex, s, "my_array")
            if case["elec"]:
                z = tm.num(0); tag = "electron:0"
            elif case["alk"]:
                z = tm.num(-1); tag = "alkalinity:-1"
            else:
                z = fld0(ex, s, "z", "R", sp) + fld0(ex, s, "alk", "R", sp); tag = "z+alk"
            seen.add(tag)
            match_writes(r, "charge[%s]" % tag, hy, ws, [(midx(ex, s, fld0(ex, s, "count_rows", "I"), col), z, "entry(charge_row_of_q,col_of_delta(m,q))==z~")])
        r.add("charge.cursor_not_moved_inside_the_element_loop", DISCHARGED if not writes(s, ("f", "count_rows", "I")) else FAILED, "symex", 0, "", kind="frame")
    r.add("reach.charge", DISCHARGED if {"electron:0", "alkalinity:-1", "z+alk"} <= seen else UNDECIDED, "symex", 0, repr(sorted(seen)), kind="vacuity")
    r.assumptions += ["Utilities::Rxn_find / Get_mass_water are functional", "the element total of solution q and its charge imbalance are placed by the solution-columns unit; the cursor equals row_fract / row_charge here by the row-cursor unit",
                      "SCALE_WATER == 1 (the final rescaling of the water row is the identity)", "doubles as reals"]
    return r


# ------------------------------------------------------------------------------------------------ sign constraints
def unit_sign_constraints(twin=False):
    """the sign vector handed to cl1 (delta[]): +1 (non-negative) for every initial solution's mixing fraction and for dissolve-only phases,
    -1 (non-positive) for precipitate-only phases, untouched (0 = free) otherwise."""
    fn = A.find_function(INV, Q)
    r = U.new_unit("C18.setup_inverse.sign_constraints.fractions_nonnegative_phases_by_constraint", INV, Q, fn)
    pl = top_loops(fn, INV, "i<inv_ptr->phases.size()", ["constraint", "delta["])
    sl = [x for x in A.body_of(fn)["inner"] if x.get("kind") == "ForStmt" and "delta[i]" in text_of(INV, x["inner"][-1]) and "my_array" not in text_of(INV, x["inner"][-1])]
    if len(pl) != 1 or len(sl) != 1:
        raise Undecided("sign-constraint loops not found (%d, %d)" % (len(pl), len(sl)))
    c = mkctx()
    f, ex, its, info = U.run_loop_isolated(INV, Q, ordinal(fn, pl[0]), ctx=c)
    i = tm.sym("iter_i", "I")
    seen = set()
    PREC, DISS = tm.num(c.enum_values.get("PRECIPITATE", -1), "I"), tm.num(c.enum_values.get("DISSOLVE", 1), "I")
    for s in live(its, ("run", "cont")):
        inv = local(info, s, "inv_ptr")
        con = fld0(ex, s, "constraint", "I", at(vdata0(ex, s, "phases", inv), i))
        for case, hy in spec_cases(list(s.pc), [("prec", tm.eq(con, PREC)), ("diss", tm.eq(con, DISS))]):
            wd = vec_writes(ex, s, "delta")
            if case["prec"] or case["diss"]:
                v = tm.num(-1) if case["prec"] else tm.num(1)
                if twin and case["prec"]:
                    v = tm.num(1)
                seen.add("precipitate" if case["prec"] else "dissolve")
                match_writes(r, "phase[%s]" % ("precipitate" if case["prec"] else "dissolve"), hy, wd, [(fld0(ex, s, "col_phases", "I") + i, v, "sign[col_phases+p]==%s" % ("-1" if case["prec"] else "+1"))], "no_other_sign_written")
            else:
                seen.add("either")
                r.add("phase[either].sign_left_free", DISCHARGED if not wd else FAILED, "symex", 0, repr(wd)[:200], kind="frame")
        r.add("phase.matrix_untouched", DISCHARGED if not vec_writes(ex, s, "my_array") else FAILED, "symex", 0, "", kind="frame")
    r.add("reach.phase_cases", DISCHARGED if seen == {"precipitate", "dissolve", "either"} else UNDECIDED, "symex", 0, repr(sorted(seen)), kind="vacuity")
    ph = head(INV, pl[0])
    r.add("phase_loop.covers_every_phase", DISCHARGED if ph[0] in ("size_ti=0", "i=0") and ph[1] == "i<inv_ptr->phases.size()" and ph[2] in ("i++", "++i") else FAILED, "syntactic", 0, repr(ph), kind="structural")
    f, ex, its, info = U.run_loop_isolated(INV, Q, ordinal(fn, sl[0]), ctx=mkctx())
    n = 0
    for s in live(its, ("run", "cont")):
        n += 1
        wd = vec_writes(ex, s, "delta")
        match_writes(r, "solution", list(s.pc), wd, [(i, tm.num(1), "sign[q]==+1")], "no_other_sign_written")
        inv = local(info, s, "inv_ptr")
        U.discharge_valid(r, "solution.only_initial_solutions(q<count_solns-1)", list(s.pc), tm.lt(i, fld0(ex, s, "count_solns", "I", inv) - I1))
    sh = head(INV, sl[0])
    bound_ok = sh[0] == "i=0" and sh[2] in ("i++", "++i") and sh[1] in ("i<(inv_ptr->count_solns-1)", "i<inv_ptr->count_solns-1")
    r.add("solution_loop.covers_every_initial_solution(0..count_solns-2)", DISCHARGED if bound_ok else FAILED, "syntactic", 0, repr(sh), kind="structural")
    r.add("reach.solution", DISCHARGED if n else UNDECIDED, "symex", 0, "%d" % n, kind="vacuity")
    r.assumptions += ["cl1 honours the sign vector (res >= 0 for +1, <= 0 for -1): cl1 is outside every unit", "delta[] was zeroed before (memcpy from inv_zero at the top of setup_inverse)",
                      "the two loop headers are compared as text (coverage of all phases / all initial solutions)"]
    return r



# ------------------------------------------------------------------------------------------------ row cursor
CURSOR = ("f", "count_rows", "I")


def _counting_header(ex, st, node):
    """(variable id, bound term) for  for (v = 0; v < N; v++)  with N evaluated in the loop-entry state; None for any other shape"""
    if node.get("kind") != "ForStmt":
        return None
    init, cond, inc = node["inner"][0], node["inner"][2], node["inner"][3]
    c = strip(cond) if cond.get("kind") else None
    if not c or c.get("kind") != "BinaryOperator" or c.get("opcode") != "<":
        return None
    lhs = strip(c["inner"][0])
    if lhs.get("kind") != "DeclRefExpr":
        return None
    vid = lhs["referencedDecl"]["id"]
    t = text_of(INV, init).rstrip(";") if init.get("kind") else ""
    nm = lhs["referencedDecl"].get("name")
    if t not in ("%s=0" % nm, "size_t%s=0" % nm, "int%s=0" % nm):
        return None
    it = text_of(INV, inc) if inc.get("kind") else ""
    if it not in ("%s++" % nm, "++%s" % nm):
        return None
    vals = ex.ev(c["inner"][1], st.clone())
    if len(vals) != 1:
        return None
    return vid, nm, ex.coerce(vals[0][1], "I")


def unit_row_cursor(twin=False):
    """The row cursor count_rows agrees with the layout computed up front: it equals row_mb where the element rows are numbered,
    row_fract at the water row (the row the phase columns use for H2O), row_charge where the charge rows are written (the row the
    solution block used for the charge imbalance), row_carbon at the dAlk rows, row_isotopes at the isotope balances, and the row
    count it ends with is the precomputed row_epsilon: equalities = rows [row_mb, row_epsilon), inequalities after.
    Loops are summarised by a counting contract proved on one arbitrary iteration: every path through the body advances the cursor by
    the same d in {0, 1}, the body assigns neither the induction variable nor the bound, header  for (v = 0; v < N; v++)  => cursor += d * N."""
    fn = A.find_function(INV, Q)
    r = U.new_unit("C18.setup_inverse.row_cursor.agrees_with_the_layout_at_every_block", INV, Q, fn)
    body = A.body_of(fn)["inner"]
    a = next((k for k, x in enumerate(body) if text_of(INV, x).startswith("max_column_count=")), None)
    z = next((k for k, x in enumerate(body) if text_of(INV, x).rstrip(";") == "row_epsilon=count_rows"), None)
    if a is None or z is None:
        raise Undecided("layout block / `row_epsilon = count_rows` not found")
    top = {id(x): x for x in body}
    marks = {}
    def classify(node):
        t = text_of(INV, node["inner"][-1]); h = head(INV, node)[1]
        if "->in=(int)count_rows_t" in t.replace(" ", "") or "master->in=" in t: return "element_rows"
        if "gfw_water" in t and "Get_mass_water" in t: return "water_row"
        if "charge" in t and "col_epsilon" in t and "dalk" not in t: return "charge_rows"
        if "dalk_dph" in t: return "dAlk_rows"
        if "isotope_balance_equation" in t: return "isotope_rows"
        return None
    notes = []
    c = mkctx()
    def handler(ex, st, node, o):
        cr0 = tm.select(ex.heap_arr(st, CURSOR), THIS)
        if id(node) in top or classify(node):
            tag = classify(node)
            if tag:
                g = lambda nm: tm.select(ex.heap_arr(st, ("f", nm, "I")), THIS)
                marks.setdefault(tag, []).append((list(st.pc), cr0, {nm: g(nm) for nm in ("row_mb", "row_fract", "row_charge", "row_carbon", "row_isotopes", "row_epsilon")},
                                                  st.locals.get(info_names.get("count_rows_t"))))
        res = ex.iterate_loop(node, st.clone())
        ds = set()
        hdr = _counting_header(ex, st, node)
        ok_frame = True
        for s2 in res:
            if s2.status not in ("run", "cont", "brk") or B.z3_sat(list(s2.pc)) == "unsat":
                continue
            e0 = tm.select(entry_arr(ex, s2, CURSOR), THIS); e1 = tm.select(ex.heap_arr(s2, CURSOR), THIS)
            d = None
            for k in (0, 1):
                if same(list(s2.pc), e1, e0 + tm.num(k, "I")):
                    d = k
            ds.add(d)
            if s2.status == "brk":
                ds.add("break")
            if hdr is not None:
                v = s2.locals.get(hdr[0])
                if not (isinstance(v, tm.T) and v.op == "sym" and v.args[0] == "iter_" + hdr[1]):
                    ok_frame = False
        if ds <= {0}:
            notes.append((o, True, "cursor unchanged"))
            new = cr0
        elif ds == {1} and hdr is not None and ok_frame:
            notes.append((o, True, "cursor += 1 per iteration, %s iterations" % (repr(hdr[2])[:60])))
            new = cr0 + hdr[2]
        else:
            notes.append((o, False, "no counting contract: increments %r, counting header %s, induction variable untouched %s" % (sorted(map(str, ds)), hdr is not None, ok_frame)))
            new = tm.sym("cursor_after_loop%d" % o, "I")
        st.heap[CURSOR] = tm.store(ex.heap_arr(st, CURSOR), (THIS,), new)
        return [st]
    c.loop = handler
    info_names = {}
    for x in A.walk(fn):
        if x.get("kind") == "VarDecl" and "name" in x:
            info_names.setdefault(x["name"], x["id"])
    cb1 = [x for x in body[:a] if text_of(INV, x).rstrip(";") == "carbon=1"]
    if len(cb1) != 1:
        raise Undecided("`carbon = 1` not found before the layout block")
    f, ex, fin, info = region(INV, Q, cb1 + body[a:z + 1], c)
    seen_o = set()
    for o, ok, d in notes:
        if o in seen_o:
            continue
        seen_o.add(o)
        r.add("loop%d.counting_contract(uniform_increment,induction_variable_and_bound_untouched)" % o, DISCHARGED if ok else FAILED, "symex", 0, d, kind="loop")
    want = [("element_rows", "row_mb"), ("water_row", "row_fract"), ("charge_rows", "row_charge"), ("dAlk_rows", "row_carbon"), ("isotope_rows", "row_isotopes")]
    if twin:
        want[1] = ("water_row", "row_mb")
    for tag, fldname in want:
        ms = marks.get(tag, [])
        if not ms:
            r.add("reach.%s" % tag, UNDECIDED, "symex", 0, "block not reached", kind="vacuity"); continue
        for hy, cr, lay, crt in ms[:4]:
            U.discharge_eq_real(r, "cursor_at_%s==%s" % (tag, fldname), hy, cr, lay[fldname])
            if tag == "element_rows":
                if isinstance(crt, tm.T):
                    U.discharge_eq_real(r, "element_rows_numbered_from_row_mb(count_rows_t)", hy, crt, lay["row_mb"])
                else:
                    r.add("element_rows_numbered_from_row_mb(count_rows_t)", UNDECIDED, "symex", 0, "local count_rows_t not found")
    n = 0
    lay0 = marks.get("dAlk_rows", [([], None, {}, None)])[0][2]
    for s in live(fin):
        n += 1
        U.discharge_eq_real(r, "final.row_epsilon(=cursor_after_equalities)==precomputed_row_epsilon", list(s.pc), fld(ex, s, "row_epsilon", "I"), lay0.get("row_epsilon", tm.sym("missing", "I")))
    r.add("reach.end_of_equalities", DISCHARGED if n else UNDECIDED, "symex", 0, "%d path(s)" % n, kind="vacuity")
    r.assumptions += ["callees (string_hsave, write_optimize_names, xsolution_zero, master_bsearch, isotope_balance_equation, ...) do not move the cursor or change the layout members",
                      "loops are summarised by the counting contract stated in the unit; trip count N assumes N >= 0 (sizes and count_solns)",
                      "`carbon = 1` at the top of setup_inverse still holds at the layout block (carbon_derivs / set_isotope_unknowns / check_isotopes do not assign it)",
                      "blocks are recognised by what they touch (text of the loop body: gfw_water, dalk_dph, isotope_balance_equation, master->in=)", "size_t arithmetic as mathematical integers"]
    return r



# ------------------------------------------------------------------------------------------------ dAlk rows, pH and water inequalities
def unit_ph_water_dalk(twin=False):
    """dAlk row of solution q:  dalk_dph(q) * dpH(q) - delta(Alk, q) + dalk_dc(q) * delta(C(4), q) = 0 (written when a derivative is non-zero);
    pH rows: |dpH(q)| <= u_pH(q) * alpha_q as two rows at the cursor, optimisation entry SCALE_EPSILON / u_pH(q);
    water rows: |dwater| <= water uncertainty (right-hand side column count_unknowns), only when the uncertainty is positive."""
    fn = A.find_function(INV, Q)
    r = U.new_unit("C18.setup_inverse.dAlk_pH_and_water_rows", INV, Q, fn)
    body = A.body_of(fn)["inner"]
    SC = tm.num(tm_fraction(".0009765625"))
    dl = top_loops(fn, INV, "i<inv_ptr->count_solns", ["dalk_dph"])
    if len(dl) != 1:
        raise Undecided("dAlk loop not found")
    f, ex, its, info = U.run_loop_isolated(INV, Q, ordinal(fn, dl[0]), ctx=mkctx())
    i = tm.sym("iter_i", "I")
    seen = set()
    for s in live(its, ("run", "cont")):
        inv = local(info, s, "inv_ptr"); ns = fld0(ex, s, "count_solns", "I", inv)
        R0 = entry_arr(ex, s, ("m", "R"))
        dph = tm.select(R0, vdata0(ex, s, "dalk_dph", inv), i); dc = tm.select(R0, vdata0(ex, s, "dalk_dc", inv), i)
        cr0 = fld0(ex, s, "count_rows", "I"); maxc = fld0(ex, s, "max_column_count", "I"); ce = fld0(ex, s, "col_epsilon", "I")
        ialk, icarb = local(info, s, "i_alk"), local(info, s, "i_carb")
        cph = fld0(ex, s, "col_ph", "I") + i
        c1, c2 = ce + ialk * ns + i, ce + icarb * ns + i
        pre = [tm.not_(tm.eq(ialk, icarb)), tm.le(I0, ialk), tm.le(I0, icarb), tm.lt(I0, ns), tm.le(I0, i), tm.lt(i, ns), tm.lt(c1, fld0(ex, s, "col_ph", "I")), tm.lt(c2, fld0(ex, s, "col_ph", "I")),
               tm.lt(cph, maxc), tm.le(I0, ce)] + distinct_cells([(cr0, cph), (cr0, c1), (cr0, c2)], maxc)
        for case, hy in spec_cases(list(s.pc) + pre, [("any", tm.or_(tm.not_(tm.eq(dph, tm.num(0))), tm.not_(tm.eq(dc, tm.num(0)))))], base=list(s.pc)):
            ws = vec_writes(ex, s, "my_array")
            if case["any"]:
                seen.add("written")
                match_writes(r, "dAlk", hy, ws, [(cr0 * maxc + cph, dph, "entry(row,col_ph+q)==dalk_dph"), (cr0 * maxc + c1, tm.num(-1) if not twin else tm.num(1), "entry(row,delta(Alk,q))==-1"),
                                                 (cr0 * maxc + c2, dc, "entry(row,delta(C(4),q))==dalk_dc")])
            else:
                seen.add("empty")
                r.add("dAlk.zero_derivatives_leave_the_row_empty", DISCHARGED if not ws else FAILED, "symex", 0, repr(ws)[:200], kind="frame")
            U.discharge_valid(r, "dAlk.count_rows+=1", hy, tm.eq(fld(ex, s, "count_rows", "I"), cr0 + I1))
    r.add("reach.dAlk", DISCHARGED if seen == {"written", "empty"} else UNDECIDED, "symex", 0, repr(sorted(seen)), kind="vacuity")
    # i_alk / i_carb are the element indices of alkalinity and C(4)
    el = [x for x in body if x.get("kind") == "ForStmt" and "i_alk=i" in text_of(INV, x["inner"][-1])]
    if len(el) != 1:
        raise Undecided("element-marking loop not found")
    f, ex, its, info = U.run_loop_isolated(INV, Q, ordinal(fn, el[0]), ctx=mkctx(functional=("strcmp",)))
    n = 0
    for s in live(its, ("run", "cont")):
        n += 1
        inv = local(info, s, "inv_ptr")
        mp = fld0(ex, s, "master", "P", elt_addr(ex, s, inv, i))
        sc = [e for e in U.iter_events(s) if e.name.endswith("strcmp")]
        for case, hy in spec_cases(list(s.pc), [("alk", tm.eq(mp, fld0(ex, s, "master_alk", "P")))]):
            U.discharge_valid(r, "index.i_alk_is_the_alkalinity_element" if case["alk"] else "index.i_alk_kept_for_other_elements", hy,
                              tm.eq(local(info, s, "i_alk"), i if case["alk"] else tm.sym("iter_i_alk", "I")))
        okc = len(sc) == 1 and sc[0].args[1].op == "str" and sc[0].args[1].args[0].strip('"') == "C(4)"
        r.add("index.i_carb_found_by_name_C(4)", DISCHARGED if okc else FAILED, "trace", 0, repr([e.args for e in sc])[:200])
        if okc:
            for case, hy in spec_cases(list(s.pc), [("c4", tm.eq(sc[0].result, I0))]):
                U.discharge_valid(r, "index.i_carb_is_the_C(4)_element" if case["c4"] else "index.i_carb_kept_for_other_elements", hy,
                                  tm.eq(local(info, s, "i_carb"), i if case["c4"] else tm.sym("iter_i_carb", "I")))
    r.add("reach.index", DISCHARGED if n else UNDECIDED, "symex", 0, "%d" % n, kind="vacuity")
    # pH inequalities
    pl = [lp for lp in all_loops(fn) if lp.get("kind") == "ForStmt" and "ph_uncertainties" in text_of(INV, lp["inner"][-1]) and "eps+" in text_of(INV, lp["inner"][-1])]
    if len(pl) != 1:
        raise Undecided("pH inequality loop not found")
    f, ex, its, info = U.run_loop_isolated(INV, Q, ordinal(fn, pl[0]), ctx=mkctx())
    n = 0
    for s in live(its, ("run", "cont")):
        n += 1
        inv = local(info, s, "inv_ptr")
        u = tm.select(entry_arr(ex, s, ("m", "R")), vdata0(ex, s, "ph_uncertainties", inv), i)
        cr0 = fld0(ex, s, "count_rows", "I"); maxc = fld0(ex, s, "max_column_count", "I"); ce = fld0(ex, s, "col_epsilon", "I")
        cph = fld0(ex, s, "col_ph", "I") + i
        hy = list(s.pc) + [tm.le(I0, i), tm.lt(i, ce), tm.le(ce, cph), tm.lt(cph, maxc), tm.lt(cph - ce, cr0)] + distinct_cells([(cph - ce, cph), (cr0, cph), (cr0, i), (cr0 + I1, cph), (cr0 + I1, i)], maxc)
        ws = vec_writes(ex, s, "my_array")
        match_writes(r, "pH", hy, ws, [((cph - ce) * maxc + cph, SC / u, "optimise.entry==SCALE_EPSILON/u_pH"), (cr0 * maxc + cph, tm.num(1), "upper.entry(row,col_ph+q)==+1"), (cr0 * maxc + i, tm.neg(u), "upper.entry(row,q)==-u_pH"),
                                      ((cr0 + I1) * maxc + cph, tm.num(-1), "lower.entry(row+1,col_ph+q)==-1"), ((cr0 + I1) * maxc + i, tm.neg(u) if not twin else u, "lower.entry(row+1,q)==-u_pH")])
        U.discharge_valid(r, "pH.count_rows+=2", hy, tm.eq(fld(ex, s, "count_rows", "I"), cr0 + tm.num(2, "I")))
    r.add("reach.pH", DISCHARGED if n else UNDECIDED, "symex", 0, "%d" % n, kind="vacuity")
    # water inequalities
    # located by what the branch does (writes the two "water eps" rows), never by the text of its condition: the condition is demanded below
    wi = [k for k, x in enumerate(body) if x.get("kind") == "IfStmt" and "\"water\"" in text_of(INV, x["inner"][1]) and "eps+" in text_of(INV, x["inner"][1])]
    if len(wi) != 1 or text_of(INV, body[wi[0] - 1]).rstrip(";") != "coef=inv_ptr->water_uncertainty" or text_of(INV, body[wi[0] - 2]).rstrip(";") != "column=col_water":
        raise Undecided("water inequality block not found")
    f, ex, fin, info = region(INV, Q, body[wi[0] - 2:wi[0] + 1], mkctx())
    seen = set()
    for s in live(fin):
        inv = local(info, s, "inv_ptr"); u = fld0(ex, s, "water_uncertainty", "R", inv)
        cr0 = fld0(ex, s, "count_rows", "I"); maxc = fld0(ex, s, "max_column_count", "I"); cw = fld0(ex, s, "col_water", "I"); cu = fld0(ex, s, "count_unknowns", "I")
        pre = [tm.le(I0, cw), tm.lt(cw, cu), tm.lt(cu, maxc)] + distinct_cells([(cr0, cw), (cr0, cu), (cr0 + I1, cw), (cr0 + I1, cu)], maxc)
        for case, hy in spec_cases(list(s.pc) + pre, [("pos", tm.lt(tm.num(0), u))], base=list(s.pc)):
            ws = vec_writes(ex, s, "my_array")
            if case["pos"]:
                seen.add("bounded")
                match_writes(r, "water", hy, ws, [(cr0 * maxc + cw, tm.num(1), "upper.entry(row,col_water)==+1"), (cr0 * maxc + cu, u, "upper.rhs==uncertainty"),
                                                  ((cr0 + I1) * maxc + cw, tm.num(-1), "lower.entry(row+1,col_water)==-1"), ((cr0 + I1) * maxc + cu, u, "lower.rhs==uncertainty")])
                U.discharge_valid(r, "water.count_rows+=2", hy, tm.eq(fld(ex, s, "count_rows", "I"), cr0 + tm.num(2, "I")))
            else:
                seen.add("absent")
                r.add("water.no_rows_without_uncertainty", DISCHARGED if not ws and not writes(s, CURSOR) else FAILED, "symex", 0, repr(ws)[:200], kind="frame")
    r.add("reach.water", DISCHARGED if seen == {"bounded", "absent"} else UNDECIDED, "symex", 0, repr(sorted(seen)), kind="vacuity")
    r.assumptions += ["strcmp is functional; the C(4) element is identified by its name as in the source", "dalk_dph / dalk_dc come from carbon_derivs (unit C18.carbon_derivs...)", "doubles as reals"]
    return r


UNITS = [("C18.setup_inverse.layout.blocks_of_unknowns_and_rows_are_contiguous_and_disjoint", unit_layout),
         ("C18.setup_inverse.solution_columns.signed_totals_and_charge_imbalance", unit_solution_columns),
         ("C18.setup_inverse.uncertainty_rows.delta_bounded_by_uncertainty_times_fraction", unit_uncertainty_rows),
         ("C18.setup_inverse.phase_columns.stoichiometry_in_the_rows_of_its_elements", unit_phase_columns),
         ("C18.setup_inverse.epsilon_columns.delta_enters_its_element_row_with_the_sign_of_its_solution", unit_epsilon_columns),
         ("C18.setup_inverse.water_final_fraction_and_charge_rows", unit_water_final_charge),
         ("C18.setup_inverse.sign_constraints.fractions_nonnegative_phases_by_constraint", unit_sign_constraints),
         ("C18.setup_inverse.row_cursor.agrees_with_the_layout_at_every_block", unit_row_cursor),
         ("C18.setup_inverse.dAlk_pH_and_water_rows", unit_ph_water_dalk)]


def _more():
    out = []
    import importlib
    for m in ("c18_ext_solve", "c18_ext_iso"):
        try:
            out += list(getattr(importlib.import_module("props." + m), "UNITS", []))     # (a helper module imported first sees this module complete)
        except ModuleNotFoundError as e:
            if e.name != "props." + m:
                raise
    return out


UNITS = UNITS + _more()
from props.c18_ext2 import UNITS as _U2; UNITS = UNITS + _U2
from props.c18_ext3 import UNITS as _U3; UNITS = UNITS + _U3
