"""C09: whether an output sink is enabled must not change the state the next step starts from: on every path of print_all the
Peng-Robinson flags of the phases are reset (set_pr_in_false directly, or at the end of print_saturation_indices when that
block is printed)."""
from props.common import *
from vf.core import FAILED, DISCHARGED, UNDECIDED

PRINT = "src/phreeqcpp/print.cpp"


def unit_print_all(twin=False):
    q = "Phreeqc::print_all"
    fn = A.find_function(PRINT, q)
    r = U.new_unit("C09.print_all.state_reset_independent_of_output_switches", PRINT, q, fn)
    f, ex, fin, info = U.run_function(PRINT, q, ctx=ctx())
    n = 0
    for s in [s for s in fin if s.status == "ret" and B.z3_sat(list(s.pc)) != "unsat"]:
        n += 1
        names = [e.name.split("::")[-1] for e in s.events]
        pr = tm.app("fld:pr", (THIS,), "P")
        si_on = tm.not_(tm.eq(fld0(ex, s, "saturation_indices", "I", pr), tm.num(0, "I")))
        direct = "set_pr_in_false" in names and not twin
        via_si = "print_saturation_indices" in names and B.z3_prove(list(s.pc), si_on)[0] == "proved"
        r.add("path%d.PR_flags_reset" % n, DISCHARGED if direct or via_si else FAILED, "symex+z3", 0,
              "set_pr_in_false called" if direct else ("print_saturation_indices prints (and resets)" if via_si else "neither set_pr_in_false nor a printing print_saturation_indices on path %r" % (s.pc,)))
    r.add("reach.paths", DISCHARGED if n >= 3 else UNDECIDED, "symex", 0, "%d" % n, kind="vacuity")
    # print_saturation_indices resets pr_in of every phase when it prints
    fs = A.find_function(PRINT, "Phreeqc::print_saturation_indices")
    t = text_of(PRINT, fs)
    r.add("print_saturation_indices.resets_pr_in_in_its_phase_loop", DISCHARGED if "phases[i]->pr_in=false;" in t else FAILED, "syntactic", 0, "", kind="structural")
    r.assumptions += ["set_pr_in_false() clears pr_in of every phase (body not under contract)", "print_* blocks are observation only apart from this reset; `s_h2o->lm = s_h2o->la` is not examined"]
    return r


def unit_lines_on_stop_path(twin=False):
    """The line view is the string view split at newlines on EVERY return of a Run* entry point — also when the run is stopped by
    an input or calculation error (IPhreeqcStop): the statements that fill OutputLines / LogLines / the selected-output lines are
    reached on the path through the stop handler and the common tail, not only at the normal end of do_run."""
    IPQ = "src/IPhreeqc.cpp"
    import re
    r = U.new_unit("C09.lines.refreshed_also_when_the_run_is_stopped", IPQ, "IPhreeqc::RunString", A.find_function(IPQ, "IPhreeqc::RunString"), kind="structural")
    # which IPhreeqc methods split the strings into lines?
    from vf import callsites as CS
    splitters = set()
    for qq, _ in CS.enclosing_functions(IPQ, "this->OutputLines.push_back("):
        name = qq.split("::")[-1]
        try:
            fn = A.find_function(IPQ, "IPhreeqc::" + name)
        except Exception:
            continue
        t = text_of(IPQ, fn)
        if "this->OutputLines.push_back(" in t and "this->LogLines.push_back(" in t and "SelectedOutputLinesMap[" in t:
            splitters.add(name)
    r.add("reach.line_filling_code_found", DISCHARGED if splitters else UNDECIDED, "syntactic", 0, repr(sorted(splitters)), kind="vacuity")
    for name in ("RunFile", "RunString", "RunAccumulated"):
        fn = A.find_function(IPQ, "IPhreeqc::" + name)
        body = A.body_of(fn).get("inner", [])
        tries = [k for k, x in enumerate(body) if x.get("kind") == "CXXTryStmt"]
        if not tries:
            r.add("%s.has_try_block" % name, FAILED, "syntactic", 0, ""); continue
        t = body[tries[-1]]
        calls = []
        for h in t.get("inner", [])[1:]:
            var = h["inner"][0] if h.get("inner") else {}
            q = var.get("type", {}).get("qualType", "") if var.get("kind") == "VarDecl" else ""
            if "IPhreeqcStop" in q:
                calls += [strip(y["inner"][0]).get("name") for y in A.walk(h["inner"][-1]) if y.get("kind") == "CXXMemberCallExpr"]
        for x in body[tries[-1] + 1:]:
            calls += [strip(y["inner"][0]).get("name") for y in A.walk(x) if y.get("kind") == "CXXMemberCallExpr"]
        ok = any(c in splitters and c != "do_run" for c in calls) and not twin
        r.add("%s.stop_path_fills_the_line_views" % name, DISCHARGED if ok else FAILED, "syntactic", 0,
              "calls on the stop path: %r; line-filling methods: %r" % (calls, sorted(splitters)))
    r.assumptions += ["error, warning and dump lines are refreshed by update_errors / the dump code on every path (not under this unit)"]
    return r
