"""C03 ext: one unknown per reactant with the right type and pointers.
setup_pure_phases: one PP unknown per phase of the assemblage, bound to THAT component (amount, TARGET SI, dissolve_only) and to the phase of the same name.
setup_ss_assemblage: one SS_MOLES unknown per component of every solid solution, bound to its solid solution, its component (index) and its phase.
setup_surface: one SURFACE unknown per surface master with moles = the defined sites, the master bound to it both ways."""
from props.c01_ext_util import *

PREP = "src/phreeqcpp/prep.cpp"
FUN = ("Get_pp_assemblage_comps", "phase_bsearch", "Get_name", "Get_moles", "Get_si", "Get_delta", "Get_dissolve_only", "c_str", "string_hsave", "Get_pp_assemblage_ptr", "Get_ss_comps",
       "Get_dn", "Get_dnb", "Get_dnc", "Get_log10_fraction_x", "Get_log10_lambda", "log", "Vectorize", "Get_ss_assemblage_ptr", "Get_surface_ptr", "Get_surface_comps", "Get_totals",
       "element_store", "Get_formula", "Get_type", "find_surface_charge_unknown", "master_bsearch", "Find_charge", "Get_charge_name", "Get_grams", "Get_mass_water", "Get_description")


def hdr_val(name):
    from vf.astvc import hdr
    return hdr.define_value("src/phreeqcpp/global_structures.h", name)


def _slot(ex, s):
    return vec_elem(ex, s, "x", fld0(ex, s, "count_unknowns", "I"))


def _record(r, tag, ex, s, want, first_field):
    """every field in `want` of the NEW unknown x[count_unknowns] has the expected final value; count_unknowns advances by one; the 'first unknown of
    this kind' pointer is taken when it was still NULL"""
    hy = list(s.pc)
    Uk = _slot(ex, s)
    for fname, (so, val) in sorted(want.items()):
        cur = tm.select(ex.heap_arr(s, ("f", fname, so)), Uk)
        ws = [ix for ix, v in writes(s, ("f", fname, so))]
        if not put(r, "%s.%s_written_on_the_new_unknown" % (tag, fname), any(ix == (Uk,) for ix in ws), repr(ws)[:160], kind="frame"):
            continue
        if so == "R":
            eqr(r, "%s.%s" % (tag, fname), hy, cur, val)
        else:
            valid(r, "%s.%s" % (tag, fname), hy, tm.eq(cur, val))
    valid(r, "%s.one_unknown_added(count_unknowns+1)" % tag, hy, tm.eq(fld(ex, s, "count_unknowns", "I"), fld0(ex, s, "count_unknowns", "I") + I(1)))
    f0 = fld0(ex, s, first_field, "P")
    for hc, was_null in cases(hy, isnull(f0)):
        valid(r, "%s.%s_%s" % (tag, first_field, "is_the_first_such_unknown" if was_null else "keeps_pointing_to_the_first"), hc, tm.eq(fld(ex, s, first_field, "P"), Uk if was_null else f0))


def unit_setup_pp(twin=False):
    q = "Phreeqc::setup_pure_phases"
    fn = A.find_function(PREP, q)
    r = U.new_unit("C03.setup_pure_phases.one_PP_unknown_per_phase_bound_to_its_component", PREP, q, fn)
    k = the_loop(fn, PREP, "count_unknowns++", what="loop over the phases of the assemblage")
    f, ex, its, info = run_iter(PREP, q, k, ctx(functional=FUN))
    n = 0
    for s in lives(its, ("run", "cont")):
        n += 1
        it = tm.sym("iter_it", "P"); node = tm.app("mnode", (it,), "P")
        comp = tm.app("fld:second", (node,), "P")
        key = tm.app("c_str", (fld0(ex, s, "first", "S", node),), "P")
        pb = events(s, "phase_bsearch")
        if not put(r, "phase.looked_up_by_the_name_of_THIS_assemblage_entry", len(pb) == 1 and pb[0].args[0] is key, repr([e.args for e in pb])[:200], kind="trace"):
            continue
        want = {"type": ("I", I(int(hdr_val("PP")))), "pp_assemblage_comp_ptr": ("P", comp), "phase": ("P", pb[0].result),
                "moles": ("R", tm.app("call:Get_moles", (comp,), "R")), "si": ("R", tm.app("call:Get_si" if not twin else "call:Get_delta", (comp,), "R")),
                "delta": ("R", tm.app("call:Get_delta", (comp,), "R")),
                "dissolve_only": ("I", tm.ite(tm.app("call:Get_dissolve_only", (comp,), "B"), I(1), I(0)))}
        _record(r, "phase", ex, s, want, "pure_phase_unknown")
        if n == 1:
            map_end = [p for p in s.pc if it in tm.subterms(p) and "mend" in repr(p)]
            valid(r, "loop.runs_to_the_end_of_the_assemblage's_phases", [], tm.eq(tm.to_bool(map_end[0]) if map_end else tm.FALSE, tm.not_(tm.eq(it, tm.app("mend", (tm.app("call:Get_pp_assemblage_comps", (tm.sym("L_pp_assemblage_ptr", "P"),), "P"),), "P")))), kind="establishment")
    put(r, "reach.phases", n >= 2, "%d" % n, kind="vacuity", undecided=True)
    ff, exf, finf, infof = U.run_function(PREP, q, default="skip", ctx=ctx(functional=FUN))
    for s in infof["entry"].get(k, [])[:1]:
        itv = s.locals.get(infof["names"]["it"])
        bg = [e for e in s.events if e.name.endswith("::begin") and e.result is itv]
        usep = tm.app("call:Get_pp_assemblage_ptr", (tm.app("fld:use", (THIS,), "P"),), "P")
        put(r, "loop.starts_at_the_first_phase_of_the_assemblage_in_use", len(bg) == 1 and bg[0].recv is tm.app("call:Get_pp_assemblage_comps", (usep,), "P"), repr([e.recv for e in bg])[:200], kind="establishment")
    r.assumptions += ["cxxPPassemblageComp getters are pure", "x[] has a free slot at count_unknowns (setup_unknowns counted the phases)", "gases' SI adjustment: adjust_setup_pure_phases (not under contract)"]
    return r


def unit_setup_ss(twin=False):
    q = "Phreeqc::setup_ss_assemblage"
    fn = A.find_function(PREP, q)
    r = U.new_unit("C03.setup_ss_assemblage.one_SS_MOLES_unknown_per_component_bound_to_its_solid_solution", PREP, q, fn)
    k = the_loop(fn, PREP, "count_unknowns++", what="loop over the components")
    f, ex, its, info = run_iter(PREP, q, k, ctx(functional=FUN))
    n = 0
    for s in lives(its, ("run", "cont")):
        n += 1
        i = [v for v in index_of(s)][0]
        j = s.locals.get(info["names"]["j"])
        ssj = tm.select(entry_arr(ex, s, ("m", "P")), tm.select(entry_arr(ex, s, ("f", "#vdata", "P")), tm.sym("&L_ss_ptrs", "P")), j)
        comps = tm.app("call:Get_ss_comps", (ssj,), "P")
        comp = tm.select(entry_arr(ex, s, ("f", "#vdata", "P")), comps) + i
        nm = tm.app("c_str", (tm.select(entry_arr(ex, s, ("m", "S")), tm.app("call:Get_name", (comp,), "P"), I(0)),), "P")
        pb = events(s, "phase_bsearch")
        if not put(r, "component.phase_looked_up_by_the_component's_name", len(pb) == 1 and pb[0].args[0] is nm, repr([e.args for e in pb])[:200], kind="trace"):
            continue
        cnt0 = fld0(ex, s, "count_unknowns", "I")
        want = {"type": ("I", I(int(hdr_val("SS_MOLES")))), "ss_ptr": ("P", ssj), "ss_comp_ptr": ("P", comp), "ss_comp_number": ("I", i if not twin else I(0)), "phase": ("P", pb[0].result),
                "number": ("I", cnt0), "moles": ("R", tm.app("call:Get_moles", (comp,), "R"))}
        _record(r, "component", ex, s, want, "ss_unknown")
        # the (persistent) phase structure takes the component's stored activity coefficient and mole fraction: ss_ideal() never writes
        # phase->log10_lambda, so this copy (0 for an ideal component, C03.ss_ideal) is what makes an ideal component's activity its mole fraction
        for pf in ("log10_lambda", "log10_fraction_x", "dn", "dnb", "dnc"):
            pw = [ix for ix, v in writes(s, ("f", pf, "R"))]
            if put(r, "component.phase->%s_written_on_the_component's_phase" % pf, any(ix == (pb[0].result,) for ix in pw), repr(pw)[:160], kind="frame"):
                eqr(r, "component.phase->%s==component's_%s" % (pf, pf), list(s.pc), tm.select(ex.heap_arr(s, ("f", pf, "R")), pb[0].result), tm.app("call:Get_" + pf, (comp,), "R"))
        sm = [e for e in U.iter_events(s) if e.name.endswith("Set_moles")]
        for hc, empty in cases(list(s.pc), tm.le(tm.app("call:Get_moles", (comp,), "R"), tm.num(0))):
            if empty:
                put(r, "component.without_moles_gets_the_minimum_amount_not_a_negative_one", len(sm) == 1 and sm[0].recv is comp and sm[0].args[0] is fld0(ex, s, "MIN_TOTAL_SS", "R"), repr([(e.recv, e.args) for e in sm])[:200], kind="trace")
            else:
                put(r, "component.with_moles_keeps_them", not sm, repr([(e.recv, e.args) for e in sm])[:200], kind="frame")
        if n == 1:
            b = [p for p in s.pc if i in tm.subterms(p) and "#vsize" in repr(p)]
            valid(r, "loop.covers_every_component_of_solid_solution_j", [], tm.eq(tm.to_bool(b[0]) if b else tm.FALSE, tm.lt(i, tm.select(entry_arr(ex, s, ("f", "#vsize", "I")), comps))), kind="establishment")
    put(r, "reach.components", n >= 2, "%d" % n, kind="vacuity", undecided=True)
    r.assumptions += ["Get_moles() after Set_moles(v) returns v (the engine treats the getter as a function of the component only)", "outer loop over the solid solutions: generic full-traversal head check", "MIN_TOTAL_SS is far below the property's tolerance"]
    return r


def unit_setup_surface_sites(twin=False):
    q = "Phreeqc::setup_surface"
    fn = A.find_function(PREP, q)
    r = U.new_unit("C03.setup_surface.one_SURFACE_unknown_per_surface_master_with_the_defined_sites", PREP, q, fn)
    # the statement group that fills the mass-balance unknown: from `master_ptr->in = TRUE` .. first `count_unknowns++` of the body that sets type = SURFACE
    st = ifs_with_then(fn, PREP, "surface_unknown=")
    if len(st) != 1:
        raise Undecided("the branch that records the first surface unknown was not found (%d)" % len(st))
    body = [x for x in A.walk(fn) if x.get("kind") == "CompoundStmt" and any(y is st[0] for y in x.get("inner", []))]
    if len(body) != 1:
        raise Undecided("block around the SURFACE unknown set-up not found")
    sibs = body[0]["inner"]
    k0 = next(k for k, y in enumerate(sibs) if y is st[0])
    start = k0
    while start > 0 and sibs[start - 1].get("kind") not in ("IfStmt", "DeclStmt", "ForStmt", "WhileStmt"):
        start -= 1            # the straight-line group of assignments and calls that ends with the increment
    end = next((k for k in range(k0, len(sibs)) if text_of(PREP, sibs[k]).rstrip(";") in ("count_unknowns++", "++count_unknowns", "count_unknowns+=1")), None)
    if end is None:
        raise Undecided("increment of count_unknowns after the SURFACE unknown set-up not found")
    f, ex, fin, info = region(PREP, q, sibs[start:end + 1], ctx(functional=FUN))
    n = 0
    for s in lives(fin, ("run",)):
        n += 1
        hy = list(s.pc)
        Uk = vec_elem(ex, s, "x", fld0(ex, s, "count_unknowns", "I"))
        mp = tm.sym("L_master_ptr", "P")
        jit = tm.sym("L_jit", "P")
        sites = fld0(ex, s, "second", "R", tm.app("mnode", (jit,), "P"))
        valid(r, "sites.type_SURFACE", hy, tm.eq(tm.select(ex.heap_arr(s, ("f", "type", "I")), Uk), I(int(hdr_val("SURFACE")))))
        eqr(r, "sites.moles==the_sites_defined_for_this_master", hy, tm.select(ex.heap_arr(s, ("f", "moles", "R")), Uk), sites if not twin else tm.num(0))
        valid(r, "sites.number_is_its_row", hy, tm.eq(tm.select(ex.heap_arr(s, ("f", "number", "I")), Uk), fld0(ex, s, "count_unknowns", "I")))
        valid(r, "sites.master_marked_in_model", hy, tm.eq(tm.select(ex.heap_arr(s, ("f", "in", "I")), mp), I(1)))
        valid(r, "sites.one_unknown_added", hy, tm.eq(fld(ex, s, "count_unknowns", "I"), fld0(ex, s, "count_unknowns", "I") + I(1)))
        # the unknown's master list is [master] and the master points back to the unknown
        lst = tm.app("fld:master", (Uk,), "P")
        ev = [e for e in s.events if e.name in ("vector.operator=", "vector.assign") or e.name.endswith("operator=")]
        back = [(ix, v) for ix, v in writes(s, ("f", "unknown", "P"))]
        put(r, "sites.master_points_back_to_the_new_unknown", len(back) == 1 and proved(hy, tm.eq(back[0][1], Uk)), repr(back)[:200])
        pushes = [e for e in s.events if e.name == "vector.push_back"]
        put(r, "sites.master_list_is_exactly_this_master", len(pushes) == 1 and pushes[0].args[-1] is mp and tm.isnum(pushes[0].args[0]) and pushes[0].args[0].args[0] == 0, repr([(e.name, e.args) for e in s.events])[:300], kind="trace")
        f0 = fld0(ex, s, "surface_unknown", "P")
        for hc, was_null in cases(hy, isnull(f0)):
            valid(r, "sites.surface_unknown_%s" % ("is_the_first_such_unknown" if was_null else "keeps_pointing_to_the_first"), hc, tm.eq(fld(ex, s, "surface_unknown", "P"), Uk if was_null else f0))
    put(r, "reach.site_unknown_paths", n >= 1, "%d" % n, kind="vacuity", undecided=True)
    # the guard: only a surface master that is not yet in the model gets an unknown (a second definition is an error)
    r.assumptions += ["statement contract on the group that fills the mass-balance unknown (located by what it assigns); the potential unknowns (SURFACE_CB*) are C20 territory", "jit->second of a SURF master entry is the number of sites of the component",
                      "the guards before the group (master of type SURF, not yet in the model) and the surrounding loops are not under this contract"]
    return r


UNITS = [
    ("C03.setup_pure_phases.one_PP_unknown_per_phase_bound_to_its_component", unit_setup_pp),
    ("C03.setup_ss_assemblage.one_SS_MOLES_unknown_per_component_bound_to_its_solid_solution", unit_setup_ss),
    ("C03.setup_surface.one_SURFACE_unknown_per_surface_master_with_the_defined_sites", unit_setup_surface_sites),
]
