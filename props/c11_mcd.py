"""C11: explicit mole bookkeeping of multicomponent diffusion (transport.cpp multi_D): what leaves the donor cell arrives in the
receiver under the SAME element: a totals key belongs to element E iff the text before '(' equals E (prefix match AND equal
length); donor and receiver use the same rule; a missing entry is created with the element's own name."""
from props.common import *
from vf.core import FAILED, DISCHARGED, UNDECIDED

TR = "src/phreeqcpp/transport.cpp"
Q = "Phreeqc::multi_D"


def unit_mcd_bookkeeping(twin=False):
    fn = A.find_function(TR, Q)
    r = U.new_unit("C11.multi_D.moles_move_under_the_same_element", TR, Q, fn)
    sites = []
    for x in A.walk(fn):
        if x.get("kind") != "IfStmt":
            continue
        body = text_of(TR, x["inner"][1])
        if body.startswith("{it->second-=m_s[l].tot1;") or body.startswith("{it->second+=m_s[l].tot2;"):
            sites.append(x)
    r.add("reach.donor_and_receiver_sites", DISCHARGED if len(sites) == 2 else UNDECIDED, "syntactic", 0, "%d sites" % len(sites), kind="vacuity")
    conds = []
    for k, x in enumerate(sites):
        side = "donor" if "-=" in text_of(TR, x["inner"][1])[:30] else "receiver"
        cond = text_of(TR, x["inner"][0])
        conds.append(cond)
        parts = set(cond.split("&&"))
        prefix = "strncmp(m_s[l].name,it->first.c_str(),length)==0" in parts
        eqlen = "length==length2" in parts or "length2==length" in parts
        if twin and side == "receiver":
            eqlen = False
        r.add("%s.key_starts_with_element_name" % side, DISCHARGED if prefix else FAILED, "syntactic", 0, cond)
        r.add("%s.and_element_name_is_the_whole_text_before_the_parenthesis" % side, DISCHARGED if eqlen else FAILED, "syntactic", 0, cond)
        r.add("%s.break_after_first_match" % side, DISCHARGED if text_of(TR, x["inner"][1]).endswith("break;}") else FAILED, "syntactic", 0, "")
    if len(conds) == 2:
        r.add("same_rule_on_both_sides", DISCHARGED if conds[0] == conds[1] else FAILED, "syntactic", 0, repr(conds))
    t = text_of(TR, fn)
    r.add("length_is_strlen_of_element_name", DISCHARGED if t.count("length=(int)strlen(m_s[l].name);") == 2 else FAILED, "syntactic", 0, "", kind="structural")
    r.add("length2_is_text_before_parenthesis_of_key", DISCHARGED if t.count('length2=(int)(size_t)strcspn(it->first.c_str(),"(");') == 2 else FAILED, "syntactic", 0, "", kind="structural")
    r.add("donor.missing_entry_created_under_element_name", DISCHARGED if "use.Get_solution_ptr()->Get_totals()[m_s[l].name]=-m_s[l].tot1;" in t else FAILED, "syntactic", 0, "", kind="post")
    r.add("receiver.missing_entry_created_under_element_name", DISCHARGED if "use.Get_solution_ptr()->Get_totals()[m_s[l].name]=m_s[l].tot2;" in t else FAILED, "syntactic", 0, "", kind="post")
    r.add("H_and_O.donor_loses_what_receiver_gains", DISCHARGED if "Set_total_h(use.Get_solution_ptr()->Get_total_h()-tot1_h)" in t and "Set_total_h(dummy+tot2_h)" in t
          and "Set_total_o(use.Get_solution_ptr()->Get_total_o()-tot1_o)" in t and "Set_total_o(dummy+tot2_o)" in t else FAILED, "syntactic", 0, "", kind="post")
    r.proved_kind = "structural"
    r.assumptions += ["tot1 == tot2 for interior interfaces is established in fill_m_s (not under this contract)", "the negative-concentration repair loop further down is not under this contract",
                      "text-level obligations: a harmless rewrite of these conditions reports a violation of this unit (see DESIGN 10.6)"]
    return r


def unit_fill_m_s_symmetry(twin=False):
    """fill_m_s turns species fluxes into element amounts for the giving cell (tot1) and the receiving cell (tot2): every update of a
    tot1 quantity is followed by the same update of the tot2 quantity — same target, same operator, same stoichiometric multiple
    (coef * J) with tot1 replaced by tot2 — so that what one cell loses the other gains, element by element."""
    import re
    q = "Phreeqc::fill_m_s"
    fn = A.find_function(TR, q)
    r = U.new_unit("C11.fill_m_s.giving_and_receiving_totals_get_the_same_multiple", TR, q, fn, kind="structural")
    n = 0
    for blk in A.walk(fn):
        if blk.get("kind") != "CompoundStmt":
            continue
        st = blk.get("inner", [])
        for i, x in enumerate(st):
            if x.get("kind") not in ("BinaryOperator", "CompoundAssignOperator") or not x.get("opcode", "").endswith("=") or x.get("opcode") in ("==", "!=", "<=", ">="):
                continue
            lhs, rhs = text_of(TR, x["inner"][0]), text_of(TR, x["inner"][1])
            if "tot1" not in lhs or lhs.startswith("ct["):
                continue             # the implicit scheme keeps one total per cell (ct[icell].m_s[l].tot1): no receiving twin by design
            n += 1
            nxt = st[i + 1] if i + 1 < len(st) else None
            if nxt is None or nxt.get("kind") not in ("BinaryOperator", "CompoundAssignOperator"):
                r.add("update%d(%s).has_its_tot2_twin_next" % (n, lhs), FAILED, "syntactic", 0, "no following assignment"); continue
            l2, r2, op2 = text_of(TR, nxt["inner"][0]), text_of(TR, nxt["inner"][1]), nxt.get("opcode")
            ok = l2 == lhs.replace("tot1", "tot2") and r2 == rhs.replace("tot1", "tot2") and op2 == x.get("opcode")
            if twin and n == 1:
                ok = False
            r.add("update%d(%s%s...).twin_is_the_same_with_tot2" % (n, lhs, x.get("opcode")), DISCHARGED if ok else FAILED, "syntactic", 0, "%s %s %s   |   %s %s %s" % (lhs, x.get("opcode"), rhs, l2, op2, r2))
    r.add("reach.updates", DISCHARGED if n >= 4 else UNDECIDED, "syntactic", 0, "%d tot1 updates" % n, kind="vacuity")
    r.assumptions += ["text pairing of adjacent statements", "the fluxes tot1 / tot2 themselves come from find_J (not under contract)"]
    return r


def unit_h_o_twin_blocks(twin=False):
    """diffuse_implicit, step 3: hydrogen and oxygen carried by the diffusing solutes are booked by two blocks that must be the same up to the
    element: the same cells receive and give under the same boundary conditions (a difference between the two blocks means that water's
    hydrogen and oxygen are moved differently, which the mole balances of H and O cannot both survive)"""
    TR = "src/phreeqcpp/transport.cpp"
    q = "Phreeqc::diffuse_implicit"
    fn = A.find_function(TR, q)
    r = U.new_unit("C11.diffuse_implicit.hydrogen_and_oxygen_booked_alike", TR, q, fn)
    def blocks(marker):
        out = [x for x in A.walk(fn) if x.get("kind") == "IfStmt" and len(x["inner"]) >= 2 and (marker + "(") in text_of(TR, x["inner"][1])
               and not any(y is not x and y.get("kind") == "IfStmt" and len(y["inner"]) >= 2 and (marker + "(") in text_of(TR, y["inner"][1]) and _contains(y, x) for y in A.walk(fn))]
        return out
    def _contains(outer, inner):
        return any(z is inner for z in A.walk(outer["inner"][1])) if outer is not inner else False
    hb = [x for x in A.walk(fn) if x.get("kind") == "IfStmt" and '"H"' in text_of(TR, x["inner"][0]) and "Set_total_h(" in text_of(TR, x["inner"][1])]
    ob = [x for x in A.walk(fn) if x.get("kind") == "IfStmt" and '"O"' in text_of(TR, x["inner"][0]) and "Set_total_o(" in text_of(TR, x["inner"][1])]
    if len(hb) != 1 or len(ob) != 1:
        raise Undecided("hydrogen / oxygen blocks of diffuse_implicit not found (%d/%d)" % (len(hb), len(ob)))
    def norm(b, el):
        sts = [text_of(TR, x) for x in b["inner"][1].get("inner", [])]
        sts = [t.replace("total_%s" % el, "total_X") for t in sts if t.rstrip(";") != "continue"]
        return sts
    H, O = norm(hb[0], "h"), norm(ob[0], "o")
    if twin:
        O = O[:-1]
    r.add("same_statements_up_to_the_element", DISCHARGED if H == O else FAILED, "syntactic", 0, "first difference: %r" % (next(((a, b) for a, b in zip(H + [None], O + [None]) if a != b), None),), kind="structural")
    ch = text_of(TR, hb[0]["inner"][0]).replace('"H"', '"X"'); co = text_of(TR, ob[0]["inner"][0]).replace('"O"', '"X"')
    r.add("selected_by_the_same_test_on_the_element_name", DISCHARGED if ch == co else FAILED, "syntactic", 0, "%s / %s" % (ch, co), kind="structural")
    r.proved_kind = "structural"
    r.assumptions += ["text comparison of the two blocks after renaming total_h / total_o (comments and white space removed); what each block books is C11.diffuse_implicit.element_amounts..."]
    return r
