"""C15: extensive / intensive separation in cxxSolution (Solution.cxx): add(addee, f) adds f x every amount of the addee and
replaces every state variable by the water-mass-weighted mean (weights f1 + f2 = 1, so mixing a solution with itself leaves them
unchanged); multiply(f) scales every amount and no state variable."""
import sympy
from props.common import *
from vf.core import FAILED, DISCHARGED, UNDECIDED

SOL = "src/phreeqcpp/Solution.cxx"
EXT = ["total_h", "total_o", "cb", "mass_water", "soln_vol", "total_alkalinity"]
INT = ["tc", "ph", "pe", "mu", "ah2o", "density", "viscosity", "viscos_0", "patm"]


def _stores_on_this(s):
    """member -> value of the (single) logged store to this-><member>; a member stored twice is reported under '<member>#2'"""
    out = {}
    for e in s.events:
        if e.name == "store" and e.recv is THIS and e.args and e.args[0].op == "str":
            m = e.args[0].args[0].strip('"')
            out[m if m not in out else m + "#2"] = e.args[1]
    return out


def unit_solution_add(twin=False):
    q = "cxxSolution::add"
    fn = A.find_function(SOL, q, nparams=2)
    r = U.new_unit("C15.Solution.add.amounts_add_state_variables_average", SOL, q, fn)
    c = ctx(); c.loop = lambda ex, st, n, o: ex.havoc_loop(n, st); c.log_stores = True
    f, ex, fin, info = U.run_function(SOL, q, ctx=c, find_kw={"nparams": 2})
    other = tm.sym("P0_addee", "P"); e = tm.sym("P1_extensive", "R")
    n = 0
    for s in [s for s in fin if s.status in ("ret", "run") and B.z3_sat(list(s.pc)) != "unsat"]:
        zero = B.z3_prove(list(s.pc), tm.eq(e, tm.num(0)))[0] == "proved"
        if zero:
            r.add("factor_0.changes_nothing", DISCHARGED if not s.events else FAILED, "symex", 0, "", kind="frame")
            continue
        n += 1
        H0 = lambda name, obj: tm.select(tm.sym("H0.%s:R" % name, ("A", "P", "R")), obj)
        mw1, mw2 = H0("mass_water", THIS), H0("mass_water", other)
        f1 = mw1 / (mw1 + mw2 * e); f2 = mw2 * e / (mw1 + mw2 * e)
        ok12, _, _ = B.sympy_equal(f1 + f2, tm.num(1))
        r.add("weights.f1+f2==1", DISCHARGED if ok12 else FAILED, "sympy.cancel", 0, "")
        first = _stores_on_this(s)
        for m in EXT:
            if m not in first:
                r.add("amount.%s_updated" % m, FAILED, "symex", 0, "not written"); continue
            U.discharge_eq_real(r, "amount.%s+=addee*factor" % m, list(s.pc), first[m], H0(m, THIS) + H0(m, other) * (e if not (twin and m == "cb") else tm.num(1)))
        for m in INT:
            if m not in first:
                r.add("state.%s_updated" % m, FAILED, "symex", 0, "not written"); continue
            U.discharge_eq_real(r, "state.%s==water_weighted_mean" % m, list(s.pc), first[m], f1 * H0(m, THIS) + f2 * H0(m, other))
        extra = sorted(set(first) - set(EXT) - set(INT))
        r.add("frame.no_other_scalar_member_written", DISCHARGED if not extra else FAILED, "symex", 0, repr(extra), kind="frame")
        ev = [x for x in s.events if x.name.endswith("add_extensive")]
        okt = len(ev) == 1 and ev[0].args[-1] is e
        r.add("totals.add_extensive(addee.totals, factor)", DISCHARGED if okt else FAILED, "trace", 0, repr([x.args for x in ev])[:200], kind="trace")
    r.add("reach.nonzero_factor", DISCHARGED if n >= 1 else UNDECIDED, "symex", 0, "%d" % n, kind="vacuity")
    r.assumptions += ["the species / gamma / molality maps, isotopes and master activities (add_log_activities, add_intensive) are opaque here", "potV is deliberately not averaged (commented out in the source)", "doubles as reals"]
    return r


def unit_solution_multiply(twin=False):
    q = "cxxSolution::multiply"
    fn = A.find_function(SOL, q)
    r = U.new_unit("C15.Solution.multiply.scales_amounts_only", SOL, q, fn)
    c = ctx(); c.log_stores = True
    f, ex, fin, info = U.run_function(SOL, q, ctx=c)
    e = tm.sym("P0_extensive", "R")
    n = 0
    for s in [s for s in fin if s.status in ("ret", "run") and B.z3_sat(list(s.pc)) != "unsat"]:
        first = _stores_on_this(s)
        trivial = B.z3_prove(list(s.pc), tm.or_(tm.eq(e, tm.num(0)), tm.eq(e, tm.num(1))))[0] == "proved"
        if trivial:
            r.add("factor_0_or_1.changes_nothing", DISCHARGED if not first and not s.events else FAILED, "symex", 0, repr(first)[:100], kind="frame")
            continue
        n += 1
        for m in EXT:
            if m not in first:
                r.add("amount.%s_scaled" % m, FAILED, "symex", 0, "not written"); continue
            U.discharge_eq_real(r, "amount.%s*=factor" % m, list(s.pc), first[m], tm.select(tm.sym("H0.%s:R" % m, ("A", "P", "R")), THIS) * (e if not twin else e * e))
        extra = sorted(set(first) - set(EXT))
        r.add("state_variables_untouched", DISCHARGED if not extra else FAILED, "symex", 0, repr(extra), kind="frame")
        names = [x.name.split("::")[-1] for x in s.events]
        r.add("totals_and_isotopes_scaled", DISCHARGED if "multiply" in names and "Multiply_isotopes" in names else FAILED, "trace", 0, repr(names), kind="trace")
    r.add("reach.scaling", DISCHARGED if n >= 1 else UNDECIDED, "symex", 0, "%d" % n, kind="vacuity")
    r.assumptions += ["a factor of exactly 0 is treated as 'leave unchanged' by the source (early return)"]
    return r
