"""C02: writing the solved system back (mainsubs.cpp) keeps what add_* will read next step:
xsolution_save stores each model accumulator through the setter whose getter add_solution reads it back with; the totals map gets
each master's total; xsurface_save stores a charge balance for every surface type whose charge add_surface adds to the system."""
from props.common import *
from vf.core import FAILED, DISCHARGED, UNDECIDED
from vf.astvc import hdr

MS = "src/phreeqcpp/mainsubs.cpp"
STEP = "src/phreeqcpp/step.cpp"
GS = "src/phreeqcpp/global_structures.h"


def unit_xsolution_save(twin=False):
    from props.C02 import ACC
    q = "Phreeqc::xsolution_save"
    fn = A.find_function(MS, q)
    r = U.new_unit("C02.xsolution_save.saves_what_add_solution_reads", MS, q, fn)
    calls = {}
    for x in A.walk(fn):
        if x.get("kind") == "CXXMemberCallExpr":
            me = strip(x["inner"][0])
            if me.get("kind") == "MemberExpr" and me.get("name", "").startswith("Set_") and len(x["inner"]) == 2:
                base = strip(me["inner"][0])
                if base.get("referencedDecl", {}).get("name") == "temp_solution":
                    arg = strip(x["inner"][1])
                    calls.setdefault(me["name"], []).append(arg.get("name") if arg.get("kind") == "MemberExpr" and strip(arg["inner"][0]).get("kind") == "CXXThisExpr" else text_of(MS, arg))
    n = 0
    for member, (getter, kind) in sorted(ACC.items()):
        setter = "Set_" + getter[4:]
        got = calls.get(setter)
        if twin and member == "cb_x":
            got = ["total_alkalinity"]
        if not got:
            if kind == "ext":
                r.add("scalar.%s_saved" % member, FAILED, "syntactic", 0, "no call temp_solution.%s(...)" % setter)
            continue
        n += 1
        r.add("scalar.%s(%s)" % (setter, member), DISCHARGED if got == [member] else FAILED, "syntactic", 0, "argument(s) %r" % (got,), kind="post")
    r.add("reach.scalars", DISCHARGED if n >= 8 else UNDECIDED, "syntactic", 0, "%d" % n, kind="vacuity")
    # totals loop
    k = loop_ordinal(fn, MS, init_text="inti=0", cond_text="i<(int)master.size()")
    c = ctx(functional=("Get_totals", "Get_master_activity")); c.stl.map_like.add("cxxNameDouble")
    f, ex, its, info = U.run_loop_isolated(MS, q, k, ctx=c)
    EX, SURF, PSI = hdr.define_value(GS, "EX"), hdr.define_value(GS, "SURF"), hdr.define_value(GS, "SURF_PSI")
    saved = skipped = 0
    for s in live(its, ("run", "cont")):
        mi = vec_elem(ex, s, "master", tm.sym("iter_i", "I"))
        sp = fld0(ex, s, "s", "P", mi); ty = fld0(ex, s, "type", "I", sp)
        tot = tm.select(entry_arr(ex, s, ("f", "total", "R")), mi)
        aqueous = tm.and_(tm.not_(tm.eq(ty, tm.num(EX, "I"))), tm.not_(tm.eq(ty, tm.num(SURF, "I"))), tm.not_(tm.eq(ty, tm.num(PSI, "I"))),
                          tm.not_(tm.eq(sp, fld0(ex, s, "s_hplus", "P"))), tm.not_(tm.eq(sp, fld0(ex, s, "s_h2o", "P"))))
        present = tm.lt(fld0(ex, s, "MIN_TOTAL", "R"), tot)
        hy = list(s.pc)
        tw = [(ix, v) for ix, v in writes(s, ("m2", "#mval", "R", "S")) if "Get_totals" in repr(ix[0])]
        if B.z3_prove(hy, tm.and_(aqueous, present))[0] == "proved":
            saved += 1
            if len(tw) != 1:
                r.add("totals.element_saved_once", FAILED, "symex", 0, repr(tw)[:200]); continue
            (mp, key), val = tw[0]
            name = tm.app("string_of", (fld0(ex, s, "name", "P", fld0(ex, s, "elt", "P", mi)),), "S")
            r.add("totals.key_is_the_master's_element_name", DISCHARGED if key == name else FAILED, "syntactic", 0, repr(key)[:160], kind="post")
            U.discharge_eq_real(r, "totals.value==master_total", hy, val, tot if not twin else tot + tot)
        elif B.z3_prove(hy, tm.not_(tm.and_(aqueous, present)))[0] == "proved":
            skipped += 1
            r.add("totals.others_save_nothing", DISCHARGED if not tw else FAILED, "symex", 0, repr(tw)[:160], kind="frame")
        else:
            r.add("totals.case_decided", UNDECIDED, "z3", 0, repr(s.pc)[:300])
    r.add("reach.totals", DISCHARGED if saved and skipped else UNDECIDED, "symex", 0, "%d saving, %d skipping paths" % (saved, skipped), kind="vacuity")
    r.assumptions += ["setters/getters of cxxSolution are plain field accessors (C10 covers their serialisation)", "isotopes, species maps and the Pitzer gamma list are not under this contract"]
    return r


def _types_compared(cond):
    return sorted({y.get("referencedDecl", {}).get("name") for y in A.walk(cond) if y.get("kind") == "DeclRefExpr" and y.get("referencedDecl", {}).get("kind") == "EnumConstantDecl"})


def unit_xsurface_save(twin=False):
    q = "Phreeqc::xsurface_save"
    fn = A.find_function(MS, q)
    r = U.new_unit("C02.xsurface_save.charge_saved_for_every_type_add_surface_reads", MS, q, fn)
    # which surface types does add_surface read a charge's charge balance for?
    fa = A.find_function(STEP, "Phreeqc::add_surface")
    types = None
    for x in A.walk(fa):
        if x.get("kind") == "IfStmt":
            body = x["inner"][1]
            direct = [y for y in A.walk(body) if y.get("kind") == "CXXMemberCallExpr" and strip(y["inner"][0]).get("name") == "Get_charge_balance"
                      and "charge" in text_of(STEP, strip(strip(y["inner"][0])["inner"][0]))]
            if direct and any(strip(y["inner"][0]).get("name") == "Get_type" for y in A.walk(x["inner"][0]) if y.get("kind") == "CXXMemberCallExpr"):
                types = _types_compared(x["inner"][0])
    if not types:
        raise Undecided("add_surface: guarded read of the charge's charge balance not found")
    r.add("add_surface.reads_charge_balance_for", DISCHARGED, "syntactic", 0, repr(types), kind="structural")
    if twin:
        types = types + ["NO_EDL"]
    ev = A.enum_values_compiled("Phreeqc.h", ["cxxSurface::" + t for t in types])
    SCB = hdr.define_value(GS, "SURFACE_CB")
    k = loop_ordinal(fn, MS, init_text="inti=0", cond_text="i<count_unknowns")
    c = ctx(functional=("Get_surface_ptr", "Get_type", "Find_charge", "Find_comp", "Get_sigma0", "Get_sigma1", "Get_sigma2", "Get_sigmaddl", "Get_specific_area", "Get_grams"))
    c.enum_values.update({k_.split("::")[-1]: v for k_, v in ev.items()})
    c.loop = lambda ex, st, n, o: ex.havoc_loop(n, st)
    f, ex, its, info = U.run_loop_isolated(MS, q, k, ctx=c)
    paths = live(its, ("run", "cont"))
    for t in types:
        n = 0
        for s in paths:
            xi = vec_elem(ex, s, "x", tm.sym("iter_i", "I"))
            tyev = [e.result for e in s.events if e.name.endswith("Get_type")]
            fc = [e.result for e in s.events if e.name.endswith("Find_charge")]
            if not tyev:
                continue
            hyp = [tm.eq(fld0(ex, s, "type", "I", xi), tm.num(SCB, "I")), tm.eq(tyev[0], tm.num(ev["cxxSurface::" + t], "I"))] + [tm.not_(tm.eq(p, tm.num(0, "P"))) for p in fc]
            if B.z3_sat(list(s.pc) + hyp) == "unsat":
                continue
            n += 1
            sets = [e for e in U.iter_events(s) if e.name.endswith("Set_charge_balance") and fc and e.recv == fc[0]]
            r.add("%s.charge_balance_saved" % t, DISCHARGED if sets else FAILED, "symex", 0, "Set_charge_balance on the found charge: %d call(s)" % len(sets))
            if sets and t in ("DDL", "CCM"):
                U.discharge_eq_real(r, "%s.saved_charge_balance==unknown's_sum_f" % t, list(s.pc) + hyp, sets[-1].args[0], fld0(ex, s, "f", "R", xi))
        if n == 0:
            r.add("%s.charge_balance_saved" % t, FAILED, "symex+z3", 0, "no path of the save loop handles a SURFACE_CB unknown of a %s surface" % t)
    r.assumptions += ["Find_charge / setters are not under contract; a charge that is not found (transport with different surfaces) is skipped by design",
                      "diffuse-layer totals (sum_diffuse_layer) are not under this contract"]
    return r
