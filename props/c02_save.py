"""C02: writing the solved system back (mainsubs.cpp) keeps what add_* will read next step:
xsolution_save stores each model accumulator through the setter whose getter add_solution reads it back with; the totals map gets
each master's total; xsurface_save stores a charge balance for every surface type whose charge add_surface adds to the system."""
from props.common import *
from vf.core import FAILED, DISCHARGED, UNDECIDED
from vf.astvc import hdr

MS = "src/phreeqcpp/mainsubs.cpp"
STEP = "src/phreeqcpp/step.cpp"
GS = "src/phreeqcpp/global_structures.h"


def unit_xsolution_save(twin=False):
    from props.C02 import ACC
    q = "Phreeqc::xsolution_save"
    fn = A.find_function(MS, q)
    r = U.new_unit("C02.xsolution_save.saves_what_add_solution_reads", MS, q, fn)
    calls = {}
    for x in A.walk(fn):
        if x.get("kind") == "CXXMemberCallExpr":
            me = strip(x["inner"][0])
            if me.get("kind") == "MemberExpr" and me.get("name", "").startswith("Set_") and len(x["inner"]) == 2:
                base = strip(me["inner"][0])
                if base.get("referencedDecl", {}).get("name") == "temp_solution":
                    arg = strip(x["inner"][1])
                    calls.setdefault(me["name"], []).append(arg.get("name") if arg.get("kind") == "MemberExpr" and strip(arg["inner"][0]).get("kind") == "CXXThisExpr" else text_of(MS, arg))
    n = 0
    for member, (getter, kind) in sorted(ACC.items()):
        setter = "Set_" + getter[4:]
        got = calls.get(setter)
        if twin and member == "cb_x":
            got = ["total_alkalinity"]
        if not got:
            if kind == "ext":
                r.add("scalar.%s_saved" % member, FAILED, "syntactic", 0, "no call temp_solution.%s(...)" % setter)
            continue
        n += 1
        r.add("scalar.%s(%s)" % (setter, member), DISCHARGED if got == [member] else FAILED, "syntactic", 0, "argument(s) %r" % (got,), kind="post")
    r.add("reach.scalars", DISCHARGED if n >= 8 else UNDECIDED, "syntactic", 0, "%d" % n, kind="vacuity")
    # totals loop
    k = loop_ordinal(fn, MS, init_text="inti=0", cond_text="i<(int)master.size()")
    c = ctx(functional=("Get_totals", "Get_master_activity")); c.stl.map_like.add("cxxNameDouble")
    f, ex, its, info = U.run_loop_isolated(MS, q, k, ctx=c)
    EX, SURF, PSI = hdr.define_value(GS, "EX"), hdr.define_value(GS, "SURF"), hdr.define_value(GS, "SURF_PSI")
    saved = skipped = 0
    for s in live(its, ("run", "cont")):
        mi = vec_elem(ex, s, "master", tm.sym("iter_i", "I"))
        sp = fld0(ex, s, "s", "P", mi); ty = fld0(ex, s, "type", "I", sp)
        tot = tm.select(entry_arr(ex, s, ("f", "total", "R")), mi)
        aqueous = tm.and_(tm.not_(tm.eq(ty, tm.num(EX, "I"))), tm.not_(tm.eq(ty, tm.num(SURF, "I"))), tm.not_(tm.eq(ty, tm.num(PSI, "I"))),
                          tm.not_(tm.eq(sp, fld0(ex, s, "s_hplus", "P"))), tm.not_(tm.eq(sp, fld0(ex, s, "s_h2o", "P"))))
        present = tm.lt(fld0(ex, s, "MIN_TOTAL", "R"), tot)
        hy = list(s.pc)
        tw = [(ix, v) for ix, v in writes(s, ("m2", "#mval", "R", "S")) if "Get_totals" in repr(ix[0])]
        for hy, saves in cases(hy, tm.and_(aqueous, present)):
            if saves:
                saved += 1
                if len(tw) != 1:
                    r.add("totals.element_saved_once", FAILED, "symex", 0, repr(tw)[:200]); continue
                (mp, key), val = tw[0]
                name = tm.app("string_of", (fld0(ex, s, "name", "P", fld0(ex, s, "elt", "P", mi)),), "S")
                r.add("totals.key_is_the_master's_element_name", DISCHARGED if key == name else FAILED, "syntactic", 0, repr(key)[:160], kind="post")
                U.discharge_eq_real(r, "totals.value==master_total", hy, val, tot if not twin else tot + tot)
            else:
                skipped += 1
                r.add("totals.others_save_nothing", DISCHARGED if not tw else FAILED, "symex", 0, repr(tw)[:160], kind="frame")
    r.add("reach.totals", DISCHARGED if saved and skipped else UNDECIDED, "symex", 0, "%d saving, %d skipping paths" % (saved, skipped), kind="vacuity")
    r.assumptions += ["setters/getters of cxxSolution are plain field accessors (C10 covers their serialisation)", "isotopes, species maps and the Pitzer gamma list are not under this contract"]
    return r


def _types_compared(cond):
    return sorted({y.get("referencedDecl", {}).get("name") for y in A.walk(cond) if y.get("kind") == "DeclRefExpr" and y.get("referencedDecl", {}).get("kind") == "EnumConstantDecl"})


def unit_xsurface_save(twin=False):
    q = "Phreeqc::xsurface_save"
    fn = A.find_function(MS, q)
    r = U.new_unit("C02.xsurface_save.charge_saved_for_every_type_add_surface_reads", MS, q, fn)
    # which surface types does add_surface read a charge's charge balance for?
    fa = A.find_function(STEP, "Phreeqc::add_surface")
    types = None
    for x in A.walk(fa):
        if x.get("kind") == "IfStmt":
            body = x["inner"][1]
            direct = [y for y in A.walk(body) if y.get("kind") == "CXXMemberCallExpr" and strip(y["inner"][0]).get("name") == "Get_charge_balance"
                      and "charge" in text_of(STEP, strip(strip(y["inner"][0])["inner"][0]))]
            if direct and any(strip(y["inner"][0]).get("name") == "Get_type" for y in A.walk(x["inner"][0]) if y.get("kind") == "CXXMemberCallExpr"):
                types = _types_compared(x["inner"][0])
    if not types:
        raise Undecided("add_surface: guarded read of the charge's charge balance not found")
    r.add("add_surface.reads_charge_balance_for", DISCHARGED, "syntactic", 0, repr(types), kind="structural")
    if twin:
        types = types + ["NO_EDL"]
    ev = A.enum_values_compiled("Phreeqc.h", ["cxxSurface::" + t for t in types])
    SCB = hdr.define_value(GS, "SURFACE_CB")
    k = loop_ordinal(fn, MS, init_text="inti=0", cond_text="i<count_unknowns")
    c = ctx(functional=("Get_surface_ptr", "Get_type", "Find_charge", "Find_comp", "Get_sigma0", "Get_sigma1", "Get_sigma2", "Get_sigmaddl", "Get_specific_area", "Get_grams"))
    c.enum_values.update({k_.split("::")[-1]: v for k_, v in ev.items()})
    c.loop = lambda ex, st, n, o: ex.havoc_loop(n, st)
    f, ex, its, info = U.run_loop_isolated(MS, q, k, ctx=c)
    paths = live(its, ("run", "cont"))
    for t in types:
        n = 0
        for s in paths:
            xi = vec_elem(ex, s, "x", tm.sym("iter_i", "I"))
            tyev = [e.result for e in s.events if e.name.endswith("Get_type")]
            fc = [e.result for e in s.events if e.name.endswith("Find_charge")]
            if not tyev:
                continue
            hyp = [tm.eq(fld0(ex, s, "type", "I", xi), tm.num(SCB, "I")), tm.eq(tyev[0], tm.num(ev["cxxSurface::" + t], "I"))] + [tm.not_(tm.eq(p, tm.num(0, "P"))) for p in fc]
            if B.z3_sat(list(s.pc) + hyp) == "unsat":
                continue
            n += 1
            sets = [e for e in U.iter_events(s) if e.name.endswith("Set_charge_balance") and fc and e.recv == fc[0]]
            r.add("%s.charge_balance_saved" % t, DISCHARGED if sets else FAILED, "symex", 0, "Set_charge_balance on the found charge: %d call(s)" % len(sets))
            if sets and t in ("DDL", "CCM"):
                U.discharge_eq_real(r, "%s.saved_charge_balance==unknown's_sum_f" % t, list(s.pc) + hyp, sets[-1].args[0], fld0(ex, s, "f", "R", xi))
        if n == 0:
            r.add("%s.charge_balance_saved" % t, FAILED, "symex+z3", 0, "no path of the save loop handles a SURFACE_CB unknown of a %s surface" % t)
    r.assumptions += ["Find_charge / setters are not under contract; a charge that is not found (transport with different surfaces) is skipped by design",
                      "diffuse-layer totals (sum_diffuse_layer) are not under this contract"]
    return r


def _header_ok(r, rel, q, var, mapname, setptr, n_end=True):
    fn = A.find_function(rel, q)
    t = text_of(rel, A.body_of(fn))
    r.add("saved_under_n_user(Set_n_user,Set_n_user_end,new_def=false)", DISCHARGED if ("%s.Set_n_user(n_user);" % var) in t and ("%s.Set_n_user_end(n_user);" % var) in t and ("%s.Set_new_def(false);" % var) in t else FAILED, "syntactic", 0, "", kind="structural")
    r.add("stored_in_%s[n_user]" % mapname, DISCHARGED if ("%s[n_user]=%s;" % (mapname, var)) in t else FAILED, "syntactic", 0, "", kind="structural")
    r.add("working_pointer_released(%s(NULL))" % setptr, DISCHARGED if ("use.%s(NULL);" % setptr) in t else FAILED, "syntactic", 0, "", kind="structural")
    return fn


def unit_xpp_save(twin=False):
    q = "Phreeqc::xpp_assemblage_save"
    r = U.new_unit("C02.xpp_assemblage_save.every_phase_gets_its_solved_amount", MS, q, A.find_function(MS, q))
    fn = _header_ok(r, MS, q, "temp_pp_assemblage", "Rxn_pp_assemblage_map", "Set_pp_assemblage_ptr")
    k = loop_ordinal(fn, MS, init_text="intj=0", cond_text="j<count_unknowns")
    c = ctx(functional=("Find",))
    f, ex, its, info = U.run_loop_isolated(MS, q, k, ctx=c)
    PP = hdr.define_value(GS, "PP")
    np_ = no = 0
    for s in live(its, ("run", "cont")):
        xj = vec_elem(ex, s, "x", tm.sym("iter_j", "I"))
        ispp = tm.eq(fld0(ex, s, "type", "I", xj), tm.num(PP, "I"))
        evs = U.iter_events(s)
        sets = [e for e in evs if e.name.endswith("Set_moles")]
        if B.z3_prove(list(s.pc), ispp)[0] == "proved":
            np_ += 1
            finds = [e for e in evs if e.name.endswith("::Find")]
            okf = len(finds) == 1 and fld0(ex, s, "pp_assemblage_comp_name", "P", xj) in tm.subterms(tm.and_(*[tm.eq(a, a) for a in finds[0].args if hasattr(a, "op")] or [tm.TRUE])) or (len(finds) == 1 and "pp_assemblage_comp_name" in repr(finds[0].args))
            r.add("phase.component_found_by_the_unknown's_own_name", DISCHARGED if okf else FAILED, "trace", 0, repr([e.args for e in finds])[:160], kind="trace")
            want = fld0(ex, s, "moles", "R", xj)
            okm = len(sets) == 1 and finds and sets[0].recv is finds[0].result and (sets[0].args[0] is want) and not twin
            r.add("phase.saved_moles==solved_moles_of_the_unknown", DISCHARGED if okm else FAILED, "trace", 0, repr([e.args for e in sets])[:160], kind="trace")
            dl = [e for e in evs if e.name.endswith("Set_delta")]
            r.add("phase.pending_delta_cleared", DISCHARGED if len(dl) == 1 and tm.isnum(dl[0].args[0]) and dl[0].args[0].args[0] == 0 else FAILED, "trace", 0, "", kind="trace")
        elif B.z3_prove(list(s.pc), tm.not_(ispp))[0] == "proved":
            no += 1
            r.add("other_unknowns_touch_nothing", DISCHARGED if not sets else FAILED, "trace", 0, "", kind="frame")
    r.add("reach.loop", DISCHARGED if np_ and no else UNDECIDED, "symex", 0, "%d/%d" % (np_, no), kind="vacuity")
    r.assumptions += ["cxxPPassemblage::Find(name) returns the component of that name (not under contract)", "text anchors for the three header obligations"]
    return r


def unit_xgas_save(twin=False):
    q = "Phreeqc::xgas_save"
    r = U.new_unit("C02.xgas_save.components_get_solved_moles_pressure_fugacity", MS, q, A.find_function(MS, q))
    fn = _header_ok(r, MS, q, "temp_gas_phase", "Rxn_gas_phase_map", "Set_gas_phase_ptr")
    k = loop_ordinal(fn, MS, init_text="size_ti=0", cond_text="i<temp_gas_phase.Get_gas_comps().size()")
    c = ctx(functional=("phase_bsearch", "Get_gas_comps", "Get_phase_name", "c_str"))
    f, ex, its, info = U.run_loop_isolated(MS, q, k, ctx=c)
    n = 0
    for s in live(its, ("run", "cont")):
        n += 1
        evs = U.iter_events(s)
        ph = [e.result for e in evs if e.name.endswith("phase_bsearch")]
        if len(ph) != 1:
            r.add("component.phase_looked_up_once", FAILED, "trace", 0, ""); continue
        P = ph[0]
        get = lambda nm: [e.args[0] for e in evs if e.name.endswith("::" + nm)]
        mx, ps, phi = fld0(ex, s, "moles_x", "R", P), fld0(ex, s, "p_soln_x", "R", P), fld0(ex, s, "pr_phi", "R", P)
        PR = local(info, s, "PR")
        isPR = B.z3_prove(list(s.pc), tm.to_bool(PR))[0] == "proved"
        r.add("component.moles==phase.moles_x", DISCHARGED if get("Set_moles") == [mx] else FAILED, "trace", 0, repr(get("Set_moles"))[:100], kind="trace")
        # the partial pressure stored is the solved one for a component that is in the model and 0 for one that is not (whatever p_soln_x still holds)
        inm = tm.eq(fld0(ex, s, "in", "I", P), tm.num(1, "I"))
        sp = get("Set_p")
        okp = len(sp) == 1
        okf = True
        fs = get("Set_f"); ph_ = get("Set_phi")
        for hy, present in cases(list(s.pc), inm):
            want_p = ps if present else tm.num(0, "R")
            _eq = lambda a_, b_: a_ is b_ or B.z3_prove(hy, tm.eq(a_, b_))[0] == "proved"
            if okp and not _eq(sp[0], want_p):
                okp = False
            want_f = (want_p * phi if not twin else want_p) if isPR else want_p
            if len(fs) != 1 or not _eq(fs[0], want_f):
                okf = False
        r.add("component.pressure==phase.p_soln_x(in_the_model)_or_0(not_in_the_model)", DISCHARGED if okp else FAILED, "sympy", 0, repr(sp)[:100], kind="trace")
        if isPR:
            okphi = ph_ == [phi]
        else:
            okphi = len(ph_) == 1 and tm.isnum(ph_[0]) and ph_[0].args[0] == 1
        r.add("component.phi(%s)" % ("Peng-Robinson" if isPR else "ideal=1"), DISCHARGED if okphi else FAILED, "trace", 0, repr(ph_)[:100], kind="trace")
        r.add("component.fugacity==p*phi(%s)" % ("Peng-Robinson" if isPR else "ideal"), DISCHARGED if okf else FAILED, "sympy", 0, repr(fs)[:100])
    r.add("reach.loop", DISCHARGED if n >= 2 else UNDECIDED, "symex", 0, "%d" % n, kind="vacuity")
    r.assumptions += ["phase_bsearch finds the phase of the component's name (not under contract)"]
    return r


def unit_xexchange_save(twin=False):
    q = "Phreeqc::xexchange_save"
    r = U.new_unit("C02.xexchange_save.sites_get_sorbed_amounts_and_charge", MS, q, A.find_function(MS, q))
    fn = _header_ok(r, MS, q, "temp_exchange", "Rxn_exchange_map", "Set_exchange_ptr")
    # inner loop: every species of the site's master adds its elements x moles and its charge x moles
    k = loop_ordinal(fn, MS, init_text="j=0", cond_text="j<species_list.size()")
    f, ex, its, info = U.run_loop_isolated(MS, q, k, ctx=ctx())
    hit = miss = 0
    for s in live(its, ("run", "cont")):
        data = tm.select(entry_arr(ex, s, ("f", "#vdata", "P")), tm.app("fld:species_list", (THIS,), "P"))
        ent = data + tm.sym("iter_j", "I")
        sp = fld0(ex, s, "s", "P", ent)
        xi = vec_elem(ex, s, "x", local(info, s, "i"))
        mine = tm.eq(fld0(ex, s, "master_s", "P", ent), fld0(ex, s, "s", "P", tm.select(entry_arr(ex, s, ("m", "P")), tm.select(entry_arr(ex, s, ("f", "#vdata", "P")), tm.app("fld:master", (xi,), "P")), tm.num(0, "I"))))
        adds = [e for e in U.iter_events(s) if e.name.endswith("add_elt_list")]
        ch = local(info, s, "charge")
        if B.z3_prove(list(s.pc), mine)[0] == "proved":
            hit += 1
            m, z = fld0(ex, s, "moles", "R", sp), fld0(ex, s, "z", "R", sp)
            oka = len(adds) == 1 and adds[0].args[-1] is m
            r.add("species_of_the_site.elements_added_x_moles", DISCHARGED if oka else FAILED, "trace", 0, repr([e.args for e in adds])[:160], kind="trace")
            U.discharge_eq_real(r, "species_of_the_site.charge+=moles*z", list(s.pc), ch, tm.sym("iter_charge", "R") + m * (z if not twin else tm.num(1)))
        elif B.z3_prove(list(s.pc), tm.not_(mine))[0] == "proved":
            miss += 1
            r.add("other_species_add_nothing", DISCHARGED if not adds and ch is tm.sym("iter_charge", "R") else FAILED, "trace", 0, "", kind="frame")
    r.add("reach.species_loop", DISCHARGED if hit and miss else UNDECIDED, "symex", 0, "%d/%d" % (hit, miss), kind="vacuity")
    t = text_of(MS, fn)
    r.add("site.la_saved_from_its_master_species", DISCHARGED if "xcomp.Set_la(x[i]->master[0]->s->la);" in t else FAILED, "syntactic", 0, "", kind="structural")
    r.add("site.charge_and_totals_saved", DISCHARGED if "xcomp.Set_charge_balance(charge);" in t and "xcomp.Set_totals(elt_list_NameDouble());" in t else FAILED, "syntactic", 0, "", kind="structural")
    r.add("site.workspace_cleared_per_site", DISCHARGED if "count_elts=0;paren_count=0;charge=0.0;" in t else FAILED, "syntactic", 0, "", kind="structural")
    r.assumptions += ["add_elt_list / elt_list_NameDouble are under C02.*.formula_workspace units", "text anchors for the site-level obligations"]
    return r


def unit_add_surface_dl(twin=False):
    """add_surface: the diffuse-layer totals that xsurface_save stores for an explicit diffuse layer (dl_type != NO_DL) are added
    back to the reacting system for every such layer type when the surface is re-used (not a new definition)."""
    q = "Phreeqc::add_surface"
    fn = A.find_function(STEP, q)
    r = U.new_unit("C02.add_surface.saved_diffuse_layer_totals_are_added_back", STEP, q, fn)
    # the saver's condition
    fs = A.find_function(MS, "Phreeqc::xsurface_save")
    ts = text_of(MS, fs)
    r.add("xsurface_save.stores_diffuse_layer_totals_iff_dl_type_x!=NO_DL", DISCHARGED if ts.count("if(dl_type_x!=cxxSurface::NO_DL){sum_diffuse_layer(charge_ptr);cxxNameDoublend=elt_list_NameDouble();charge_ptr->Set_diffuse_layer_totals(nd);}") == 2 else FAILED, "syntactic", 0, "", kind="structural")
    k = loop_ordinal(fn, STEP, init_text="size_ti=0", cond_text="i<surface_ptr->Get_surface_charges().size()")
    ev = A.enum_values_compiled("Phreeqc.h", ["cxxSurface::NO_DL", "cxxSurface::BORKOVEK_DL", "cxxSurface::DONNAN_DL"])
    c = ctx(functional=("Get_dl_type", "Get_new_def", "Get_type", "Get_surface_charges", "Get_diffuse_layer_totals", "begin", "end"))
    c.enum_values.update({k_.split("::")[-1]: v for k_, v in ev.items()})
    f, ex, its, info = U.run_loop_isolated(STEP, q, k, ctx=c)
    loops = [x for x in A.walk(fn) if x.get("kind") in ("ForStmt", "WhileStmt", "DoStmt")]
    inner = [j for j, lp in enumerate(loops) if lp.get("kind") == "ForStmt" and "Get_diffuse_layer_totals().begin()" in text_of(STEP, lp["inner"][0] or {})]
    if len(inner) != 1:
        raise Undecided("diffuse-layer totals loop of add_surface not found")
    entries = info["inner_entries"].get(inner[0], [])
    if not entries:
        r.add("diffuse_layer_loop_reachable", FAILED, "symex", 0, ""); return r
    s0 = entries[0]
    dl = [e.result for e in s0.events if e.name.endswith("Get_dl_type")]
    nd = [e.result for e in s0.events if e.name.endswith("Get_new_def")]
    if not dl or not nd:
        r.add("guard_reads_dl_type_and_new_def", FAILED, "symex", 0, ""); return r
    ends = live(its, ("run", "cont"))
    def passed(st):
        return any(all(p in st.pc for p in e.pc) for e in entries)
    for name in ("BORKOVEK_DL", "DONNAN_DL") + (("NO_DL",) if twin else ()):
        n_ok = n_bad = 0
        for st in ends:
            dl_s = [e.result for e in st.events if e.name.endswith("Get_dl_type")]
            nd_s = [e.result for e in st.events if e.name.endswith("Get_new_def")]
            if not dl_s or not nd_s:
                continue
            hyp = [tm.eq(dl_s[0], tm.num(ev["cxxSurface::" + name], "I")), tm.eq(ex.coerce(nd_s[0], "I"), tm.num(0, "I"))]
            if B.z3_sat(list(st.pc) + hyp) == "unsat":
                continue
            if passed(st): n_ok += 1
            else: n_bad += 1
        r.add("%s.re-used_surface.totals_added_back" % name, DISCHARGED if n_ok and not n_bad else FAILED, "symex+z3", 0, "%d paths add the totals, %d paths with such a layer skip them" % (n_ok, n_bad))
    r.add("reach.entries", DISCHARGED, "symex", 0, "%d entry states" % len(entries), kind="vacuity")
    r.assumptions += ["Borkovec-Westall and Donnan are the two explicit layer kinds (enum cxxSurface::DIFFUSE_LAYER_TYPE)", "what the inner loop adds is under C02.step.element_dispatch"]
    return r
