"""C17 extension: PUNCH / SAVE / PRINT item lists and the exec dispatcher."""
from props.c17_ext_model import *
from props.c17_ext_loops import pv

LL = tm.sym("L_LINK", "P")
LINK0 = tm.sym("P0_LINK", "P")


def _fix_kind(k):
    def p(ex, st, names):
        t = F(ex, st, "t", "P", LL)
        key = ("f", "kind", "I")
        st.heap[key] = tm.store(ex.heap_arr(st, key), (t,), tm.num(k, "I"))
    return p


def _item_ctx():
    c = mkctx(); c.model_unsigned = True
    return c


def item_list_dispatch(r, q, k, tag):
    """`while (!iseos) { if (token is ';' or ',') { skip it; continue; } item... }`: for EVERY token kind (executed concretely per kind) the
    token is passed over as a separator exactly when it is a semicolon or a comma; any other token starts an item expression read at
    that position.  Returns the item paths of one representative kind."""
    T = tokens()
    seps = {T["toksemi"], T["tokcomma"]}
    bad = []
    rep = None
    maxk = max(T.values()) + 8
    for kind in range(0, maxk + 1):
        f, ex, its, info = run_iter(q, k, _item_ctx(), prepare=_fix_kind(kind))
        live_ = alive(its)
        if kind in (T["tokelse"], T["tokcolon"]):
            if live_:
                bad.append((kind, "loop entered at an end of statement"))
            continue
        is_sep_path = lambda s: not [e for e in U.iter_events(s) if e.name.split("::")[-1] in PARSERS]
        sp = [s for s in live_ if is_sep_path(s)]
        ip = [s for s in live_ if not is_sep_path(s)]
        if kind in seps:
            t0 = None
            good = len(sp) >= 1 and not ip
            for s in sp:
                t0 = tm.select(entry_arr(ex, s, ("f", "t", "P")), LL)
                wr = sorted(set(kk for kk, _, _ in U.iter_writes(s)) - {("f", "kind", "I")})
                good = good and s.status == "cont" and F(ex, s, "t", "P", LL) is tm.select(entry_arr(ex, s, ("f", "next", "P")), t0) and all(x in (("f", "t", "P"), ("f", "semiflag", "B")) or x[0] != "f" or x == ("f", "t", "P") for x in wr if x[0] == "f" and x[1] in ("n_user_punch_index", "rate_moles", "skip_punch"))
            if not good:
                bad.append((kind, "separator not passed over by exactly one token"))
        else:
            if sp or not ip:
                bad.append((kind, "token treated as a separator" if sp else "no item path"))
            for s in ip:
                pe = [e for e in U.iter_events(s) if e.name.split("::")[-1] in PARSERS]
                if len(pe) != 1 or not pe[0].name.endswith("::expr") or pe[0].args[-1] is not tm.select(entry_arr(ex, s, ("f", "t", "P")), LL):
                    bad.append((kind, "item is not one expression read at the token")); break
            if kind == T["toknum"]:
                rep = (ex, ip, info)
    ok(r, "%s.separator_iff_semicolon_or_comma;any_other_token_starts_one_item_expression(all_%d_token_kinds)" % (tag, maxk + 1), not bad, "%s" % bad[:5], backend="exhaustive-by-kind")
    if rep is None:
        raise Undecided("%s: no item path for a number token" % q)
    return rep


def unit_cmdpunch(twin=False):
    """PUNCH e1, e2; ...: every item expression is evaluated once, in order, and its value (number or string) is handed to the selected-output
    sink for the CURRENT user-punch column, after which the column index advances by one; separators (comma, semicolon) produce nothing.
    An item evaluated while skip_punch is set (NO_NEWLINE$) produces no column and resets the flag."""
    q = "PBasic::cmdpunch"
    fn = A.find_function(PB, q)
    r = U.new_unit("C17.cmdpunch.each_item_goes_to_the_current_column_which_then_advances", PB, q, fn)
    lps = loops_of(fn)
    if len(lps) != 1:
        raise Undecided("cmdpunch: expected one item loop")
    ex, ip, info = item_list_dispatch(r, q, 0, "list")
    n = {"num": 0, "str": 0, "skip": 0}
    for s in ip:
        E = U.iter_events(s)
        e = [x for x in E if x.name.endswith("::expr")][0]
        obj = e.result
        pp = tm.select(entry_arr(ex, s, ("f", "PhreeqcPtr", "P")), THIS)
        idx0 = tm.select(entry_arr(ex, s, ("f", "n_user_punch_index", "I")), pp)
        skip0 = tm.select(entry_arr(ex, s, ("f", "skip_punch", "B")), THIS)
        hy = hyp(s)
        fp = [x for x in E if x.name.endswith("fpunchf_user")]
        isstr = tm.select(entry_arr(ex, s, ("f", "stringval", "B")), obj)
        numv = tm.select(entry_arr(ex, s, ("f", "val", "R")), UUo(obj))
        ok(r, "item.position_moves_behind_the_expression", F(ex, s, "t", "P", LL) is e.snap, "")
        pv(r, "item.skip_flag_is_clear_afterwards", s, tm.not_(F(ex, s, "skip_punch", "B", THIS)))
        idx1 = F(ex, s, "n_user_punch_index", "I", pp)
        if not fp:
            n["skip"] += 1
            U.discharge_valid(r, "item.no_column_only_while_skip_punch_is_set", hy, skip0)
            U.discharge_valid(r, "item.column_index_unchanged_when_nothing_is_punched", hy, tm.eq(idx1, idx0))
            continue
        U.discharge_valid(r, "item.punched_only_while_skip_punch_is_clear", hy, tm.not_(skip0))
        if not ok(r, "item.exactly_one_value_handed_to_the_sink", len(fp) == 1 and len(fp[0].args) == 3, "%d" % len(fp)):
            continue
        U.discharge_valid(r, "item.goes_to_the_current_user_punch_column", hy, tm.eq(fp[0].args[0], idx0 if not twin else idx0 + 1))
        U.discharge_valid(r, "item.column_index_advances_by_one", hy, tm.eq(idx1, idx0 + 1))
        payload = fp[0].args[2]
        if payload.sort == "R":
            n["num"] += 1
            U.discharge_valid(r, "item.numeric_payload_only_for_a_numeric_value", hy, tm.not_(isstr))
            U.discharge_valid(r, "item.numeric_payload_is_the_value_of_the_expression", hy, tm.eq(payload, numv))
            fmt = fp[0].args[1]
            ok(r, "item.numeric_format_is_one_floating_point_conversion", fmt.op == "str" and fmt.args[0].count("%") == 1 and fmt.args[0].strip('"').rstrip("\\t").rstrip("\t")[-1:] in ("e", "g", "f", "E", "G"), repr(fmt))
        else:
            n["str"] += 1
            U.discharge_valid(r, "item.string_payload_only_for_a_string_value", hy, isstr)
            # the string pointer of the expression result (read through the copy in the local record)
            ok(r, "item.string_payload_is_the_string_of_the_expression", payload.op == "select" and payload.args[1] == (UUo(obj),) and ".sval:" in repr(base_of(payload.args[0])), repr(payload))
            fr = [x for x in E if x.name.split("::")[-1] in ("free_check_null", "PHRQ_free")]
            ok(r, "item.string_released_once_after_use", len(fr) == 1 and fr[0].args[0] is payload and E.index(fr[0]) > E.index(fp[0]), "")
            fmt = fp[0].args[1]
            ok(r, "item.string_format_is_one_string_conversion", fmt.op == "str" and fmt.args[0].count("%") == 1 and "s" in fmt.args[0], repr(fmt))
    reach(r, "reach.item(number,string,skipped)", min(n.values()))
    r.assumptions += ["expr returns an arbitrary value record and moves the position", "Phreeqc::fpunchf_user(column, format, value) is the selected-output sink (C05 units); formats are not pinned beyond their conversion kind",
                      "the result record of an item is the function's local `n`", "token kinds are executed concretely, one by one, for the separator test (shift/mask arithmetic folded)"]
    return r


def base_of(a):
    while a.op == "store":
        a = a.args[0]
    return a


def unit_cmdsave(twin=False):
    """SAVE e: the value of the (last) numeric item becomes the amount handed back to the kinetics integrator (rate_moles); a string item is a
    BASIC error; separators produce nothing."""
    q = "PBasic::cmdsave"
    fn = A.find_function(PB, q)
    r = U.new_unit("C17.cmdsave.numeric_value_becomes_rate_moles", PB, q, fn)
    if len(loops_of(fn)) != 1:
        raise Undecided("cmdsave: expected one item loop")
    ex, ip, info = item_list_dispatch(r, q, 0, "list")
    n = {"num": 0, "str": 0}
    for s in ip:
        E = U.iter_events(s)
        e = [x for x in E if x.name.endswith("::expr")][0]
        obj = e.result
        hy = hyp(s)
        isstr = tm.select(entry_arr(ex, s, ("f", "stringval", "B")), obj)
        numv = tm.select(entry_arr(ex, s, ("f", "val", "R")), UUo(obj))
        pp = tm.select(entry_arr(ex, s, ("f", "PhreeqcPtr", "P")), THIS)
        if s.status == "throw":
            n["str"] += 1
            U.discharge_valid(r, "item.error_only_for_a_string_value", hy, isstr)
            continue
        n["num"] += 1
        U.discharge_valid(r, "item.accepted_only_when_numeric", hy, tm.not_(isstr))
        U.discharge_valid(r, "item.rate_moles:=value_of_the_expression", hy, tm.eq(F(ex, s, "rate_moles", "R", pp), numv if not twin else tm.neg(numv)))
        ok(r, "item.position_moves_behind_the_expression", F(ex, s, "t", "P", LL) is e.snap, "")
    reach(r, "reach.item(number,string)", min(n.values()))
    r.assumptions += ["expr returns an arbitrary value record and moves the position", "snerr does not return (unit C17.errormsg)", "rate_moles is read by the kinetics caller after the program ends (C12 units)"]
    return r


def _carries(arg, val):
    """arg is val, possibly converted char* -> std::string"""
    return arg is val or (arg.op == "app" and arg.args[0] == "string_of" and arg.args[1] is val)


def unit_cmdprint(twin=False):
    """PRINT e1, e2; ...: every numeric item is rendered by numtostr and written, every string item is written as it is (unless NO_NEWLINE$ set
    skip_punch) and released; one write per item, in order; separators produce nothing."""
    q = "PBasic::cmdprint"
    fn = A.find_function(PB, q)
    r = U.new_unit("C17.cmdprint.each_item_is_written_once_with_its_value", PB, q, fn)
    if len(loops_of(fn)) != 1:
        raise Undecided("cmdprint: expected one item loop")
    ex, ip, info = item_list_dispatch(r, q, 0, "list")
    n = {"num": 0, "str": 0}
    for s in ip:
        E = U.iter_events(s)
        e = [x for x in E if x.name.endswith("::expr")][0]
        obj = e.result
        hy = hyp(s)
        isstr = tm.select(entry_arr(ex, s, ("f", "stringval", "B")), obj)
        numv = tm.select(entry_arr(ex, s, ("f", "val", "R")), UUo(obj))
        om = [x for x in E if x.name.endswith("output_msg")]
        sf = [x for x in E if x.name.endswith("sformatf")]
        nt = [x for x in E if x.name.endswith("numtostr")]
        ok(r, "item.position_moves_behind_the_expression", F(ex, s, "t", "P", LL) is e.snap, "")
        if nt:
            n["num"] += 1
            U.discharge_valid(r, "item.rendered_as_a_number_only_when_numeric", hy, tm.not_(isstr))
            good = len(nt) == 1 and len(sf) == 1 and len(om) == 1 and _carries(om[0].args[0], sf[0].result) and nt[0].result in sf[0].args
            ok(r, "item.number_written_once:output_msg(format(numtostr(value)))", good, "%s" % [x.name for x in E])
            if good:
                U.discharge_valid(r, "item.number_rendered_is_the_value_of_the_expression", hy, tm.eq(nt[0].args[-1], numv if not twin else numv + 1))
        else:
            n["str"] += 1
            U.discharge_valid(r, "item.written_as_a_string_only_when_a_string", hy, isstr)
            skip0 = tm.select(entry_arr(ex, s, ("f", "skip_punch", "B")), THIS)
            for hy2, sk in cases(hy, skip0):
                if sk:
                    ok(r, "item.string_not_written_while_skip_punch_is_set", not om, "")
                else:
                    sv = [a for a in (sf[0].args if len(sf) == 1 else []) if a.op == "select" and a.args[1] == (UUo(obj),)]
                    ok(r, "item.string_written_once:output_msg(format(string))", len(om) == 1 and len(sf) == 1 and _carries(om[0].args[0], sf[0].result) and len(sv) == 1, "%s" % [x.name for x in E])
            fr = [x for x in E if x.name.split("::")[-1] in ("free_check_null", "PHRQ_free")]
            ok(r, "item.string_released_once", len(fr) == 1, "")
    reach(r, "reach.item(number,string)", min(n.values()))
    r.assumptions += ["expr returns an arbitrary value record and moves the position", "numtostr renders a double (not under contract); sformatf / output_msg are the output path (C09 units)",
                      "the trailing-newline logic behind the list is not under contract"]
    return r


# --------------------------------------------------------------------------------------------------------------- exec

def _cmd_methods():
    """names X for which PBasic declares a statement executor cmdX (from the class declaration)"""
    import os, re
    h = open(os.path.join(REPO, PH), encoding="latin1").read()
    # declarations inside `#if defined X` / `#ifdef X` blocks of macros the library build does not define are not compiled
    out, skip = [], 0
    for ln in h.splitlines():
        t = ln.strip()
        if skip:
            if t.startswith("#if"):
                skip += 1
            elif t.startswith("#endif"):
                skip -= 1
            continue
        if (t.startswith("#ifdef") or t.startswith("#if defined")) and not any(m in t for m in ("SWIG_SHARED_OBJ", "USE_PHRQ_ALLOC", "NDEBUG")):
            skip = 1
            continue
        out.append(ln)
    return sorted(set(re.findall(r"\bvoid\s+cmd(\w+)\s*\(", "\n".join(out))))


SPECIAL = {"tokvar": ("cmdlet", True), "toklet": ("cmdlet", False), "tokload": ("cmdload", False), "tokmerge": ("cmdload", True)}
NO_COMMAND = {"tokrem"}                # a remark does nothing
ERRORS = {"tokinput"}                  # INPUT is not a legal statement in PHREEQC: BASIC error
STOPS = {"tokstop"}                    # STOP ends the run through the escape mechanism


def _exec_ctx(cmds):
    c = mkctx(); c.model_unsigned = True
    c.functional.add("stringexpr")

    def h_cmd(ex_, st, n, name, recv, args):
        link = [a for a in args if a.sort == "P"][-1] if [a for a in args if a.sort == "P"] else None
        e_ = SX.Event(name, recv, list(args), ZI, n)
        e_.snap = F(ex_, st, "t", "P", link) if link is not None else None      # the token position handed to the command
        st.events.append(e_)
        return [(st, ZI)]
    for x in cmds:
        c.handlers["PBasic::cmd" + x] = h_cmd

    def h_err(ex_, st, n, name, recv, args):
        st.events.append(SX.Event(name, recv, args, ZI, n)); st.status = "throw"; return [(st, ZI)]
    c.handlers["PBasic::error_msg"] = h_err            # error_msg(..., STOP) ends the run
    c.handlers["PHRQ_base::error_msg"] = h_err
    return c


def unit_exec_dispatch(twin=False):
    """exec, one statement: the flags are cleared; leading ':' are passed over; the command is chosen by the kind of the statement's first
    token - for EVERY token kind: the token tokX of a statement keyword calls exactly its executor cmdX, once, with the position behind
    the keyword (a variable name is an implied LET, LOAD/MERGE share cmdload, REM does nothing, STOP and INPUT end the run), any other
    token is an 'Illegal command' error; afterwards anything left on the statement is an error unless the command asked for the rest of
    the line to be executed (elseflag); then the next statement / the next line (or the GOTO target) follows."""
    q = "PBasic::exec"
    fn = A.find_function(PB, q)
    r = U.new_unit("C17.exec.every_statement_keyword_dispatches_to_its_own_command", PB, q, fn)
    lps = loops_of(fn)
    dos = [l for l in lps if l["kind"] == "DoStmt"]
    inner = [l for l in dos if any(o is not l and any(y is l for y in A.walk(o)) for o in dos)]
    outer = [l for l in dos if l not in inner]
    colon = [l for l in lps if l["kind"] == "WhileStmt"]
    sw = [x for x in A.walk(fn) if x.get("kind") == "SwitchStmt" and any(y is x for y in A.walk(inner[0]))] if len(inner) == 1 else []
    if len(inner) != 1 or len(outer) != 1 or len(colon) != 1 or len(sw) < 1:
        raise Undecided("exec: statement loop / line loop / colon loop / dispatch switch not found")
    sw = sw[0]
    cmds = _cmd_methods()
    T = tokens()
    V = tm.sym("&L_V", "P")
    body = inner[0]["inner"][0].get("inner", [])
    holder = [x for x in body if any(y is sw for y in A.walk(x))]
    if len(holder) != 1 or holder[0].get("kind") != "IfStmt":
        raise Undecided("exec: the dispatch is not inside one if-statement of the statement loop")
    i_h = body.index(holder[0])
    # ---- dispatch, every token kind
    bad = []
    table = {}
    names = {v: k for k, v in T.items()}
    for kind in range(0, max(T.values()) + 4):
        def prep(ex, st, nm, kind=kind):
            tok = F(ex, st, "stmttok", "P", THIS)
            st.heap[("f", "kind", "I")] = tm.store(ex.heap_arr(st, ("f", "kind", "I")), (tok,), tm.num(kind, "I"))
            st.heap[("f", "t", "P")] = tm.store(ex.heap_arr(st, ("f", "t", "P")), (V,), tok)
            st.assume(tm.not_(tm.eq(tok, NULLP)))
        f, ex, fin, info = run_stmts(q, [holder[0]], _exec_ctx(cmds), prepare=prep)
        name = names.get(kind, "kind%d" % kind)
        live_ = alive_lib(fin)
        tok = F0("stmttok", "P", THIS)
        want_cmd = None
        if name in SPECIAL:
            want_cmd = SPECIAL[name]
        elif name.startswith("tok") and name[3:] in cmds and name not in NO_COMMAND | ERRORS | STOPS:
            want_cmd = ("cmd" + name[3:], None)
        if twin and name == "tokwend":
            want_cmd = ("cmdwhile", None)
        for s in live_:
            called = [e for e in s.events if e.name.split("::")[-1].startswith("cmd")]
            if want_cmd is not None:
                good = s.status == "run" and len(called) == 1 and called[0].name.split("::")[-1] == want_cmd[0]
                if good and want_cmd[0] != "cmdbye":
                    good = V in called[0].args and (called[0].snap is F0("next", "P", tok) or want_cmd[0] == "cmdload")
                if good and want_cmd[1] is not None:
                    good = called[0].args[0] is (tm.TRUE if want_cmd[1] else tm.FALSE)
                if not good:
                    bad.append((name, "expected %s, got %s (%s)" % (want_cmd[0], [e.name.split("::")[-1] for e in called], s.status)))
            elif name in NO_COMMAND:
                if called or s.status != "run":
                    bad.append((name, "expected nothing, got %s" % [e.name for e in called]))
            elif name in STOPS:
                if called or s.status != "throw" or not prove(hyp(s), tm.eq(F(ex, s, "P_escapecode", "I", THIS), tm.num(-20, "I"))):
                    bad.append((name, "expected STOP (escape code -20)"))
            else:
                if called or s.status != "throw":
                    bad.append((name, "expected an error, got %s (%s)" % ([e.name.split("::")[-1] for e in called], s.status)))
        if not live_:
            bad.append((name, "no path"))
        table[name] = want_cmd
    ok(r, "dispatch.every_token_kind_calls_exactly_its_own_command_behind_the_keyword_or_is_an_error(all_%d_kinds)" % (max(T.values()) + 4), not bad, "%s" % bad[:4], backend="exhaustive-by-kind")
    reach(r, "reach.statement_keywords_with_an_executor", len([1 for v in table.values() if v is not None]), 30)
    # ---- before the dispatch
    snaps = {}
    f, ex, fin, info = run_stmts(q, body[:i_h], _exec_ctx(cmds), loop=summarize([("f", "stmttok", "P")], snaps))
    nb = 0
    for s in alive(fin, ("run",)):
        nb += 1
        pv(r, "before.flags_cleared", s, tm.and_(tm.not_(F(ex, s, "gotoflag", "B", V)), tm.not_(F(ex, s, "elseflag", "B", V))))
        tok = F(ex, s, "stmttok", "P", THIS)
        pv(r, "before.statement_starts_at_a_token_that_is_not_a_colon", s, tm.or_(tm.eq(tok, NULLP), tm.not_(tm.eq(F(ex, s, "kind", "I", tok), tk("tokcolon")))))
        pv(r, "before.token_cursor_at_the_statement's_first_token", s, tm.eq(F(ex, s, "t", "P", V), tok))
    f2, ex2, its, info2 = run_iter(q, lps.index(colon[0]), _exec_ctx(cmds))
    for s in alive(its, ("run", "cont")):
        t0 = tm.select(entry_arr(ex2, s, ("f", "stmttok", "P")), THIS)
        U.discharge_valid(r, "colon.only_a_colon_is_passed_over", hyp(s), tm.and_(tm.not_(tm.eq(t0, NULLP)), tm.eq(tm.select(entry_arr(ex2, s, ("f", "kind", "I")), t0), tk("tokcolon"))))
        U.discharge_valid(r, "colon.one_token_at_a_time", hyp(s), tm.eq(F(ex2, s, "stmttok", "P", THIS), tm.select(entry_arr(ex2, s, ("f", "next", "P")), t0)))
        ok(r, "colon.writes_only_the_statement_start", sorted(set(kk for kk, _, _ in U.iter_writes(s))) == [("f", "stmttok", "P")], "", kind="frame")
    # ---- behind the dispatch
    f3, ex3, fin3, info3 = run_stmts(q, body[i_h + 1:], _exec_ctx(cmds))
    na = {"extra": 0, "fine": 0}
    for s in alive(fin3, ("run",)):
        t1 = F0("t", "P", V)
        k1 = F0("kind", "I", t1)
        eos = tm.or_(tm.eq(t1, NULLP), tm.eq(k1, tk("tokelse")), tm.eq(k1, tk("tokcolon")))
        ce = evs(s, "checkextra")
        hy = hyp(s)
        if ce:
            na["extra"] += 1
            U.discharge_valid(r, "after.leftover_check_only_when_not_at_an_end_of_statement_and_no_elseflag", hy, tm.and_(tm.not_(F0("elseflag", "B", V)), tm.not_(eos)))
            ok(r, "after.leftover_check_on_the_statement's_cursor", len(ce) == 1 and ce[0].args[0] is V, "")
        else:
            na["fine"] += 1
            U.discharge_valid(r, "after.no_leftover_check_only_at_an_end_of_statement_or_with_elseflag", hy, tm.or_(F0("elseflag", "B", V), eos))
        ok(r, "after.next_statement_starts_where_the_command_left_the_cursor", F(ex3, s, "stmttok", "P", THIS) is F(ex3, s, "t", "P", V), "")
    outs_c = None
    reach(r, "reach.before_and_after", min(nb, na["extra"], na["fine"]))
    # statement loop goes on while tokens are left on the line
    for s in alive(fin3, ("run",))[:1]:
        outs = ex3.ev(inner[0]["inner"][1], s.clone())
        ok(r, "after.statement_loop_goes_on_while_tokens_are_left_on_the_line", len(outs) == 1 and prove([], tm.and_(tm.implies(tm.to_bool(outs[0][1]), tm.not_(tm.eq(F(ex3, s, "t", "P", V), NULLP))), tm.implies(tm.not_(tm.eq(F(ex3, s, "t", "P", V), NULLP)), tm.to_bool(outs[0][1])))), "")
    # ---- line step
    obody = outer[0]["inner"][0].get("inner", [])
    rest = [x for x in obody if x is not inner[0]]
    f4, ex4, fin4, info4 = run_stmts(q, rest, _exec_ctx(cmds))
    nl = 0
    for s in alive(fin4, ("run",)):
        nl += 1
        sl0 = F0("stmtline", "P", THIS)
        g = F0("gotoflag", "B", V)
        hy = hyp(s)
        sl1 = F(ex4, s, "stmtline", "P", THIS)
        U.discharge_valid(r, "line.next_line_unless_a_jump_set_the_line(gotoflag)_or_the_program_ended", hy, tm.eq(sl1, tm.ite(tm.or_(tm.eq(sl0, NULLP), g), sl0, F0("next", "P", sl0))))
        U.discharge_valid(r, "line.execution_continues_at_the_first_token_of_that_line", hy, tm.or_(tm.eq(sl1, NULLP), tm.eq(F(ex4, s, "stmttok", "P", THIS), F0("txt", "P", sl1))))
        outs = ex4.ev(outer[0]["inner"][1], s.clone())
        if len(outs) == 1:
            U.discharge_valid(r, "line.program_runs_until_there_is_no_current_line", hy, tm.and_(tm.implies(tm.to_bool(outs[0][1]), tm.not_(tm.eq(sl1, NULLP))), tm.implies(tm.not_(tm.eq(sl1, NULLP)), tm.to_bool(outs[0][1]))))
    reach(r, "reach.line_step", nl, 2)
    r.assumptions += ["the statement executors are callees (their own units); a called executor is recorded with the token position it receives", "errormsg / error_msg(STOP) / throw end the run (handler of exec not under contract)",
                      "the list of executors is read from the declarations `void cmdX(` of PBasic.h; the correspondence tokX -> cmdX is the naming convention of the interpreter (LET/implied LET, LOAD/MERGE, REM, STOP, INPUT are listed exceptions)",
                      "library build (phreeqci_gui false)", "token kinds are executed concretely, one by one"]
    return r
