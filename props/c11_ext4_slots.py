"""C11 (fourth wave, scratch solution numbers): the number under which rk_kinetics parks the solution of the cell it integrates (`save_old`)
against the pending slots -2-k in which the stagnant sweep (mix_stag / run_reactions with STAG) keeps the results of the cells k until all
mixing of the time step is done.  A collision would replace a pending cell result by the pre-integration copy of another cell (mass lost
or duplicated)."""
import re
from props.common import *
from vf.core import FAILED, DISCHARGED, UNDECIDED, Undecided

TR = "src/phreeqcpp/transport.cpp"
KIN = "src/phreeqcpp/kinetics.cpp"
LOOPK = ("ForStmt", "WhileStmt", "DoStmt")


def _calls(node, rel, short):
    return [c for c in A.walk(node) if c.get("kind") in ("CXXMemberCallExpr", "CallExpr") and re.match(r"(\w+::)*%s\(" % re.escape(short), text_of(rel, c))]


def _assignments_to(fn, name):
    out = []
    for x in A.walk(fn):
        if x.get("kind") in ("BinaryOperator", "CompoundAssignOperator") and x.get("opcode", "").endswith("=") and x.get("opcode") not in ("==", "<=", ">=", "!="):
            l = strip(x["inner"][0])
            if l.get("kind") == "DeclRefExpr" and l.get("referencedDecl", {}).get("name") == name:
                out.append(x)
        if x.get("kind") == "UnaryOperator" and x.get("opcode") in ("++", "--"):
            l = strip(x["inner"][0])
            if l.get("kind") == "DeclRefExpr" and l.get("referencedDecl", {}).get("name") == name:
                out.append(x)
        if x.get("kind") == "VarDecl" and x.get("name") == name and len(x.get("inner", [])) > 0 and x.get("init"):
            out.append(x)
    return out


def _off(n):
    b, e = A.src_range_text(n)
    return b


def _enclosing_if(fn, node):
    """innermost IfStmt of fn whose then/else part contains node"""
    best = None
    for x in A.walk(fn):
        if x.get("kind") == "IfStmt" and any(z is node for part in x["inner"][1:] for z in A.walk(part)):
            best = x
    return best


def _value_assigned(rel, q, asg):
    f, ex, fin, info = region(rel, q, [asg], ctx())
    fin = live(fin)
    if len(fin) != 1:
        raise Undecided("assignment to save_old in %s does not execute on one path" % q)
    return ex, fin[0], U.local_of(info, fin[0], "save_old")


def unit_scratch_slot(twin=False):
    """Phreeqc::rk_kinetics (and the CVODE branch of run_reactions, its sibling): the value assigned to `save_old` is read as a term over
    count_cells and stag_data.count_stag and compared with the pending slots.  Contract:
      * arithmetic (z3, all count_cells >= 1, count_stag >= 0, 0 <= k <= count_cells*(1+count_stag)+1, the cell numbers of a column with its
        stagnant layers and both boundary cells): save_old != -2 - k (no pending slot of the stagnant sweep, and not the scratch -2 of the
        dispersive sweep), save_old < -2 (no cell number, not -1 / -2); the same two facts for the value the CVODE branch of run_reactions assigns;
      * mix_stag moves the pending result of cell k back from slot -2 - k into k (source == -2 - destination), so the slots are indeed -2 - k;
      * in rk_kinetics save_old is assigned once, before its first use; the solution copies are exactly: cell i -> save_old before the first
        equilibration and save_old -> cell i after the last one, both exactly when nsaver != i; every equilibration is for cell i and saves
        under i, the last one under nsaver: no call uses another scratch number."""
    q = "Phreeqc::rk_kinetics"
    fn = A.find_function(KIN, q)
    r = U.new_unit("C11.rk_kinetics.saved_copy_slot_never_coincides_with_a_pending_slot_-2-k_and_brackets_the_integration", KIN, q, fn)
    I = lambda v: tm.num(v, "I")
    add = lambda name, ok, det="", kind="post": r.add(name, DISCHARGED if ok is True else (FAILED if ok is False else UNDECIDED), "symex+z3", 0, str(det)[:400], kind=kind)
    prove = lambda hy, g: B.z3_prove(list(hy), g, timeout_ms=8000)[0]
    tri = lambda st: True if st == "proved" else (False if st == "refuted" else None)
    # ---- the value
    asg = _assignments_to(fn, "save_old")
    add("rk_kinetics.save_old_assigned_exactly_once", len(asg) == 1, [text_of(KIN, x)[:80] for x in asg], kind="structural")
    if not asg:
        raise Undecided("no assignment to save_old in rk_kinetics")
    ex, s, T = _value_assigned(KIN, q, asg[0])
    cc = fld0(ex, s, "count_cells", "I")
    cands = [t for t in tm.subterms(T) if t.op == "select" and "count_stag" in repr(t.args[0])]
    if len(set(cands)) != 1:
        add("rk_kinetics.save_old_is_a_term_over_count_cells_and_count_stag", False if not cands else None, T)
        return r
    cs = cands[0]
    k = tm.sym("k_cell_number", "I")
    ncell = cc * (I(1) + cs) + I(1)                 # largest cell number of the column: count_cells + 1 + count_stag * count_cells
    hy = [tm.le(I(1), cc), tm.le(I(0), cs), tm.le(I(0), k), tm.le(k, ncell if not twin else ncell + I(1))]
    add("arith.save_old!=-2-k_for_every_cell_number_k_in_0..count_cells*(1+count_stag)+1", tri(prove(hy, tm.not_(tm.eq(T, I(-2) - k)))), "save_old = %r" % (T,))
    add("arith.save_old<-2(not_a_cell_number_not_the_dispersive_scratch)", tri(prove(hy[:2], tm.lt(T, I(-2)))), "save_old = %r" % (T,))
    others = {sy for sy in tm.subterms(T) if sy.op == "sym" and not str(sy.args[0]).startswith("H0.") and sy is not THIS}
    add("arith.save_old_depends_on_the_column_dimensions_only(not_on_the_cell)", not others, others)
    U.witness(r, "reach.arith_hypotheses", hy)
    # ---- the sibling site in run_reactions
    q2 = "Phreeqc::run_reactions"
    fn2 = A.find_function(KIN, q2)
    asg2 = _assignments_to(fn2, "save_old")
    if len(asg2) != 1:
        add("run_reactions.cvode_branch_assigns_save_old_once", None if not asg2 else False, len(asg2), kind="structural")
    else:
        ex2, s2, T2 = _value_assigned(KIN, q2, asg2[0])
        add("run_reactions.cvode_branch.save_old!=-2-k_for_every_cell_number_k", tri(prove(hy, tm.not_(tm.eq(T2, I(-2) - k)))), "cvode %r" % (T2,))
        add("run_reactions.cvode_branch.save_old<-2", tri(prove(hy[:2], tm.lt(T2, I(-2)))), "cvode %r" % (T2,))
    # ---- the pending slots are -2 - k (mix_stag copies them back)
    q3 = "Phreeqc::mix_stag"
    fn3 = A.find_function(TR, q3)
    smap = tm.app("fld:Rxn_solution_map", (THIS,), "P")
    npend = 0
    for cnode in _calls(fn3, TR, "Rxn_copy"):
        f3, ex3, fin3, info3 = region(TR, q3, [cnode], ctx())
        for s3 in live(fin3):
            for e in [e for e in s3.events if e.name.split("::")[-1] == "Rxn_copy" and e.args[0] is smap]:
                src_, dst_ = e.args[1], e.args[2]
                if prove(list(s3.pc), tm.eq(src_, I(-2))) == "proved":
                    continue                # the mobile cell's own result (scratch -2)
                npend += 1
                add("mix_stag.pending_result_of_cell_k_comes_back_from_slot_-2-k", tri(prove(list(s3.pc), tm.eq(src_, I(-2) - dst_))), e)
    r.add("reach.mix_stag.pending_slot_copy", DISCHARGED if npend >= 1 else UNDECIDED, "symex", 0, "%d copies from a pending slot" % npend, kind="vacuity")
    # ---- bracket in rk_kinetics
    i_, ns, so = tm.sym("L_i", "I"), tm.sym("L_nsaver", "I"), tm.sym("L_save_old", "I")
    copies = _calls(fn, KIN, "Rxn_copy")
    runs = _calls(fn, KIN, "set_and_run_wrapper") + _calls(fn, KIN, "set_and_run")
    runs = sorted({id(x): x for x in runs}.values(), key=_off)
    sol = []
    for cnode in copies:
        f4, ex4, fin4, info4 = region(KIN, q, [cnode], ctx())
        for s4 in live(fin4):
            for e in [e for e in s4.events if e.name.split("::")[-1] == "Rxn_copy"]:
                if e.args[0] is smap:
                    sol.append((cnode, e))
                else:
                    add("rk_kinetics.other_stores_are_parked_under_save_old_too", e.args[1] is i_ and e.args[2] is so, e)
    saves = [(n, e) for n, e in sol if e.args[1] is i_ and e.args[2] is so]
    rests = [(n, e) for n, e in sol if e.args[1] is so and e.args[2] is (i_ if not twin else ns)]
    add("rk_kinetics.solution_copies_are_exactly_one_save(i->save_old)_and_one_restore(save_old->i)", len(sol) == 2 and len(saves) == 1 and len(rests) == 1, [e for n, e in sol])
    add("reach.rk_kinetics.equilibrations", True if runs else None, len(runs), kind="vacuity")
    if len(saves) == 1 and len(rests) == 1 and runs:
        add("rk_kinetics.save_old_assigned_before_the_save", _off(asg[0]) < _off(saves[0][0]), "")
        add("rk_kinetics.save_before_the_first_equilibration_restore_after_the_last", _off(saves[0][0]) < _off(runs[0]) and _off(rests[0][0]) > _off(runs[-1]), "")
        for label, (n, e) in (("save", saves[0]), ("restore", rests[0])):
            g = _enclosing_if(fn, n)
            if g is None:
                add("rk_kinetics.%s_exactly_when_nsaver!=i" % label, False, "unconditional"); continue
            f5, ex5, fin5, info5 = region(KIN, q, [g], ctx())
            ok = True
            for s5 in live(fin5):
                has = any(x.name.split("::")[-1] == "Rxn_copy" and x.args[0] is smap for x in s5.events)
                st = prove(list(s5.pc), tm.not_(tm.eq(ns, i_)) if has else tm.eq(ns, i_))
                ok = ok and st == "proved"
            par_ok = any(c is g for c in A.body_of(fn).get("inner", []))
            add("rk_kinetics.%s_exactly_when_nsaver!=i" % label, ok and par_ok, "top-level statement: %s" % par_ok)
    last = None
    for cnode in runs:
        f6, ex6, fin6, info6 = region(KIN, q, [cnode], ctx())
        for s6 in live(fin6):
            for e in [e for e in s6.events if e.name.split("::")[-1] in ("set_and_run_wrapper", "set_and_run")]:
                add("rk_kinetics.every_equilibration_is_for_cell_i_and_saves_under_i_or_nsaver", e.args[0] is i_ and (e.args[3] is i_ or e.args[3] is ns), e)
                last = e
    if last is not None:
        add("rk_kinetics.last_equilibration_saves_under_nsaver", last.args[3] is ns, last)
    # one obligation per name
    seen = {}
    for o in list(r.obligations):
        if o.name in seen:
            p = seen[o.name]
            rank = {FAILED: 2, UNDECIDED: 1, DISCHARGED: 0}
            if rank[o.status] > rank[p.status]:
                p.status, p.detail = o.status, o.detail
            r.obligations.remove(o)
        else:
            seen[o.name] = o
    r.assumptions += ["cell numbers of a column: 0 .. count_cells+1 and i + 1 + n*count_cells (i in 1..count_cells, n in 1..count_stag), i.e. 0 .. count_cells*(1+count_stag)+1 (readtr.cpp: all_cells)",
                      "machine integers as mathematical integers; count_cells >= 1, count_stag >= 0 (read_transport)",
                      "order of the save / restore relative to the equilibrations and 'assigned once' are read from the AST (which statements exist, source order of top-level statements); "
                      "argument terms and guards are read by executing the statements",
                      "mix_stag is also called for the boundary cells i = 0 and count_cells+1, where its copy-back loop forms k = i + 1 + n*count_cells without the k < all_cells test: "
                      "for i = count_cells+1, n = count_stag this k is all_cells (not a cell of the column) and -2-k is exactly save_old; outside this contract"]
    return r
