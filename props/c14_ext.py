"""C14 extension units: numbered reactants behave as a keyed store.
Each unit puts one more function (or region / loop) of the keyed-store machinery under a contract taken from the property text:
definitions and ranges create entries under the numbers read, *_MODIFY touches only an existing entry, DELETE removes exactly the
named entries of the named kind, COPY writes exactly the target range from the source, SAVE/USE/RUN_CELLS address the numbers given,
MIX results are stored under the MIX's own number, the storage bin keeps one store per kind, and the component list is a cache of
list_components refreshed on demand."""
from props.c14_ext_lib import *

RD = "src/phreeqcpp/read.cpp"
RC = "src/phreeqcpp/ReadClass.cxx"
MS = "src/phreeqcpp/mainsubs.cpp"
PHH = "src/phreeqcpp/Phreeqc.h"
KWS = {"type_contains": "cxxSolution"}
UNITS = []


def unit(uid):
    def deco(f):
        UNITS.append((uid, f))
        return f
    return deco


# ----------------------------------------------------------------------------------------------------------------- Rxn_read_raw
@unit("C14.Rxn_read_raw.stored_under_the_number_read_and_replicated_over_its_range")
def unit_read_raw(twin=False):
    """Utilities::Rxn_read_raw(m, s, cookie): the block just parsed is stored in m under ITS OWN number (the one read_raw put into the
    object), replicated over (n_user, n_user_end] by Rxn_copies, and every number of [n_user, n_user_end] is entered into the
    set of new definitions; a block with parse errors is not stored; nothing else of m is touched."""
    q = "Utilities::Rxn_read_raw"
    fnp = A.find_function(RD, q, **KWS)
    r = U.new_unit("C14.Rxn_read_raw.stored_under_the_number_read_and_replicated_over_its_range", PHH, q + "<cxxSolution>", fnp)
    stash = {}
    def loop(ex, st, n, o):
        stash.setdefault("entry", []).append((n, st.clone()))
        stash.setdefault("iter", []).extend(ex.iterate_loop(n, st.clone()))
        return ex.havoc_loop(n, st)
    c = mk_ctx(functional=("Get_n_user", "Get_n_user_end", "Get_base_error_count"), loop=loop)
    fn, ex, fin = run(RD, q, c, KWS)
    M, S = tm.sym("P0_m", "P"), tm.sym("P1_s", "P")
    seen = set()
    for s in fin:
        rr = calls(s.events, "read_raw")
        if len(rr) != 1:
            ok(r, "block_parsed_once", False, detail=repr(rr)); continue
        ent = rr[0].recv
        nu = tm.app("call:Get_n_user", (ent,), "I")
        ne = tm.app("call:Get_n_user_end" if not twin else "call:Get_n_user", (ent,), "I")
        clean = tm.eq(tm.app("call:Get_base_error_count", (ent,), "I"), tm.num(0, "I"))
        idx = [e for e in s.events if e.name == "map.operator[]"]
        asg = [e for e in s.events if sh(e) == "operator=" and "iterator" not in e.name]
        other = [e for e in s.events if e.name in ("map.erase", "map.clear", "map.insert")]
        cps = calls(s.events, "Rxn_copies")
        for case, cond in (("clean", clean), ("errors", tm.not_(clean))):
            hyps = list(s.pc) + [cond]
            if not sat(hyps):
                continue
            if case == "clean" and case not in seen:
                tag = "parsed_without_error"
                ok(r, tag + ".exactly_one_entry_written", len(idx) == 1 and idx[0].recv is M and not other, detail=repr(idx + other))
                if len(idx) == 1:
                    ok(r, tag + ".key_is_the_number_read_into_the_object", proved(hyps, tm.eq(idx[0].args[0], nu)), "trace+z3", repr(idx[0].args[0]))
                    ok(r, tag + ".content_is_the_object_read", len(asg) == 1 and asg[0].recv is c.stl.mobj(M, idx[0].args[0]) and asg[0].args[0] is ent, detail=repr(asg))
                    ok(r, tag + ".stored_after_parsing", s.events.index(rr[0]) < s.events.index(idx[0]), detail="")
                okc = len(cps) == 1 and cps[0].args[0] is M and proved(hyps, tm.eq(cps[0].args[1], nu)) and proved(hyps, tm.eq(cps[0].args[2], ne))
                ok(r, tag + ".replicated_over_(n_user,n_user_end]_of_the_object_read", okc, "trace+z3", repr(cps))
                if cps and idx:
                    ok(r, tag + ".replicated_after_storing", s.events.index(idx[0]) < s.events.index(cps[0]))
            if case == "errors" and case not in seen:
                ok(r, "parse_errors.the_faulty_block_is_not_stored", not idx and not asg and not other, detail=repr(idx + asg + other), kind="frame")
            cl = calls(s.events, "cleanup_after_parser")
            if case not in seen:
                ok(r, "returns_cleanup_after_parser[%s]" % case, len(cl) == 1 and s.ret is cl[0].result, detail=repr(s.ret))
            seen.add(case)
    ok(r, "reach.both_cases", seen == {"clean", "errors"}, "symex", sorted(seen), kind="vacuity", undecided=True)
    # the loop that records the new definitions: i runs over [n_user, n_user_end] of the object read, each i is inserted into s
    ent_states = stash.get("entry", [])
    if not ent_states:
        raise Undecided("new-definition loop not reached")
    node, st0 = ent_states[0]
    rr = calls(st0.events, "read_raw")
    ent = rr[0].recv
    nu = tm.app("call:Get_n_user", (ent,), "I")
    ne = tm.app("call:Get_n_user_end", (ent,), "I")
    h = loop_head(ex, node, st0)
    ok(r, "new_definitions.first_number_is_n_user", h["first"] is not None and proved(st0.pc, tm.eq(h["first"], nu)), "symex+z3", repr(h["first"]))
    ok(r, "new_definitions.runs_through_n_user_end_inclusive", h["cond"] is not None and proved(st0.pc, tm.eq(h["cond"], tm.le(h["K"], ne))), "symex+z3", repr(h["cond"]))
    ok(r, "new_definitions.every_number_visited(step 1)", h["next"] is not None and proved(st0.pc, tm.eq(h["next"], tm.add(h["K"], tm.num(1, "I")))), "symex+z3", repr(h["next"]))
    its = [s for s in stash.get("iter", []) if s.status in ("run", "cont")]
    for k, s in enumerate(its[:2]):
        i = s.locals.get(h["did"])
        ins = [e for e in U.iter_events(s) if sh(e) == "insert"]
        ok(r, "new_definitions.iteration_enters_exactly_i_into_the_set_given[path %d]" % k, len(ins) == 1 and ins[0].recv is S and ins[0].args[0] is i, detail=repr(ins))
        oth = [e for e in U.iter_events(s) if e.name.startswith("map.") or sh(e) in ("erase", "clear", "operator=")]
        ok(r, "new_definitions.iteration_touches_no_store[path %d]" % k, not oth, detail=repr(oth), kind="frame")
    ok(r, "reach.iteration", len(its) >= 1, "symex", len(its), kind="vacuity", undecided=True)
    r.assumptions += ["T::read_raw fills the object it is called on (its n_user / n_user_end are what Get_n_user()/Get_n_user_end() return afterwards; the getters are functional)",
                      "T::operator= copies the whole object; Rxn_copies is under C14.Rxn_copies; std::map model; the cxxSolution instantiation stands for all eleven (same template text)"]
    return r


# -------------------------------------------------------------------------------------------------------------- Rxn_read_modify
def _modify_unit(uid, rel, q, kw, with_set, twin):
    fnp = A.find_function(rel, q, **kw)
    r = U.new_unit(uid, PHH, q + "<cxxSolution>", fnp)
    c = mk_ctx(functional=("Get_n_user", "Get_n_user_end", "Get_description"))
    fn, ex, fin = run(rel, q, c, kw)
    M, S = tm.sym("P0_m", "P"), tm.sym("P1_s", "P")
    seen = set()
    for s in fin:
        rnd = calls(s.events, "read_number_description")
        fnd = calls(s.events, "Rxn_find")
        if len(rnd) != 1 or len(fnd) != 1:
            ok(r, "one_number_read_and_one_lookup", False, detail=repr(rnd + fnd)); continue
        nk = rnd[0].recv
        nu = tm.app("call:Get_n_user" if not twin else "call:Get_n_user_end", (nk,), "I")
        ne = tm.app("call:Get_n_user_end", (nk,), "I")
        ptr = fnd[0].result
        for hy, found in cases(s.pc, tm.not_(tm.eq(ptr, tm.NULL))):
            _modify_case(r, s, hy, "found" if found else "missing", seen, rnd, fnd, nk, nu, ne, ptr, M, S, with_set, fin.index(s))
    ok(r, "reach.both_cases", seen == {"found", "missing"}, "symex", sorted(seen), kind="vacuity", undecided=True)
    r.assumptions += ["Utilities::Rxn_find(m, i) returns the address of m's entry i or NULL (C14.Rxn_find)", "T::read_raw(parser, false) changes only the quantities named in the block (C14.read_raw.component_blocks..., C10.keys.*)",
                      "cxxNumKeyword::read_number_description stores the number of the keyword line in the object it is called on; getters functional"]
    return r


def _modify_case(r, s, hy, kind_, seen, rnd, fnd, nk, nu, ne, ptr, M, S, with_set, k):
        case = kind_ if kind_ not in seen else "%s#path%d" % (kind_, k)
        seen.add(kind_)
        ok(r, case + ".looks_up_the_number_read_from_the_keyword_line_in_the_store_given",
           fnd[0].args[0] is M and proved(s.pc, tm.eq(fnd[0].args[1], nu)) and s.events.index(rnd[0]) < s.events.index(fnd[0]), "trace+z3", repr(fnd))
        mapw = [e for e in s.events if e.name.startswith("map.")]
        ok(r, case + ".no_entry_created_removed_or_replaced", not mapw, detail=repr(mapw), kind="frame")
        rr = calls(s.events, "read_raw")
        ins = [e for e in s.events if sh(e) == "insert"]
        if kind_ == "found":
            ok(r, case + ".block_read_into_the_stored_entry_in_place", len(rr) == 1 and rr[0].recv is ptr, detail=repr(rr))
            ok(r, case + ".read_without_completeness_check(only_named_quantities_change)", len(rr) == 1 and len(rr[0].args) == 2 and rr[0].args[1] is tm.FALSE, detail=repr(rr))
            for setter, val in (("Set_n_user", tm.app("call:Get_n_user", (nk,), "I")), ("Set_n_user_end", ne)):
                se = calls(s.events, setter)
                ok(r, case + ".entry_keeps_its_number:%s" % setter, len(se) == 1 and se[0].recv is ptr and proved(s.pc, tm.eq(se[0].args[0], val)), "trace+z3", repr(se))
            oth = [e for e in s.events if sh(e).startswith("Set_") and e.recv is not ptr]
            ok(r, case + ".no_other_object_modified", not oth, detail=repr(oth), kind="frame")
            if with_set:
                ok(r, case + ".number_entered_into_the_new_definition_set", len(ins) == 1 and ins[0].recv is S and
                   (proved(s.pc, tm.eq(ins[0].args[0], tm.app("call:Get_n_user", (nk,), "I"))) or ins[0].args[0] is tm.app("call:Get_n_user", (ptr,), "I")), "trace+z3", repr(ins))
        else:
            msg = calls(s.events, "warning_msg", "error_msg")
            if with_set:
                ok(r, case + ".reported", len(msg) >= 1, detail=repr(msg))
            loc = len(rr) == 1 and rr[0].recv is not ptr and rr[0].recv.op == "sym" and rr[0].recv.args[0].startswith("&")
            ok(r, case + ".block_consumed_into_a_local_dummy", loc, detail=repr(rr))
            ok(r, case + ".nothing_entered_into_the_new_definition_set", not ins, detail=repr(ins), kind="frame")
            sets = [e for e in s.events if sh(e).startswith("Set_")]
            ok(r, case + ".no_stored_object_modified", not sets, detail=repr(sets), kind="frame")
        if with_set:
            cl = calls(s.events, "cleanup_after_parser")
            ok(r, case + ".returns_cleanup_after_parser", len(cl) == 1 and s.ret is cl[0].result, detail=repr(s.ret))
        else:
            want = 1 if kind_ == "found" else 0
            ok(r, case + ".returns_%s" % ("TRUE" if want else "FALSE"), tm.isnum(s.ret) and s.ret.args[0] == want, detail=repr(s.ret))


@unit("C14.Rxn_read_modify.changes_only_an_existing_entry_and_reports_a_missing_one")
def unit_read_modify(twin=False):
    return _modify_unit("C14.Rxn_read_modify.changes_only_an_existing_entry_and_reports_a_missing_one", RD, "Utilities::Rxn_read_modify", KWS, True, twin)


@unit("C14.SB_read_modify.changes_only_an_existing_entry_of_the_bin")
def unit_sb_read_modify(twin=False):
    return _modify_unit("C14.SB_read_modify.changes_only_an_existing_entry_of_the_bin", "src/phreeqcpp/StorageBin.cxx", "Utilities::SB_read_modify", KWS, False, twin)


# -------------------------------------------------------------------------------------------------------------- delete_entities
@unit("C14.delete_entities.erases_exactly_the_listed_numbers_of_the_listed_kind")
def unit_delete_entities(twin=False):
    """Phreeqc::delete_entities: for every reactant kind K, independently: DELETE request for K with an empty number list empties
    K's store; with numbers, exactly those numbers are erased from K's store (the loop walks the whole list, each step erases the
    listed number from K's store); no request for K leaves every store untouched in K's block.  Afterwards the request is withdrawn."""
    q = "Phreeqc::delete_entities"
    fnp = A.find_function(RC, q)
    r = U.new_unit("C14.delete_entities.erases_exactly_the_listed_numbers_of_the_listed_kind", RC, q, fnp)
    body = A.body_of(fnp).get("inner", [])
    DI = fmap("delete_info")
    getters = tuple("Get_" + k for k in ALL)
    seen = {}
    for st_node in body:
        if st_node.get("kind") != "IfStmt":
            continue
        stash = LoopStash()
        c = mk_ctx(functional=getters + ("Get_numbers", "Get_defined", "size", "begin", "end", "empty"), loop=stash)
        fn, ex, fin, names = exec_nodes(RC, q, [st_node], c)
        if any(s.status == "ret" for s in fin):
            # the early return: taken only when no kind is requested
            for s in fin:
                defs = [tm.app("call:Get_defined", (tm.app("call:Get_" + k, (DI,), "P"),), "B") for k in ALL]
                if s.status == "ret":
                    ok(r, "early_return.only_when_no_kind_is_requested", all(proved(s.pc, tm.not_(d)) for d in defs), "symex+z3", repr(s.pc)[:200])
                    ok(r, "early_return.nothing_erased", not [e for e in s.events if e.name.startswith("map.")], kind="frame")
            continue
        # which kind's store does the block act on (classified by what the body DOES, not by its condition)
        touched = {e.recv for s in fin for e in s.events if e.name.startswith("map.")} | {e.recv for _n, _e0, its in stash.runs for s in its for e in U.iter_events(s) if e.name.startswith("map.")}
        kinds = [k for k in ALL if fmap(KIND[k]["map"]) in touched]
        if len(kinds) != 1 or len(touched) != 1:
            ok(r, "block_acts_on_one_kind's_store", False, detail="stores %r" % sorted(map(repr, touched))); continue
        K = kinds[0]
        if K in seen:
            ok(r, "%s.one_block" % K, False, detail="second block for the kind"); continue
        seen[K] = True
        item = tm.app("call:Get_" + K, (DI,), "P")
        req = tm.app("call:Get_defined", (item,), "B")
        SET = tm.app("call:Get_numbers", (item,), "P")
        own = fmap(KIND[K if not (twin and K == "surface") else "exchange"]["map"])
        got = set()
        ax = [tm.eq(tm.app("call:empty", (SET,), "B"), tm.eq(tm.app("call:size", (SET,), "I"), tm.num(0, "I")))]
        for j, s in enumerate(fin):
            mapev = [e for e in s.events if e.name.startswith("map.")]
            for hy, requested in cases(list(s.pc) + ax, req):
                if not requested:
                    ok(r, "%s.not_requested.no_store_touched%s" % (K, "" if "absent" not in got else "#%d" % j), not mapev and not LoopStash.passed(s), detail=repr(mapev), kind="frame")
                    got.add("absent"); continue
                for hy2, empty in cases(hy, tm.eq(tm.app("call:size", (SET,), "I"), tm.num(0, "I"))):
                    if empty:
                        ok(r, "%s.requested_without_numbers.own_store_emptied_and_no_other%s" % (K, "" if "all" not in got else "#%d" % j),
                           len(mapev) == 1 and mapev[0].name == "map.clear" and mapev[0].recv is own and not LoopStash.passed(s), detail=repr(mapev))
                        got.add("all")
                    else:
                        ok(r, "%s.numbers_listed.erasing_is_left_to_the_walk_over_the_list%s" % (K, "" if "listed" not in got else "#%d" % j),
                           not mapev and len(LoopStash.passed(s)) == 1, detail=repr(mapev), kind="frame")
                        got.add("listed")
        cases_seen = got
        if len(stash.entry) != 1:
            ok(r, "%s.numbers_listed.one_loop" % K, False, detail="%d loops" % len(stash.entry)); continue
        node, st0 = stash.entry[0]
        h = loop_head(ex, node, st0, sort="P")
        a, b, cnd = walks_whole_set(h, SET, st0.pc)
        ok(r, "%s.numbers_listed.walk_starts_at_the_first_listed_number_of_this_kind" % K, a, "symex", repr(h["first"]))
        ok(r, "%s.numbers_listed.walk_ends_only_at_the_end_of_this_kind's_list" % K, b, "symex+z3", repr(h["cond"]))
        ok(r, "%s.numbers_listed.walk_visits_every_listed_number" % K, cnd, "symex", repr(h["next"]))
        its = stash.iter_states(node)
        for j, s in enumerate(its):
            it = s.locals.get(h["did"])
            evs = [e for e in U.iter_events(s) if e.name.startswith("map.")]
            good = len(evs) == 1 and evs[0].name == "map.erase" and evs[0].recv is own and evs[0].args[0] is deref_iter(tm.sym("iter_it", "P"))
            ok(r, "%s.numbers_listed.step_erases_the_listed_number_from_its_own_store_only[path %d]" % (K, j), good, detail=repr(evs))
        ok(r, "reach.%s" % K, cases_seen == {"absent", "listed", "all"} and len(its) >= 1, "symex", sorted(cases_seen), kind="vacuity", undecided=True)
    ok(r, "every_kind_has_a_block", set(seen) == set(ALL), detail="missing %s" % sorted(set(ALL) - set(seen)))
    # the request is withdrawn on every path that acted on it: last top-level statement before the return
    tail = [x for x in body if x.get("kind") not in ("IfStmt", "ReturnStmt")]
    c = mk_ctx()
    if tail:
        fn, ex, fin, names = exec_nodes(RC, q, tail, c)
        sa = [e for s in fin for e in s.events if sh(e) == "SetAll"]
        ok(r, "request_withdrawn_afterwards(delete_info.SetAll(false))", len(fin) == 1 and len(sa) == 1 and sa[0].recv is DI and sa[0].args[0] is tm.FALSE, detail=repr(sa))
    else:
        ok(r, "request_withdrawn_afterwards(delete_info.SetAll(false))", False, detail="no unconditional statement after the blocks")
    r.assumptions += ["StorageBinList getters and std::set begin/end/size are functional (no writes); std::map erase/clear model",
                      "each kind's block is executed from an arbitrary state, so the blocks are independent of their order",
                      "StorageBinList::SetAll is under C14.StorageBinList.SetAll"]
    return r


# --------------------------------------------------------------------------------------------- StorageBinList (DELETE / DUMP lists)
SBL = "src/phreeqcpp/StorageBinList.cpp"


def vopts_of(rel):
    docs = A.dump(rel, "temp_vopts")
    best = [d for d in docs if d.get("kind") == "VarDecl" and d.get("name") == "temp_vopts"]
    if not best:
        raise Undecided("option table temp_vopts not found in %s" % rel)
    import json as _json
    out = []
    for x in A.walk(best[-1]):
        if x.get("kind") == "StringLiteral":
            v = x.get("value", "")
            try:
                out.append(_json.loads(v))
            except Exception:
                out.append(v.strip('"'))
    return out


def option_selects_item(r, rel, q, words, item_of_kind, cell_item, tag="identifier", twin=False, opt_name="opt", item_name="item"):
    """first switch of a list reader: for the option index i whose word names kind K the selected item is K's list"""
    fn = A.find_function(rel, q)
    sws = [x for x in A.walk(fn) if x.get("kind") == "SwitchStmt"]
    if not sws:
        raise Undecided("no switch in %s" % q)
    c = mk_ctx(functional=tuple("Get_" + k for k in ALL) + ("Get_cell",))
    f, ex, fin, names = exec_nodes(rel, q, [sws[0]], c)
    if opt_name not in names or item_name not in names:
        raise Undecided("locals %s / %s not found in %s" % (opt_name, item_name, q))
    OPT = tm.sym("L_" + opt_name, "I")
    n = 0
    for i, w in enumerate(words):
        if w in WORD2KIND:
            want = item_of_kind(WORD2KIND[w] if not (twin and w == "surface") else "exchange")
        elif w in ("cell", "cells"):
            want = cell_item
        else:
            want = None
        ss = [s for s in fin if sat(list(s.pc) + [tm.eq(OPT, tm.num(i, "I"))])]
        if len(ss) != 1:
            ok(r, "%s[-%s].one_path" % (tag, w), False, detail="%d paths" % len(ss), undecided=True); continue
        got = ss[0].locals.get(names[item_name])
        if want is None:
            ok(r, "%s[-%s].selects_no_kind's_list" % (tag, w), got is tm.NULL or got is tm.sym("L_" + item_name, "P"), "symex", repr(got))
        elif want == "local":
            ok(r, "%s[-%s].selects_the_cell_list" % (tag, w), isinstance(got, tm.T) and got.op == "sym" and got.args[0].startswith("&"), "symex", repr(got))
        else:
            n += 1
            ok(r, "%s[-%s].selects_the_list_of_its_own_kind" % (tag, w), got is want, "symex", "item = %r, expected %r" % (got, want))
    ok(r, "reach.%s" % tag, n >= 11, "symex", "%d kind words" % n, kind="vacuity", undecided=True)
    return fn, sws


@unit("C14.StorageBinList.Read.identifier_selects_its_own_kind_and_cells_expand_to_every_kind")
def unit_sbl_read(twin=False):
    """StorageBinList::Read (DELETE block; also the list part of DUMP): each identifier word selects the number list of ITS kind;
    the numbers / ranges on the line go to that list (Augment); `-all` requests every kind; `-cell(s)` numbers are transferred to
    every kind's list (an empty -cells list = all)."""
    q = "StorageBinList::Read"
    fnp = A.find_function(SBL, q)
    r = U.new_unit("C14.StorageBinList.Read.identifier_selects_its_own_kind_and_cells_expand_to_every_kind", SBL, q, fnp)
    words = vopts_of(SBL)
    fn, sws = option_selects_item(r, SBL, q, words, lambda k: tm.app("call:Get_" + k, (THIS,), "P"), tm.app("call:Get_cell", (THIS,), "P"), twin=twin)
    OPT = tm.sym("L_opt", "I")
    # second switch: only `all` acts
    if len(sws) < 2:
        raise Undecided("second switch not found")
    c = mk_ctx()
    f, ex, fin, names = exec_nodes(SBL, q, [sws[1]], c)
    for i, w in enumerate(words):
        ss = [s for s in fin if sat(list(s.pc) + [tm.eq(OPT, tm.num(i, "I"))])]
        acts = [e for s in ss for e in s.events if sh(e) in ("SetAll", "TransferAll", "Augment", "Clear", "Set_defined")]
        if w == "all":
            ok(r, "identifier[-all].requests_every_kind(SetAll(true))", len(ss) == 1 and len(acts) == 1 and sh(acts[0]) == "SetAll" and acts[0].recv is THIS and acts[0].args[0] is tm.TRUE, detail=repr(acts))
        else:
            ok(r, "identifier[-%s].second_switch_changes_no_list" % w, len(ss) == 1 and not acts and not any(sh(e) == "error_msg" for e in ss[0].events), detail=repr(acts), kind="frame")
    # the number list of the line goes to the selected item
    ifs = [x for x in A.walk(fn) if x.get("kind") == "IfStmt" and any(y.get("kind") == "ForStmt" for y in x["inner"][1:2] for y in A.walk(y))
           and any(z.get("kind") == "CXXMemberCallExpr" and strip(z["inner"][0]).get("name") == "Augment" for z in A.walk(x))]
    if not ifs:
        raise Undecided("number-list region not found")
    stash = LoopStash()
    c = mk_ctx(loop=stash)
    f, ex, fin, names = exec_nodes(SBL, q, [ifs[0]], c)
    for i, w in enumerate(words):
        entered = any(LoopStash.passed(s) and sat(list(s.pc) + [tm.eq(OPT, tm.num(i, "I"))]) for s in fin)
        ok(r, "identifier[-%s].numbers_on_the_line_%s" % (w, "are_read" if w != "all" else "are_not_read"), entered == (w != "all"), "symex+z3", "")
    ITEM = tm.sym("L_item", "P")
    nA = 0
    for node, st0 in stash.entry[:1]:
        for j, s in enumerate(stash.iter_states(node)):
            aug = [e for e in U.iter_events(s) if sh(e) == "Augment"]
            ct = [e for e in U.iter_events(s) if sh(e) == "copy_token"]
            if aug:
                nA += 1
                tokv = s.locals.get(names["token"])
                ok(r, "numbers.token_added_to_the_selected_list[path %d]" % j, len(aug) == 1 and aug[0].recv is ITEM and proved(s.pc, tm.not_(tm.eq(ITEM, tm.NULL))), "symex+z3", repr(aug))
            oth = [e for e in U.iter_events(s) if sh(e) in ("SetAll", "TransferAll", "Clear", "Set_defined")]
            ok(r, "numbers.no_other_list_changed[path %d]" % j, not oth, detail=repr(oth), kind="frame")
    ok(r, "reach.numbers", nA >= 2, "symex", "%d adding paths (digit, end of line)" % nA, kind="vacuity", undecided=True)
    # after the block: cells expand
    body = A.body_of(fn).get("inner", [])
    tail = [x for x in body if x.get("kind") == "IfStmt"]
    if not tail:
        raise Undecided("cell expansion region not found")
    c = mk_ctx(functional=("Get_cell", "Get_numbers", "Get_defined", "empty", "size"), records=("StorageBinListItem",))
    f, ex, fin, names = exec_nodes(SBL, q, [tail[-1]], c)
    CELL = tm.app("call:Get_cell", (THIS,), "P")
    dfn = tm.app("call:Get_defined", (CELL,), "B")
    emp = tm.app("call:empty", (tm.app("call:Get_numbers", (CELL,), "P"),), "B")
    seen = set()
    NUMS = tm.app("call:Get_numbers", (CELL,), "P")
    ax = [tm.eq(emp, tm.eq(tm.app("call:size", (NUMS,), "I"), tm.num(0, "I")))]
    for j, s in enumerate(fin):
        acts = [e for e in s.events if sh(e) in ("SetAll", "TransferAll", "Augment", "Clear", "Set_defined")]
        for hy, given in cases(list(s.pc) + ax, dfn):
            if not given:
                ok(r, "cells.not_given.no_list_changed%s" % ("" if "nocell" not in seen else "#%d" % j), not acts, detail=repr(acts), kind="frame"); seen.add("nocell"); continue
            for hy2, e_ in cases(hy, emp):
                if e_:
                    ok(r, "cells.given_without_numbers.requests_every_kind%s" % ("" if "allcells" not in seen else "#%d" % j), len(acts) == 1 and sh(acts[0]) == "SetAll" and acts[0].args[0] is tm.TRUE, detail=repr(acts)); seen.add("allcells")
                else:
                    ok(r, "cells.given_with_numbers.transferred_to_every_kind%s" % ("" if "cells" not in seen else "#%d" % j), len(acts) == 1 and sh(acts[0]) == "TransferAll" and acts[0].recv is THIS and acts[0].args[0] is CELL, detail=repr(acts)); seen.add("cells")
    ok(r, "reach.cells", seen == {"nocell", "allcells", "cells"}, "symex", sorted(seen), kind="vacuity", undecided=True)
    r.assumptions += ["option words -> kinds is the manual's table (WORD2KIND); parser.get_option returns the index of the word in vopts (C10 units pin CParser::find_option)",
                      "getters Get_<kind>() return the member list of that kind (one-line accessors in StorageBinList.h)", "the first switch, the number-list region, the second switch and the cell expansion are executed from arbitrary states"]
    return r


@unit("C14.StorageBinList.SetAll_TransferAll.reach_every_kind's_list")
def unit_sbl_all(twin=False):
    """GetAllItems is the set of the eleven kind lists (not the cell list); SetAll(tf) clears each and sets its request flag to tf;
    TransferAll(src) adds every number of src to every kind's list."""
    r = U.new_unit("C14.StorageBinList.SetAll_TransferAll.reach_every_kind's_list", SBL, "StorageBinList::SetAll / TransferAll / GetAllItems", A.find_function(SBL, "StorageBinList::GetAllItems"))
    fn, ex, fin = run(SBL, "StorageBinList::GetAllItems", mk_ctx())
    want = {fmap(k) for k in ALL} | ({fmap("cell")} if twin else set())
    for s in fin:
        ins = [e for e in s.events if sh(e) == "insert"]
        tgt = {e.recv for e in ins}
        got = {e.args[0] for e in ins}
        ok(r, "GetAllItems.is_exactly_the_eleven_kind_lists", got == want and len(tgt) == 1 and s.ret is list(tgt)[0], detail=sorted(map(repr, got ^ want)))
    stash = LoopStash()
    c = mk_ctx(functional=("GetAllItems", "begin", "end"), loop=stash)
    fn, ex, fin = run(SBL, "StorageBinList::SetAll", c)
    if len(stash.entry) != 1:
        raise Undecided("SetAll: one loop expected")
    node, st0 = stash.entry[0]
    ctor = [e for e in st0.events if e.name.startswith("ctor ") and e.args and e.args[0] is tm.app("call:GetAllItems", (THIS,), "P")]
    ok(r, "SetAll.walks_GetAllItems()", len(ctor) == 1, detail=repr(st0.events)[:200])
    if ctor:
        h = loop_head(ex, node, st0, sort="P")
        a, b, cc = walks_whole_set(h, ctor[0].recv, st0.pc)
        ok(r, "SetAll.visits_every_item", a and b and cc, "symex+z3", "%r %r %r" % (h["first"], h["cond"], h["next"]))
    TF = tm.sym("P0_tf", "B")
    for j, s in enumerate(stash.iter_states(node)):
        cur = deref_iter(tm.sym("iter_it", "P"), "P")
        ev = [e for e in U.iter_events(s) if sh(e) in ("Clear", "Set_defined", "Augment")]
        good = [sh(e) for e in ev] == ["Clear", "Set_defined"] and all(e.recv is cur for e in ev) and ev[1].args[0] is TF
        ok(r, "SetAll.each_item_cleared_and_flagged_with_the_argument[path %d]" % j, good, detail=repr(ev))
    stash = LoopStash()
    c = mk_ctx(functional=("GetAllItems", "begin", "end", "Get_numbers"), loop=stash)
    fn, ex, fin = run(SBL, "StorageBinList::TransferAll", c)
    if len(stash.entry) != 2:
        raise Undecided("TransferAll: two nested loops expected")
    (n1, s1), (n2, s2) = stash.entry
    SRC = tm.sym("P0_source_ref", "P")
    h1 = loop_head(ex, n1, s1, sort="P")
    ok(r, "TransferAll.outer_walk_is_over_every_number_of_the_source", all(walks_whole_set(h1, tm.app("call:Get_numbers", (SRC,), "P"), s1.pc)), "symex+z3", repr(h1["first"]))
    ctor = [e for e in s2.events if e.name.startswith("ctor ") and e.args and e.args[0] is tm.app("call:GetAllItems", (THIS,), "P")]
    h2 = loop_head(ex, n2, s2, sort="P")
    ok(r, "TransferAll.inner_walk_is_over_every_kind's_list", len(ctor) == 1 and all(walks_whole_set(h2, ctor[0].recv, s2.pc)), "symex+z3", repr(h2["first"]))
    for j, s in enumerate(stash.iter_states(n2)):
        aug = [e for e in U.iter_events(s) if sh(e) in ("Augment", "Clear", "Set_defined")]
        num = deref_iter(s1.locals.get(h1["did"]) if False else tm.sym("iter_" + h1["name"], "P"))
        item = deref_iter(tm.sym("iter_" + h2["name"], "P"), "P")
        ok(r, "TransferAll.adds_the_current_number_to_the_current_list[path %d]" % j, len(aug) == 1 and sh(aug[0]) == "Augment" and aug[0].recv is item and aug[0].args[0] is num, detail=repr(aug))
    r.assumptions += ["std::set begin/end functional; copy construction of the set from GetAllItems() keeps its elements"]
    return r


@unit("C14.StorageBinListItem.Augment.single_number_or_whole_range")
def unit_sbl_augment(twin=False):
    """Augment(int i): i joins the list and the request flag is raised - unless the list already means `all` (flag set, no numbers).
    Augment(token): the flag is raised; one number parsed -> that number joins; two numbers a b -> every integer of [min, max] joins
    (range n-m creates every number)."""
    r = U.new_unit("C14.StorageBinListItem.Augment.single_number_or_whole_range", SBL, "StorageBinListItem::Augment", A.find_function(SBL, "StorageBinListItem::Augment", type_contains="(int)"))
    NUM = fmap("numbers")
    fn, ex, fin = run(SBL, "StorageBinListItem::Augment", mk_ctx(functional=("size", "empty")), {"type_contains": "(int)"})
    I = tm.sym("P0_i", "I")
    dfd = tm.select(tm.sym("H0.defined:B", ("A", "P", "B")), THIS)
    allm = tm.and_(dfd, tm.eq(tm.app("call:size", (NUM,), "I"), tm.num(0, "I")))
    seen = set()
    for s in fin:
        ins = [e for e in s.events if sh(e) == "insert"]
        w = dict((k[1], v) for k in s.heap if k[0] == "f" for ix, v in writes(s, k))
        for hy, isall in cases(s.pc, allm):
            if isall:
                seen.add("all"); ok(r, "int.list_meaning_all_is_left_alone", not ins and not w, detail=repr(ins), kind="frame")
            else:
                seen.add("add")
                ok(r, "int.number_joins_the_list", len(ins) == 1 and ins[0].recv is NUM and ins[0].args[0] is (I if not twin else tm.add(I, tm.num(1, "I"))), detail=repr(ins))
                ok(r, "int.request_flag_raised", w.get("defined") is tm.TRUE and set(w) == {"defined"}, detail=repr(w))
    ok(r, "reach.int", seen == {"all", "add"}, "symex", sorted(seen), kind="vacuity", undecided=True)
    KWT = {"type_contains": "std::string"}
    fn, ex, fin = run(SBL, "StorageBinListItem::Augment", mk_ctx(functional=("size", "begin", "end")), KWT)
    bad = [s for s in fin if dict((k[1], v) for k in s.heap if k[0] == "f" for ix, v in writes(s, k)).get("defined") is not tm.TRUE]
    ok(r, "token.request_flag_raised_on_every_path(even_for_an_empty_list)", fin and not bad, "symex", "%d of %d paths" % (len(bad), len(fin)))
    tail = [x for x in A.body_of(fn).get("inner", []) if x.get("kind") == "IfStmt"]
    if not tail:
        raise Undecided("Augment(token): final if-chain not found")
    stash = LoopStash()
    c = mk_ctx(functional=("size", "begin", "end"), loop=stash)
    f, ex, fin, names = exec_nodes(SBL, "StorageBinListItem::Augment", [tail[-1]], c, KWT)
    tmpset = tm.sym("&L_temp_set", "P")
    sz = tm.app("call:size", (tmpset,), "I")
    lo = deref_iter(tm.app("call:begin", (tmpset,), "P"))
    hi = deref_iter(tm.app("inext", (tm.app("call:begin", (tmpset,), "P"),), "P"))
    seen = set()
    for s in fin:
        ins = [e for e in s.events if sh(e) == "insert"]
        for hy, one in cases(s.pc, tm.eq(sz, tm.num(1, "I"))):
            if one:
                seen.add("one")
                ok(r, "token.one_number.exactly_it_joins", len(ins) == 1 and ins[0].recv is NUM and ins[0].args[0] is lo and not LoopStash.passed(s), detail=repr(ins))
                continue
            for hy2, two in cases(hy, tm.eq(sz, tm.num(2, "I"))):
                if two:
                    seen.add("two")
                    ok(r, "token.two_numbers.nothing_joins_outside_the_range_loop", not ins and len(LoopStash.passed(s)) == 1, detail=repr(ins))
                else:
                    seen.add("none")
                    ok(r, "token.no_number_parsed.adds_no_number", not ins and not LoopStash.passed(s), detail=repr(ins))
    if len(stash.entry) != 1:
        raise Undecided("range loop not found")
    node, st0 = stash.entry[0]
    h = loop_head(ex, node, st0)
    ok(r, "token.range.starts_at_the_smaller_number", h["first"] is lo, "symex", repr(h["first"]))
    ok(r, "token.range.runs_through_the_larger_number_inclusive", proved(st0.pc, tm.eq(h["cond"], tm.le(h["K"], hi))), "symex+z3", repr(h["cond"]))
    ok(r, "token.range.every_integer_visited", proved(st0.pc, tm.eq(h["next"], tm.add(h["K"], tm.num(1, "I")))), "symex+z3", repr(h["next"]))
    for j, s in enumerate(stash.iter_states(node)):
        ins = [e for e in U.iter_events(s) if sh(e) == "insert"]
        ok(r, "token.range.step_adds_the_current_integer[path %d]" % j, len(ins) == 1 and ins[0].recv is NUM and ins[0].args[0] is s.locals.get(h["did"]), detail=repr(ins))
    ok(r, "reach.token", seen == {"one", "two", "none"}, "symex", sorted(seen), kind="vacuity", undecided=True)
    r.assumptions += ["the two numbers are taken from an ordered std::set<int> (first <= second); the text surgery that splits `n-m` (and `-n--m`) into two numbers is not under this contract",
                      "std::set<int>::insert adds the value; begin()/++ walk in increasing order"]
    return r


# ------------------------------------------------------------------------------------------------------------------ COPY keyword
def velem(owner_field, vec_field, j, obj=THIS):
    """value of obj->owner_field.vec_field[j] in the entry state (std::vector<int> member of a struct member)"""
    v = tm.app("fld:" + vec_field, (fmap(owner_field, obj),), "P")
    data = tm.select(tm.sym("H0.#vdata:P", ("A", "P", "P")), v)
    return tm.select(tm.sym("H0.mem:I", ("A", "P", "I", "I")), data, j)


def vsize(owner_field, vec_field, obj=THIS):
    return tm.select(tm.sym("H0.#vsize:I", ("A", "P", "I")), tm.app("fld:" + vec_field, (fmap(owner_field, obj),), "P"))


@unit("C14.copy_entities.every_request_copies_its_source_onto_exactly_its_target_range")
def unit_copy_entities(twin=False):
    """Phreeqc::copy_entities: for each kind K and each recorded request (n_user, start, end) of K: if K's store holds n_user, every
    number i of [start, end] other than n_user receives a copy of entry n_user of K's store (Rxn_copy(K's store, n_user, i)); if it
    does not, nothing is copied; the request list of K is emptied afterwards and the pending flag new_copy is lowered."""
    q = "Phreeqc::copy_entities"
    fnp = A.find_function(MS, q)
    r = U.new_unit("C14.copy_entities.every_request_copies_its_source_onto_exactly_its_target_range", MS, q, fnp)
    body = A.body_of(fnp).get("inner", [])
    seen = {}
    for bi, node in enumerate(body):
        if node.get("kind") != "ForStmt":
            continue
        stash = LoopStash()
        c = mk_ctx(functional=("Rxn_find",), loop=stash)
        nxt = body[bi + 1] if bi + 1 < len(body) else None
        fn, ex, fin, names = exec_nodes(MS, q, [node] + ([nxt] if nxt is not None and nxt.get("kind") not in ("ForStmt", "ReturnStmt") else []), c)
        if len(stash.entry) != 2:
            ok(r, "block%d.request_loop_with_one_target_loop" % bi, False, detail="%d loops" % len(stash.entry), undecided=True); continue
        (n1, s1), (n2, s2) = stash.entry
        h1 = loop_head(ex, n1, s1)
        # which copier does the outer loop walk
        K = None
        for k in ALL:
            if h1["cond"] is not None and proved(s1.pc, tm.eq(h1["cond"], tm.lt(h1["K"], vsize("copy_" + k, "n_user")))):
                K = k
        if K is None:
            ok(r, "block%d.walks_the_request_list_of_one_kind" % bi, False, detail=repr(h1["cond"])); continue
        if K in seen:
            ok(r, "%s.one_block" % K, False, detail="second block"); continue
        seen[K] = True
        cp = "copy_" + K
        own = fmap(KIND[K if not (twin and K == "surface") else "exchange"]["map"])
        ok(r, "%s.every_request_visited" % K, tm.isnum(h1["first"]) and h1["first"].args[0] == 0 and proved(s1.pc, tm.eq(h1["next"], tm.add(h1["K"], tm.num(1, "I")))), "symex+z3", "first %r next %r" % (h1["first"], h1["next"]))
        J = tm.sym("iter_" + h1["name"], "I")
        src = velem(cp, "n_user", J)
        got = set()
        for k2, s in enumerate(stash.iter_states(n1)):
            evs = U.iter_events(s)
            fnd = [e for e in evs if sh(e) == "Rxn_find"]
            if len(fnd) != 1 or fnd[0].args[0] is not own or fnd[0].args[1] is not src:
                ok(r, "%s.source_looked_up_in_its_own_store_under_the_requested_number#%d" % (K, k2), False, detail=repr(fnd)); continue
            for hy, present in cases(s.pc, tm.not_(tm.eq(fnd[0].result, tm.NULL))):
                cps = [e for e in evs if sh(e) in ("Rxn_copy", "Rxn_copies") or e.name.startswith("map.")]
                inner = [x for x in LoopStash.passed(s) if x is n2]
                if present:
                    ok(r, "%s.source_present.targets_walked%s" % (K, "" if "present" not in got else "#%d" % k2), len(inner) == 1 and not cps, detail=repr(cps)); got.add("present")
                else:
                    ok(r, "%s.source_missing.store_unchanged%s" % (K, "" if "missing" not in got else "#%d" % k2), not inner and not cps, detail=repr(cps), kind="frame"); got.add("missing")
        ok(r, "%s.source_looked_up_in_its_own_store_under_the_requested_number" % K, got == {"present", "missing"}, "symex", sorted(got))
        h2 = loop_head(ex, n2, s2)
        ok(r, "%s.targets.first_is_start" % K, h2["first"] is not None and proved(s2.pc, tm.eq(h2["first"], velem(cp, "start", J))), "symex+z3", repr(h2["first"]))
        ok(r, "%s.targets.through_end_inclusive" % K, proved(s2.pc, tm.eq(h2["cond"], tm.le(h2["K"], velem(cp, "end", J)))), "symex+z3", repr(h2["cond"]))
        ok(r, "%s.targets.every_number_visited" % K, proved(s2.pc, tm.eq(h2["next"], tm.add(h2["K"], tm.num(1, "I")))), "symex+z3", repr(h2["next"]))
        I = tm.sym("iter_" + h2["name"], "I")
        got = set()
        for k2, s in enumerate(stash.iter_states(n2)):
            evs = [e for e in U.iter_events(s) if sh(e) in ("Rxn_copy", "Rxn_copies") or e.name.startswith("map.")]
            for hy, same in cases(s.pc, tm.eq(I, src)):
                if same:
                    ok(r, "%s.targets.source_number_itself_is_left_alone%s" % (K, "" if "same" not in got else "#%d" % k2), not evs, detail=repr(evs), kind="frame"); got.add("same")
                else:
                    good = len(evs) == 1 and sh(evs[0]) == "Rxn_copy" and evs[0].args[0] is own and evs[0].args[1] is src and proved(hy, tm.eq(evs[0].args[2], I))
                    ok(r, "%s.targets.number_i_gets_a_copy_of_the_source_in_its_own_store%s" % (K, "" if "copy" not in got else "#%d" % k2), good, "trace+z3", repr(evs)); got.add("copy")
        early = [s.status for s in stash.iter_states(n2) if s.status == "brk"] + [s.status for s in stash.iters.get(id(n2), []) if s.status in ("ret", "throw") or s.status.startswith("goto:")]
        ok(r, "%s.targets.no_number_of_the_range_ends_the_walk_early(no_break/return_in_the_target_loop)" % K, not early, "symex", repr(early))
        ok(r, "reach.%s" % K, got == {"same", "copy"}, "symex", sorted(got), kind="vacuity", undecided=True)
        cl = [e for s in fin for e in s.events if sh(e) == "copier_clear"]
        ok(r, "%s.request_list_emptied_afterwards" % K, len(fin) == 1 and len(cl) == 1 and cl[0].args[0] is fmap(cp) and fin[0].events.index(cl[0]) > max(i for i, e in enumerate(fin[0].events) if e.name == "loop_passed"), detail=repr(cl))
    ok(r, "every_kind_has_a_block", set(seen) == set(ALL), detail="missing %s" % sorted(set(ALL) - set(seen)))
    tail = [x for x in body if x.get("kind") in ("BinaryOperator", "CompoundAssignOperator")]
    fn, ex, fin, names = exec_nodes(MS, q, tail, mk_ctx()) if tail else (None, None, [], {})
    w = dict((k[1], v) for s in fin for k in s.heap if k[0] == "f" for ix, v in writes(s, k))
    ok(r, "pending_flag_lowered(new_copy=FALSE)", w.get("new_copy") is not None and tm.isnum(w["new_copy"]) and w["new_copy"].args[0] == 0, detail=repr(w))
    r.assumptions += ["Utilities::Rxn_find / Rxn_copy are under C14.Rxn_find / C14.Rxn_copy (content-identical copy renumbered to the target)",
                      "std::vector<int> model for the request lists; size_t induction variable read as a mathematical integer (negative numbers in a COPY target are not modelled)",
                      "copier_clear empties the three vectors of the list it is given (C14.copier_add_clear)"]
    return r


@unit("C14.read_copy.request_recorded_for_the_named_kind_with_source_and_range")
def unit_read_copy(twin=False):
    """Phreeqc::read_copy, recording switch: `COPY <kind> n a-b` appends (n, a, b) to the request list of exactly that kind;
    `COPY cell n a-b` appends it to every kind's list."""
    q = "Phreeqc::read_copy"
    fnp = A.find_function(RD, q)
    r = U.new_unit("C14.read_copy.request_recorded_for_the_named_kind_with_source_and_range", RD, q, fnp)
    sws = [x for x in A.body_of(fnp).get("inner", []) if x.get("kind") == "SwitchStmt"]
    if len(sws) != 2:
        raise Undecided("read_copy: two switches expected, found %d" % len(sws))
    keys = ["KEY_" + d["key"] for d in KINDS] + ["KEY_NONE"]
    ev = A.enum_values_compiled("Keywords.h", ["Keywords::" + k for k in keys])
    ev = {k.split("::")[-1]: v for k, v in ev.items()}
    handlers = {}
    c = mk_ctx(functional=("strstr",), enums=ev)
    fn, ex, fin, names = exec_nodes(RD, q, [sws[1]], c)
    NK = tm.select(tm.sym("H0.next_keyword:I", ("A", "P", "I")), THIS)
    def lv(name):
        return tm.select(tm.sym("H0.mem:I", ("A", "P", "I", "I")), tm.sym("&L_" + name, "P"), tm.num(0, "I"))
    want_args = (lv("n_user"), lv("n_user_start"), lv("n_user_end") if not twin else lv("n_user_start"))
    for d in KINDS:
        ss = [s for s in fin if sat(list(s.pc) + [tm.eq(NK, tm.num(ev["KEY_" + d["key"]], "I"))])]
        adds = [e for s in ss for e in s.events if sh(e) == "copier_add"]
        good = len(ss) == 1 and len(adds) == 1 and adds[0].args[0] is fmap("copy_" + d["k"]) and tuple(adds[0].args[1:]) == want_args
        ok(r, "COPY_%s.appends_(source,start,end)_to_its_own_list_only" % d["k"], good, "symex", repr(adds))
    ss = [s for s in fin if sat(list(s.pc) + [tm.eq(NK, tm.num(ev["KEY_NONE"], "I"))]) and s.status != "ret"]
    n = 0
    for s in ss:
        adds = [e for e in s.events if sh(e) == "copier_add"]
        if not adds:
            continue
        n += 1
        tg = [e.args[0] for e in adds]
        ok(r, "COPY_cell.appends_to_every_kind's_list_once", sorted(map(repr, tg)) == sorted(repr(fmap("copy_" + k)) for k in ALL) and all(tuple(e.args[1:]) == want_args for e in adds), "symex", repr(tg)[:300])
    ok(r, "reach.cell", n == 1, "symex", n, kind="vacuity", undecided=True)
    r.assumptions += ["the three numbers are whatever the token reader left in n_user / n_user_start / n_user_end (sscanf, replace of `-`: not under this contract)",
                      "next_keyword identifies the kind word (check_key)"]
    return r


@unit("C14.copier_add_clear.append_one_request_empty_the_list")
def unit_copier(twin=False):
    ST = "src/phreeqcpp/structures.cpp"
    r = U.new_unit("C14.copier_add_clear.append_one_request_empty_the_list", ST, "Phreeqc::copier_add / copier_clear", A.find_function(ST, "Phreeqc::copier_add"))
    fn, ex, fin = run(ST, "Phreeqc::copier_add", mk_ctx())
    P = tm.sym("P0_copier_ptr", "P")
    for s in fin:
        pb = [(member_name(e.recv), e.recv.args[1], e.args[1]) for e in s.events if e.name == "vector.push_back"]
        want = [("n_user", P, tm.sym("P1_n_user", "I")), ("start", P, tm.sym("P2_start", "I")), ("end", P, tm.sym("P3_end" if not twin else "P2_start", "I"))]
        ok(r, "copier_add.appends_each_number_to_its_own_vector_of_the_list_given", sorted(pb, key=repr) == sorted(want, key=repr), detail=repr(pb))
    fn, ex, fin = run(ST, "Phreeqc::copier_clear", mk_ctx(log_stores=True))
    for s in fin:
        cl = sorted(member_name(e.recv) for e in s.events if e.name == "vector.clear" and e.recv.args[1] is P)
        ok(r, "copier_clear.empties_all_three_vectors", cl == ["end", "n_user", "start"], detail=repr(cl))
    return r


# -------------------------------------------------------------------------------------------------------------------- USE / SAVE
def key_values(names):
    ev = A.enum_values_compiled("Keywords.h", ["Keywords::" + k for k in names])
    return {k.split("::")[-1]: v for k, v in ev.items()}


@unit("C14.read_use.number_and_flag_recorded_for_the_named_kind_only")
def unit_read_use(twin=False):
    """Phreeqc::read_use, recording switch: `USE <kind> n` records n as the number of that kind to use and switches the kind in
    exactly when n >= 0 (`none` = -2 switches it out); no other kind's number or flag is touched."""
    q = "Phreeqc::read_use"
    fnp = A.find_function(RD, q)
    r = U.new_unit("C14.read_use.number_and_flag_recorded_for_the_named_kind_only", RD, q, fnp)
    sws = [x for x in A.body_of(fnp).get("inner", []) if x.get("kind") == "SwitchStmt"]
    if len(sws) != 1:
        raise Undecided("read_use: one switch expected")
    ev = key_values(["KEY_" + d["key"] for d in KINDS])
    c = mk_ctx(enums=ev)
    fn, ex, fin, names = exec_nodes(RD, q, [sws[0]], c)
    NK = tm.select(tm.sym("H0.next_keyword:I", ("A", "P", "I")), THIS)
    N = local_int("n_user")
    USE = fmap("use")
    for d in KINDS:
        K = d["k"]
        ss = [s for s in fin if sat(list(s.pc) + [tm.eq(NK, tm.num(ev["KEY_" + d["key"]], "I"))])]
        got = set()
        for j, s in enumerate(ss):
            sets = [e for e in s.events if sh(e).startswith("Set_")]
            for hy, nonneg in cases(s.pc, tm.le(tm.num(0, "I"), N) if not (twin and K == "mix") else tm.lt(tm.num(0, "I"), N)):
                nm = [e for e in sets if sh(e) == "Set_n_%s_user" % K]
                fl = [e for e in sets if sh(e) == "Set_%s_in" % K]
                good = len(sets) == 2 and len(nm) == 1 and len(fl) == 1 and nm[0].recv is USE and fl[0].recv is USE and nm[0].args[0] is N and proved(hy, tm.to_bool(fl[0].args[0]) if nonneg else tm.not_(tm.to_bool(fl[0].args[0])))
                tag = "in" if nonneg else "out"
                ok(r, "USE_%s.number_recorded_and_switched_%s%s" % (K, tag, "" if tag not in got else "#%d" % j), good, "symex+z3", repr(sets)); got.add(tag)
        ok(r, "reach.USE_%s" % K, got == {"in", "out"}, "symex", sorted(got), kind="vacuity", undecided=True)
    r.assumptions += ["cxxUse setters store their argument in the member they name (one-line accessors in Use.h)", "n_user is whatever the token reader left (sscanf / `none` -> -2: outside this region)"]
    return r


@unit("C14.read_save.range_recorded_for_the_named_kind_only")
def unit_read_save(twin=False):
    """Phreeqc::read_save: `SAVE <kind> n[-m]` raises the save flag of that kind and records [n, m] (m = n when one number is
    given; 1..1 when none) as the range to write; no other kind's flag or range is touched."""
    q = "Phreeqc::read_save"
    fnp = A.find_function(RD, q)
    r = U.new_unit("C14.read_save.range_recorded_for_the_named_kind_only", RD, q, fnp)
    sws = [x for x in A.body_of(fnp).get("inner", []) if x.get("kind") == "SwitchStmt"]
    if len(sws) != 1:
        raise Undecided("read_save: one switch expected")
    SAVEK = ["solution", "pp_assemblage", "exchange", "surface", "gas_phase", "ss_assemblage"]
    ev = key_values(["KEY_" + d["key"] for d in KINDS])
    fn, ex, fin, names = exec_nodes(RD, q, [sws[0]], mk_ctx(enums=ev))
    NK = tm.select(tm.sym("H0.next_keyword:I", ("A", "P", "I")), THIS)
    N, NE = local_int("n_user"), local_int("n_user_end")
    SV = fmap("save")
    for K in SAVEK:
        ss = [s for s in fin if sat(list(s.pc) + [tm.eq(NK, tm.num(ev["KEY_" + KIND[K]["key"]], "I"))])]
        w = field_writes(ss[0]) if len(ss) == 1 else {}
        want = {K: tm.num(1, "I"), "n_%s_user" % K: N, "n_%s_user_end" % K: NE if not (twin and K == "surface") else N}
        good = len(ss) == 1 and set(w) == set(want) and all(w[k] is want[k] or proved(ss[0].pc, tm.eq(w[k], want[k])) for k in want) and \
            all(ix[0] is SV for kk in ss[0].heap if kk[0] == "f" for ix, v in writes(ss[0], kk))
        ok(r, "SAVE_%s.flag_raised_and_[n,m]_recorded_for_this_kind_only" % K, good, "symex+z3", repr(w))
    # one number -> m = n ; no number -> 1..1
    loops = loops_of(fnp)
    if len(loops) != 1:
        raise Undecided("read_save: the number-reading loop was not found")
    c = mk_ctx(handlers={"sscanf": sscanf_handler})
    fn2, ex2, its, info = U.run_loop_isolated(RD, q, 0, ctx=c)
    seen = set()
    for j, s in enumerate(its):
        if s.status != "brk" or not sat(s.pc):
            continue
        sc = [e for e in U.iter_events(s) if sh(e) == "sscanf"]
        n_end = ex2.load(s, ("local", info["names"]["n_user_end"], "n_user_end"), "I")
        n_beg = ex2.load(s, ("local", info["names"]["n_user"], "n_user"), "I")
        if sc:
            for hy, one in cases(s.pc, tm.eq(sc[0].result, tm.num(1, "I"))):
                if one:
                    ok(r, "one_number_given.range_is_[n,n]%s" % ("" if "one" not in seen else "#%d" % j), proved(hy, tm.eq(n_end, n_beg)), "symex+z3", "%r vs %r" % (n_end, n_beg)); seen.add("one")
                else:
                    seen.add("two")
        else:
            ok(r, "no_number_given.range_is_[1,1]%s" % ("" if "none" not in seen else "#%d" % j), proved(s.pc, tm.and_(tm.eq(n_beg, tm.num(1, "I")), tm.eq(n_end, tm.num(1, "I")))), "symex+z3", "%r %r" % (n_beg, n_end)); seen.add("none")
    ok(r, "reach.number_reading", seen == {"one", "two", "none"}, "symex", sorted(seen), kind="vacuity", undecided=True)
    r.assumptions += ["sscanf(token, \"%d%d\", &n, &m) leaves arbitrary values and returns the count of numbers converted; replace(`-`,` `) splits n-m", "saver() acts on the recorded range (C14.saver.*)"]
    return r


@unit("C14.do_mixes.each_kind's_pending_mix_is_applied_to_its_own_store")
def unit_do_mixes(twin=False):
    """Phreeqc::do_mixes: for each of the seven kinds that have *_MIX definitions, Rxn_mix is called with THAT kind's pending-mix
    list and THAT kind's store (so the mixed entity lands under the MIX's number in the right store, C14.Rxn_mix), once each."""
    q = "Phreeqc::do_mixes"
    fnp = A.find_function(MS, q)
    r = U.new_unit("C14.do_mixes.each_kind's_pending_mix_is_applied_to_its_own_store", MS, q, fnp)
    fn, ex, fin = run(MS, q, mk_ctx(functional=("size",)))
    MIXK = ["solution", "exchange", "gas_phase", "kinetics", "pp_assemblage", "ss_assemblage", "surface"]
    for j, s in enumerate(fin[:1]):
        mx = [e for e in s.events if sh(e) == "Rxn_mix"]
        pairs = sorted((member_name(e.args[0]) or repr(e.args[0]), member_name(e.args[1]) or repr(e.args[1])) for e in mx)
        want = sorted(("Rxn_%s_mix_map" % k, "Rxn_%s_map" % (k if not (twin and k == "surface") else "exchange")) for k in MIXK)
        ok(r, "one_Rxn_mix_per_kind_pairing_its_pending_list_with_its_own_store", pairs == want, "trace", "got %r" % (pairs,))
        ok(r, "engine_passed_as_cookie", all(len(e.args) == 3 and e.args[2] is THIS for e in mx), "trace", "")
    allp = all(sorted(member_name(e.args[0]) or "?" for e in s.events if sh(e) == "Rxn_mix") == sorted("Rxn_%s_mix_map" % k for k in MIXK) for s in fin)
    ok(r, "every_path_applies_all_seven", allp and len(fin) >= 1, "trace", "%d paths" % len(fin))
    r.assumptions += ["Utilities::Rxn_mix is under C14.Rxn_mix; the update_kin_/min_ follow-ups are not under this contract"]
    return r


# ------------------------------------------------------------------------------------------------------------------ cxxStorageBin
SB = "src/phreeqcpp/StorageBin.cxx"


def _has(mp, key):
    return tm.select(tm.sym("H0.#mhas:B[I]", ("A", "P", "I", "B")), mp, key)


def _from_object(t, p):
    """term t denotes the object p points to (the engine renders `*p` of class type as a load from p)"""
    return t is p or has_sub(t, p)


@unit("C14.StorageBin.accessors.each_kind_has_its_own_store_keyed_by_number")
def unit_sb_accessors(twin=False):
    """cxxStorageBin::Get_K(n) / Set_K(n, entity) / Remove_K(n) for the eleven kinds K: Get returns the entry n of K's own store or
    NULL and writes nothing; Set stores a copy of the entity under n in K's own store and renumbers the copy to n (a NULL entity
    changes nothing); Remove erases n from K's own store; no other store is touched."""
    r = U.new_unit("C14.StorageBin.accessors.each_kind_has_its_own_store_keyed_by_number", SB, "cxxStorageBin::Get_* / Set_* / Remove_*", A.find_function(SB, "cxxStorageBin::Remove"))
    N = tm.sym("P0_n_user", "I")
    stl = STL2(SX)
    for d in KINDS:
        K, own = d["k"], fmap(d["sbm"] if not (twin and d["k"] == "surface") else "Exchangers")
        # Get
        fn, ex, fin = run(SB, "cxxStorageBin::Get_" + d["sb"], mk_ctx(functional=("Rxn_find",)), {"nparams": 1}, bulk="cxxStorageBin::Get_")
        for j, s in enumerate(fin):
            wr = [e for e in s.events if e.name.startswith("map.")] + [k for k, v in s.heap.items() if v is not None and v.op == "store"]
            fd = [e for e in s.events if sh(e) == "Rxn_find"]
            if fd:
                good = len(fd) == 1 and fd[0].args[0] is own and fd[0].args[1] is N and s.ret is fd[0].result
            else:
                good = proved(s.pc, tm.eq(s.ret, tm.ite(_has(own, N), stl.mobj(own, N), tm.NULL)))
            ok(r, "Get_%s.returns_entry_n_of_its_own_store_or_NULL[path %d]" % (d["sb"], j), good and not wr, "symex+z3", "ret %r" % (s.ret,))
        # Set (pointer and reference overloads)
        for ov, kw in (("ptr", {"type_contains": d["cls"] + " *"}), ("ref", {"type_contains": d["cls"] + " &"})):
            fn, ex, fin = run(SB, "cxxStorageBin::Set_" + d["sb"], mk_ctx(), kw, bulk="cxxStorageBin::Set_")
            E = tm.sym("P1_entity", "P")
            seen = set()
            for j, s in enumerate(fin):
                mapev = [e for e in s.events if e.name.startswith("map.")]
                asg = [e for e in s.events if sh(e) == "operator=" and "iterator" not in e.name]
                ren = [e for e in s.events if sh(e) in ("Set_n_user_both", "Set_n_user", "Set_n_user_end")]
                for hy, given in (cases(s.pc, tm.not_(tm.eq(E, tm.NULL))) if ov == "ptr" else [(list(s.pc), True)]):
                    tag = "Set_%s(%s)" % (d["sb"], ov)
                    if not given:
                        ok(r, tag + ".NULL_entity_changes_nothing", not mapev and not asg and not ren, detail=repr(mapev + asg + ren), kind="frame"); seen.add("null"); continue
                    seen.add("set")
                    dst = stl.mobj(own, N)
                    g1 = len(mapev) == 1 and mapev[0].name == "map.operator[]" and mapev[0].recv is own and mapev[0].args[0] is N
                    g2 = len(asg) == 1 and asg[0].recv is dst and _from_object(asg[0].args[0], E)
                    g3 = len(ren) >= 1 and all(e.recv is dst and e.args[0] is N for e in ren) and ({sh(e) for e in ren} == {"Set_n_user_both"} or {sh(e) for e in ren} == {"Set_n_user", "Set_n_user_end"})
                    g4 = bool(asg) and bool(ren) and s.events.index(asg[0]) < s.events.index(ren[0])
                    ok(r, tag + ".copy_of_the_entity_stored_under_n_in_its_own_store_and_renumbered_to_n", g1 and g2 and g3 and g4, "trace", repr(mapev + asg + ren))
            ok(r, "reach.Set_%s(%s)" % (d["sb"], ov), seen == ({"null", "set"} if ov == "ptr" else {"set"}), "symex", sorted(seen), kind="vacuity", undecided=True)
        # Remove
        fn, ex, fin = run(SB, "cxxStorageBin::Remove_" + d["sb"], mk_ctx(), bulk="cxxStorageBin::Remove")
        for j, s in enumerate(fin):
            mapev = [e for e in s.events if e.name.startswith("map.")]
            ok(r, "Remove_%s.erases_n_from_its_own_store_only" % d["sb"], len(fin) == 1 and len(mapev) == 1 and mapev[0].name == "map.erase" and mapev[0].recv is own and mapev[0].args[0] is N, "trace", repr(mapev))
    r.assumptions += ["std::map model; T::operator= copies the whole object; Set_n_user_both(n) sets n_user = n_user_end = n (NumKeyword.h)", "Utilities::Rxn_find under C14.Rxn_find (used by Get_Pressure)"]
    return r


@unit("C14.StorageBin.Remove_Clear.act_on_every_store")
def unit_sb_remove_clear(twin=False):
    """cxxStorageBin::Remove(n) erases n from each of the eleven stores (and nothing else); Clear() empties each of the eleven."""
    r = U.new_unit("C14.StorageBin.Remove_Clear.act_on_every_store", SB, "cxxStorageBin::Remove / Clear", A.find_function(SB, "cxxStorageBin::Remove"))
    allm = sorted(d["sbm"] for d in KINDS if not (twin and d["k"] == "pressure"))
    fn, ex, fin = run(SB, "cxxStorageBin::Remove", mk_ctx(), bulk="cxxStorageBin::Remove")
    N = tm.sym("P0_n", "I")
    for s in fin:
        mapev = [e for e in s.events if e.name.startswith("map.")]
        ok(r, "Remove.erases_n_from_each_store_once", len(fin) == 1 and sorted(member_name(e.recv) for e in mapev) == allm and all(e.name == "map.erase" and e.args[0] is N and e.recv.args[1] is THIS for e in mapev), "trace", repr(mapev)[:300])
    fn, ex, fin = run(SB, "cxxStorageBin::Clear", mk_ctx())
    for s in fin:
        mapev = [e for e in s.events if e.name.startswith("map.")]
        ok(r, "Clear.empties_each_store", len(fin) == 1 and sorted(member_name(e.recv) for e in mapev) == allm and all(e.name == "map.clear" and e.recv.args[1] is THIS for e in mapev), "trace", repr(mapev)[:300])
    return r


@unit("C14.StorageBin.Add_Copy.entity_n_of_each_kind_goes_to_the_same_kind_under_the_target_number")
def unit_sb_add_copy(twin=False):
    """cxxStorageBin::Add(src, n): for each kind K, if src holds K number n it is Set into this bin's K under n, otherwise K is left
    alone.  cxxStorageBin::Copy(dst, source): nothing when dst == source; otherwise every kind's dst entry is removed first and
    each kind K that has an entry `source` gets it Set under dst (K's own store both ways)."""
    fnA = find_bulk(SB, "cxxStorageBin::Add", "cxxStorageBin::Add")
    r = U.new_unit("C14.StorageBin.Add_Copy.entity_n_of_each_kind_goes_to_the_same_kind_under_the_target_number", SB, "cxxStorageBin::Add / Copy", fnA)
    SRC, N = tm.sym("P0_src", "P"), tm.sym("P1_n", "I")
    getters = tuple("Get_" + d["sb"] for d in KINDS)
    seen = {}
    for node in A.body_of(fnA).get("inner", []):
        if node.get("kind") != "IfStmt":
            continue
        c = mk_ctx(functional=getters)
        ex = SX.Exec(c); st = arb_state(ex, fnA, c)
        st.locals[names_of(fnA)["n"]] = N
        fin = [s for s in ex.exec(node, [st]) if sat(s.pc)]
        gk = {sh(e)[4:] for s in fin for e in s.events if sh(e).startswith("Set_")}
        if len(gk) != 1 or gk & {"Exchange"} and twin and False:
            ok(r, "Add.block_sets_one_kind", False, detail=repr(gk)); continue
        sbn = gk.pop()
        if sbn not in [x["sb"] for x in KINDS]:
            ok(r, "Add.block_sets_one_kind", False, detail=sbn); continue
        d = next(x for x in KINDS if x["sb"] == sbn)
        seen[d["k"]] = True
        ent = tm.app("call:Get_" + sbn, (tm.sym("L_src_ref", "P"), N), "P")
        got = set()
        for j, s in enumerate(fin):
            sets = [e for e in s.events if sh(e).startswith("Set_") or sh(e).startswith("Remove")]
            for hy, has in cases(s.pc, tm.not_(tm.eq(ent, tm.NULL))):
                if has:
                    want = "Set_" + sbn
                    ok(r, "Add.%s.present_in_src.Set_into_the_same_kind_under_n%s" % (sbn, "" if "has" not in got else "#%d" % j),
                       len(sets) == 1 and sh(sets[0]) == want and sets[0].recv is THIS and sets[0].args[0] is (N if not (twin and sbn == "Surface") else tm.add(N, tm.num(1, "I"))) and sets[0].args[1] is ent, "trace", repr(sets)); got.add("has")
                else:
                    ok(r, "Add.%s.absent_in_src.kind_left_alone%s" % (sbn, "" if "no" not in got else "#%d" % j), not sets, "trace", repr(sets), kind="frame"); got.add("no")
        ok(r, "reach.Add.%s" % sbn, got == {"has", "no"}, "symex", sorted(got), kind="vacuity", undecided=True)
    ok(r, "Add.every_kind_has_a_block", set(seen) == set(ALL), detail="missing %s" % sorted(set(ALL) - set(seen)))
    # Copy
    fnC = find_bulk(SB, "cxxStorageBin::Copy", "cxxStorageBin::Copy")
    body = A.body_of(fnC).get("inner", [])
    D, S_ = tm.sym("L_destination", "I"), tm.sym("L_source", "I")
    head = [x for x in body if x.get("kind") != "CompoundStmt"]
    c = mk_ctx()
    ex = SX.Exec(c); st = arb_state(ex, fnC, c)
    states = [st]
    for n_ in head:
        states = ex.exec(n_, states)
    for s in [s for s in states if sat(s.pc)]:
        acts = [e for e in s.events if sh(e).startswith(("Set_", "Remove")) or e.name.startswith("map.")]
        for hy, same in cases(s.pc, tm.eq(D, S_)):
            if same:
                ok(r, "Copy.onto_itself_changes_nothing", s.status == "ret" and not acts, "symex", repr(acts), kind="frame")
            else:
                ok(r, "Copy.target_number_cleared_in_every_kind_first", s.status == "run" and len(acts) == 1 and sh(acts[0]) == "Remove" and acts[0].recv is THIS and acts[0].args[0] is D, "symex", repr(acts))
    seen = {}
    stl = STL2(SX)
    for node in [x for x in body if x.get("kind") == "CompoundStmt"]:
        c = mk_ctx(functional=("Rxn_find",))
        ex = SX.Exec(c); st = arb_state(ex, fnC, c)
        fin = [s for s in ex.exec(node, [st]) if sat(s.pc)]
        sets = [e for s in fin for e in s.events if sh(e).startswith("Set_")]
        if not sets:
            ok(r, "Copy.block_sets_one_kind", False, detail="no Set_ in block"); continue
        sbn = sh(sets[0])[4:]
        d = next((x for x in KINDS if x["sb"] == sbn), None)
        if d is None:
            ok(r, "Copy.block_sets_one_kind", False, detail=sbn); continue
        seen[d["k"]] = True
        own = fmap(d["sbm"] if not (twin and sbn == "Mix") else "Reactions")
        got = set()
        for j, s in enumerate(fin):
            se = [e for e in s.events if sh(e).startswith(("Set_", "Remove")) or e.name.startswith("map.")]
            fd = [e for e in s.events if sh(e) == "Rxn_find"]
            if fd:
                # Set_K(dst, Rxn_find(own, source)): a NULL entity is ignored by Set_K (C14.StorageBin.accessors)
                good = len(se) == 1 and sh(se[0]) == "Set_" + sbn and se[0].args[0] is D and se[0].args[1] is fd[0].result and fd[0].args[0] is own and fd[0].args[1] is S_
                ok(r, "Copy.%s.entry_source_of_its_own_store_Set_under_dst(NULL_ignored_by_Set)" % sbn, good, "trace", repr(se + fd)); got |= {"has", "no"}
                continue
            for hy, has in cases(s.pc, _has(own, S_)):
                if has:
                    good = len(se) == 1 and sh(se[0]) == "Set_" + sbn and se[0].recv is THIS and se[0].args[0] is D and se[0].args[1] is stl.mobj(own, S_)
                    ok(r, "Copy.%s.entry_source_of_its_own_store_Set_under_dst%s" % (sbn, "" if "has" not in got else "#%d" % j), good, "trace", repr(se)); got.add("has")
                else:
                    ok(r, "Copy.%s.no_entry_source.kind_left_alone%s" % (sbn, "" if "no" not in got else "#%d" % j), not se, "trace", repr(se), kind="frame"); got.add("no")
        ok(r, "reach.Copy.%s" % sbn, got == {"has", "no"}, "symex", sorted(got), kind="vacuity", undecided=True)
    ok(r, "Copy.every_kind_has_a_block", set(seen) == set(ALL), detail="missing %s" % sorted(set(ALL) - set(seen)))
    r.assumptions += ["Get_K / Set_K / Remove are under C14.StorageBin.accessors / Remove_Clear; Get_K functional (no writes); blocks executed from arbitrary states (order-independent)"]
    return r


# ----------------------------------------------------------------------------------------------------------------- component list
IPQ = "src/IPhreeqc.cpp"


@unit("C14.IPhreeqc.components.cache_refreshed_from_the_engine_and_indexed_in_list_order")
def unit_components(twin=False):
    """IPhreeqc::ListComponents / GetComponentCount / GetComponent(n): when the cache is stale it is emptied and refilled from the
    engine's list_components (then marked fresh), otherwise left alone; the count is the size of that list after refreshing;
    GetComponent(n) refreshes first, answers "" for n outside [0, count) and otherwise the n-th element in list order."""
    fnp = A.find_function(IPQ, "IPhreeqc::ListComponents")
    r = U.new_unit("C14.IPhreeqc.components.cache_refreshed_from_the_engine_and_indexed_in_list_order", IPQ, "IPhreeqc::ListComponents / GetComponentCount / GetComponent", fnp)
    COMP = fmap("Components")
    fn, ex, fin = run(IPQ, "IPhreeqc::ListComponents", mk_ctx())
    stale = tm.select(tm.sym("H0.UpdateComponents:B", ("A", "P", "B")), THIS)
    PP = tm.select(tm.sym("H0.PhreeqcPtr:P", ("A", "P", "P")), THIS)
    got = set()
    for j, s in enumerate(fin):
        w = field_writes(s)
        cl = [e for e in s.events if sh(e) == "clear" and e.recv is COMP]
        lc = [e for e in s.events if sh(e) == "list_components"]
        ok(r, "ListComponents.returns_the_cached_list[path %d]" % j, s.ret is COMP, "symex", repr(s.ret))
        for hy, st_ in cases(s.pc, stale):
            if st_:
                good = len(cl) == 1 and len(lc) == 1 and lc[0].recv is PP and lc[0].args[0] is COMP and s.events.index(cl[0]) < s.events.index(lc[0])
                ok(r, "ListComponents.stale.emptied_then_refilled_from_the_engine%s" % ("" if "stale" not in got else "#%d" % j), good, "trace", repr(cl + lc))
                ok(r, "ListComponents.stale.marked_fresh%s" % ("" if "stale" not in got else "#%d" % j), w.get("UpdateComponents") is (tm.FALSE if not twin else tm.TRUE), "symex", repr(w)); got.add("stale")
            else:
                ok(r, "ListComponents.fresh.cache_left_alone%s" % ("" if "fresh" not in got else "#%d" % j), not s.events and not w, "trace", repr(s.events), kind="frame"); got.add("fresh")
    ok(r, "reach.ListComponents", got == {"stale", "fresh"}, "symex", sorted(got), kind="vacuity", undecided=True)
    fn, ex, fin = run(IPQ, "IPhreeqc::GetComponentCount", mk_ctx(functional=("size",)))
    for j, s in enumerate(fin):
        lc = [i for i, e in enumerate(s.events) if sh(e) == "ListComponents" and e.recv is THIS]
        sz = [i for i, e in enumerate(s.events) if sh(e) == "size" and e.recv is COMP]
        ok(r, "GetComponentCount.refreshes_then_returns_the_size_of_the_list[path %d]" % j, len(lc) == 1 and len(sz) == 1 and lc[0] < sz[0] and s.ret is tm.app("call:size", (COMP,), "I"), "trace", repr(s.ret))
    stash = LoopStash()
    fn, ex, fin = run(IPQ, "IPhreeqc::GetComponent", mk_ctx(functional=("size", "begin"), loop=stash))
    Nn = tm.sym("P0_n", "I")
    SZ = tm.app("call:size", (COMP,), "I")
    inrange = tm.and_(tm.le(tm.num(0, "I"), Nn), tm.lt(Nn, SZ))
    got = set()
    for j, s in enumerate(fin):
        lc = [i for i, e in enumerate(s.events) if sh(e) == "ListComponents" and e.recv is THIS]
        ok(r, "GetComponent.refreshes_first[path %d]" % j, len(lc) == 1 and lc[0] == 0, "trace", repr(s.events[:2]))
        for hy, inside in cases(s.pc, inrange):
            if inside:
                ok(r, "GetComponent.index_in_range.walks_the_list%s" % ("" if "in" not in got else "#%d" % j), len(LoopStash.passed(s)) == 1 and s.ret is not None and s.ret.op == "app" and s.ret.args[0] == "c_str", "symex", repr(s.ret)); got.add("in")
            else:
                ok(r, "GetComponent.index_out_of_range.answers_the_empty_string%s" % ("" if "out" not in got else "#%d" % j), s.ret is tm.sym("&static_empty", "P") and not LoopStash.passed(s), "symex", repr(s.ret)); got.add("out")
    ok(r, "reach.GetComponent", got == {"in", "out"}, "symex", sorted(got), kind="vacuity", undecided=True)
    if len(stash.entry) != 1:
        raise Undecided("GetComponent: one loop expected")
    node, st0 = stash.entry[0]
    h = loop_head(ex, node, st0)
    itd = names_of(fn).get("it")
    ok(r, "GetComponent.walk_starts_at_the_first_element", st0.locals.get(itd) is tm.app("call:begin", (COMP,), "P"), "symex", repr(st0.locals.get(itd)))
    ok(r, "GetComponent.walk_makes_exactly_n_steps", tm.isnum(h["first"]) and h["first"].args[0] == 0 and proved(st0.pc, tm.eq(h["cond"], tm.lt(h["K"], Nn))) and proved(st0.pc, tm.eq(h["next"], tm.add(h["K"], tm.num(1, "I")))), "symex+z3", "%r %r %r" % (h["first"], h["cond"], h["next"]))
    for j, s in enumerate(stash.iter_states(node)):
        it0, it1 = tm.sym("iter_it", "P"), s.locals.get(itd)
        ok(r, "GetComponent.each_step_advances_by_one_element[path %d]" % j, it1 is tm.app("inext", (it0,), "P"), "symex", repr(it1))
    r.assumptions += ["Phreeqc::list_components fills the list it is given (C14.list_components...); std::list begin/++/size; the static empty string",
                      "do_run raises UpdateComponents after every run (C04.do_run.component_cache_invalidated)"]
    return r


# --------------------------------------------------------------------------------------------------------------------- RUN_CELLS
KN = "src/phreeqcpp/kinetics.cpp"


@unit("C14.set_advection.cell_i_uses_every_reactant_numbered_i_and_saves_back_under_i")
def unit_set_advection(twin=False):
    """Phreeqc::set_advection(i, use_mix, use_kinetics, nsaver) (RUN_CELLS, ADVECTION): afterwards, for every kind K, K takes part
    exactly when K's store holds number i, the number used is i, and (kinds that are saved) the result is written back under
    exactly [i, i]; the solution is saved under [nsaver, nsaver]; a MIX numbered i replaces the solution when mixing is requested."""
    q = "Phreeqc::set_advection"
    fnp = A.find_function(KN, q)
    r = U.new_unit("C14.set_advection.cell_i_uses_every_reactant_numbered_i_and_saves_back_under_i", KN, q, fnp)
    c = mk_ctx(functional=("Rxn_find",), handlers=use_handlers())
    c.merge_ifs = True
    fn, ex, fin = run(KN, q, c)
    I, UM, UK, NS = tm.sym("P0_i", "I"), tm.sym("P1_use_mix", "I"), tm.sym("P2_use_kinetics", "I"), tm.sym("P3_nsaver", "I")
    USE, SV = fmap("use"), fmap("save")
    one = tm.num(1, "I")
    def find(k):
        return tm.app("call:Rxn_find", (tm.NULL, fmap(KIND[k]["map"]), I), "P")
    SAVED = ("pp_assemblage", "exchange", "surface", "gas_phase", "ss_assemblage")
    for j, s in enumerate(fin):
        tagp = "" if j == 0 else "#%d" % j
        hy = list(s.pc) + [tm.or_(tm.eq(UK, tm.num(0, "I")), tm.eq(UK, one))]        # precondition: use_kinetics is TRUE or FALSE at every call site
        U_ = lambda nm, so: fin_field(ex, s, "#use." + nm, so, USE)
        S_ = lambda nm: fin_field(ex, s, nm, "I", SV)
        for K in ("pp_assemblage", "reaction", "exchange", "surface", "temperature", "pressure", "gas_phase", "ss_assemblage"):
            f = find(K if not (twin and K == "surface") else "exchange")
            fnd = tm.not_(tm.eq(f, tm.NULL))
            U.discharge_valid(r, "%s.looked_up_under_i_in_its_own_store%s" % (K, tagp), hy, tm.eq(U_(K + "_ptr", "P"), f))
            U.discharge_valid(r, "%s.takes_part_iff_number_i_exists%s" % (K, tagp), hy, tm.eq(U_(K + "_in", "B"), fnd))
            U.discharge_valid(r, "%s.number_used_is_i%s" % (K, tagp), hy + [fnd], tm.eq(U_("n_%s_user" % K, "I"), I))
            if K in SAVED:
                U.discharge_valid(r, "%s.saved_iff_it_takes_part%s" % (K, tagp), hy, tm.eq(S_(K), tm.ite(fnd, one, tm.num(0, "I"))))
                U.discharge_valid(r, "%s.saved_back_under_exactly_[i,i]%s" % (K, tagp), hy + [fnd], tm.and_(tm.eq(S_("n_%s_user" % K), I), tm.eq(S_("n_%s_user_end" % K), I)))
        fk = find("kinetics"); uk = tm.and_(tm.eq(UK, one), tm.not_(tm.eq(fk, tm.NULL)))
        U.discharge_valid(r, "kinetics.takes_part_iff_requested_and_number_i_exists%s" % tagp, hy, tm.eq(U_("kinetics_in", "B"), uk))
        U.discharge_valid(r, "kinetics.pointer_is_entry_i_or_NULL%s" % tagp, hy, tm.eq(U_("kinetics_ptr", "P"), tm.ite(tm.eq(UK, one), fk, tm.NULL)))
        U.discharge_valid(r, "kinetics.number_used_is_i%s" % tagp, hy + [uk], tm.eq(U_("n_kinetics_user", "I"), I))
        U.discharge_valid(r, "kinetics.saved_iff_it_takes_part_under_[i,i]%s" % tagp, hy, tm.and_(tm.eq(S_("kinetics"), tm.ite(uk, one, tm.num(0, "I"))),
                          tm.implies(uk, tm.and_(tm.eq(S_("n_kinetics_user"), I), tm.eq(S_("n_kinetics_user_end"), I)))))
        fm = find("mix"); um = tm.and_(tm.eq(UM, one), tm.not_(tm.eq(fm, tm.NULL)))
        U.discharge_valid(r, "mix.takes_part_iff_requested_and_number_i_exists%s" % tagp, hy, tm.eq(U_("mix_in", "B"), um))
        U.discharge_valid(r, "mix.number_used_is_i%s" % tagp, hy + [um], tm.and_(tm.eq(U_("n_mix_user", "I"), I), tm.eq(U_("mix_ptr", "P"), fm)))
        U.discharge_valid(r, "solution.number_used_is_i%s" % tagp, hy, tm.eq(U_("n_solution_user", "I"), I))
        U.discharge_valid(r, "solution.without_mix_entry_i_of_the_solution_store_is_used%s" % tagp, hy + [tm.not_(um)], tm.and_(tm.eq(U_("solution_ptr", "P"), find("solution")), U_("solution_in", "B")))
        U.discharge_valid(r, "solution.saved_under_exactly_[nsaver,nsaver]%s" % tagp, hy, tm.and_(tm.eq(S_("solution"), one), tm.eq(S_("n_solution_user"), NS), tm.eq(S_("n_solution_user_end"), NS if not twin else I)))
        U.discharge_valid(r, "cell_number_recorded%s" % tagp, hy, tm.eq(fin_field(ex, s, "cell", "I", THIS), I))
        mapev = [e for e in s.events if e.name.startswith("map.") or sh(e) in ("Rxn_copy", "Rxn_copies")]
        ok(r, "no_store_modified%s" % tagp, not mapev, "trace", repr(mapev), kind="frame")
    ok(r, "reach.paths", 1 <= len(fin) <= 64, "symex", "%d final state(s) (branches joined)" % len(fin), kind="vacuity", undecided=True)
    r.assumptions += ["cxxUse setters/getters are one-line accessors of the member they name (modelled as ghost fields of `use`)", "TRUE == 1; Utilities::Rxn_find under C14.Rxn_find (functional, no writes)", "precondition use_kinetics in {TRUE, FALSE} (all seven call sites pass a literal or forward such a flag); use_mix may also be DISP/STAG/NOMIX: only TRUE requests the MIX",
                      "the error path `Solution %d not found` (error_msg STOP) is not separated: its state is joined with the normal one"]
    return r


@unit("C14.run_as_cells.each_listed_cell_runs_on_reactants_numbered_i_and_is_saved_back_once")
def unit_run_as_cells(twin=False):
    """Phreeqc::run_as_cells: the walk visits every listed cell number; a negative number, or one with neither SOLUTION i nor MIX i,
    is skipped without touching anything; otherwise the cell is set up by set_advection(i, TRUE, TRUE, i) (use everything numbered i,
    save back under i), the save request established there is kept aside and re-instated after the step loop, the scratch kinetics
    (-2) is copied back to the used number, and saver() is the last action.  Afterwards the RUN_CELLS request is withdrawn."""
    q = "Phreeqc::run_as_cells"
    fnp = A.find_function(RC, q)
    r = U.new_unit("C14.run_as_cells.each_listed_cell_runs_on_reactants_numbered_i_and_is_saved_back_once", RC, q, fnp)
    stash = LoopStash()
    heavy = ("set_advection", "copy_use", "saver", "run_reactions", "set_initial_moles", "punch_all", "print_all")
    c = mk_ctx(functional=("Rxn_find", "Get_cells", "Get_numbers", "begin", "end", "size", "empty", "Get_defined", "Get_start_time"), loop=stash, not_pure=heavy, handlers=use_handlers())
    c.merge_ifs = True
    fn, ex, fin = run(RC, q, c)
    RI = fmap("run_info")
    CELLS = tm.app("call:Get_cells", (RI,), "P")
    NUMS = tm.app("call:Get_numbers", (CELLS,), "P")
    nothing = tm.or_(tm.eq(tm.app("call:size", (NUMS,), "I"), tm.num(0, "I")), tm.not_(tm.app("call:Get_defined", (CELLS,), "B")))
    got = set()
    for j, s in enumerate(fin):
        big = [e for e in s.events if sh(e) in heavy]
        for hy, none in cases(s.pc, nothing):
            if none:
                ok(r, "no_request.nothing_run%s" % ("" if "none" not in got else "#%d" % j), not big and not LoopStash.passed(s), "trace", repr(big)); got.add("none")
            else:
                wd = [e for e in s.events if sh(e) == "Set_defined" and e.recv is CELLS and e.args[0] is tm.FALSE]
                lp = [i for i, e in enumerate(s.events) if e.name == "loop_passed"]
                ok(r, "request.withdrawn_after_the_walk(cells.Set_defined(false))%s" % ("" if "req" not in got else "#%d" % j), len(wd) == 1 and lp and s.events.index(wd[0]) > lp[-1], "trace", repr(wd))
                rc = [e for e in s.events if sh(e) == "Set_run_cells"]
                ok(r, "request.run_cells_mode_raised_before_and_lowered_after_the_walk%s" % ("" if "req" not in got else "#%d" % j),
                   len(rc) == 2 and rc[0].args[0] is tm.TRUE and rc[1].args[0] is tm.FALSE and lp and s.events.index(rc[0]) < lp[0] < s.events.index(rc[1]), "trace", repr(rc)); got.add("req")
    ok(r, "reach.request", got == {"none", "req"}, "symex", sorted(got), kind="vacuity", undecided=True)
    if not stash.entry:
        raise Undecided("cell loop not reached")
    node, st0 = stash.entry[0]
    h = loop_head(ex, node, st0, sort="P")
    a, b, cc = walks_whole_set(h, NUMS, st0.pc)
    ok(r, "walk_visits_every_listed_cell_number", a and b and cc, "symex+z3", "%r | %r | %r" % (h["first"], h["cond"], h["next"]))
    CI = deref_iter(tm.sym("iter_" + h["name"], "P"))
    fsol = tm.app("call:Rxn_find", (tm.NULL, fmap("Rxn_solution_map"), CI), "P")
    fmix = tm.app("call:Rxn_find", (tm.NULL, fmap("Rxn_mix_map"), CI), "P")
    runnable = tm.and_(tm.le(tm.num(0, "I"), CI), tm.or_(tm.not_(tm.eq(fsol, tm.NULL)), tm.not_(tm.eq(fmix, tm.NULL))))
    got = set()
    for j, s in enumerate(stash.iter_states(node)):
        evs = U.iter_events(s)
        big = [e for e in evs if sh(e) in heavy or sh(e) in ("Rxn_copy", "Rxn_copies") or e.name.startswith("map.")]
        for hy, go in cases(s.pc, runnable):
            if not go:
                ok(r, "cell.negative_or_undefined_number_is_skipped_untouched%s" % ("" if "skip" not in got else "#%d" % j), not big, "trace", repr(big)[:200], kind="frame"); got.add("skip"); continue
            tg = "" if "run" not in got else "#%d" % j
            got.add("run")
            sa = [e for e in evs if sh(e) == "set_advection"]
            one = tm.num(1, "I")
            want = (CI, one, one, CI if not twin else one)
            ok(r, "cell.set_up_by_set_advection(i,TRUE,TRUE,i)_first%s" % tg, len(sa) == 1 and tuple(sa[0].args) == want and big and big[0] is sa[0], "trace", repr(sa))
            asg = [e for e in evs if sh(e) == "operator=" and "save" in e.name]
            SV = fmap("save")
            keep = [e for e in asg if e.args and e.args[0] is SV]
            back = [e for e in asg if e.recv is SV]
            cu = [e for e in evs if sh(e) == "copy_use"]
            lp = [i for i, e in enumerate(evs) if e.name == "loop_passed"]
            svr = [e for e in evs if sh(e) == "saver"]
            o1 = len(keep) == 1 and len(sa) == 1 and cu and evs.index(sa[0]) < evs.index(keep[0]) < evs.index(cu[0])
            ok(r, "cell.save_request_of_set_advection_kept_aside_before_the_scratch_copy%s" % tg, o1, "trace", repr(keep))
            ok(r, "cell.scratch_copy_is_number_-2%s" % tg, len(cu) >= 1 and all(tm.isnum(e.args[0]) and e.args[0].args[0] == -2 for e in cu), "trace", repr(cu))
            o2 = len(back) == 1 and len(keep) == 1 and back[0].args[0] is keep[0].recv and lp and evs.index(back[0]) > lp[-1]
            ok(r, "cell.save_request_re-instated_after_the_step_loop%s" % tg, o2, "trace", repr(back))
            kc = [e for e in evs if sh(e) == "Rxn_copy"]
            def use_read(t, nm):
                """t reads the ghost field #use.<nm> of `use` from some heap version -> that heap's prefix, else None"""
                for x in ([t] + list(tm.subterms(t))):
                    if x.op == "select" and x.args[0].op == "sym" and x.args[0].args[0].endswith(".#use.%s" % nm) and x.args[1][0] is fmap("use"):
                        return x
                return None
            gk = len(kc) == 1 and kc[0].args[0] is fmap("Rxn_kinetics_map") and tm.isnum(kc[0].args[1]) and kc[0].args[1].args[0] == -2 and use_read(kc[0].args[2], "n_kinetics_user:I") is kc[0].args[2]
            ok(r, "cell.scratch_kinetics_copied_back_to_the_used_number%s" % tg, gk and back and evs.index(kc[0]) > evs.index(back[0]), "trace", repr(kc))
            kin = use_read(kc[0].guard, "kinetics_in:B") if kc else None
            ok(r, "cell.kinetics_copied_back_exactly_when_kinetics_takes_part%s" % tg, kin is not None and proved(hy, tm.eq(kc[0].guard, kin)), "trace+z3", repr(kc[0].guard if kc else None))
            ok(r, "cell.saver_is_the_last_action%s" % tg, len(svr) >= 1 and big[-1] is svr[-1] and (not kc or evs.index(kc[0]) < evs.index(svr[-1])), "trace", repr([sh(e) for e in big][-4:]))
            uncond = [e for e in (sa[:1] + keep[:1] + cu[:1] + back[:1] + svr[-1:]) if not proved(hy, e.guard)]
            ok(r, "cell.set_up_scratch_copy_re-instating_and_final_saver_are_unconditional%s" % tg, not uncond, "trace+z3", repr([(sh(e), e.guard) for e in uncond])[:200])
    ok(r, "reach.cell", got == {"skip", "run"}, "symex", sorted(got), kind="vacuity", undecided=True)
    r.assumptions += ["set_advection under C14.set_advection; copy_use / saver under C14.copy_use / C14.saver; the reaction-step loop is not under this contract (havocked)",
                      "class save is copied by its assignment operator (events); TRUE == 1"]
    return r


# ------------------------------------------------------------------------------------------------------- keyword dispatch (read_input)
def read_input_switch():
    fn = A.find_function(RD, "Phreeqc::read_input")
    sws = [x for x in A.walk(fn) if x.get("kind") == "SwitchStmt"]
    if len(sws) != 1:
        raise Undecided("read_input: one keyword switch expected, found %d" % len(sws))
    return fn, sws[0]


def dispatch_groups(fn, sw):
    """label name (KEY_X) -> statements of that case up to its break"""
    out = {}
    for labels, nodes in case_labels(sw, RD):
        stm = []
        for n in nodes:
            if n.get("kind") == "BreakStmt":
                break
            stm.append(n)
        for lb in labels:
            out[lb.split("::")[-1]] = stm
    return out


@unit("C14.read_input.RAW_MODIFY_MIX_keywords_address_the_store_of_their_own_kind")
def unit_dispatch(twin=False):
    """Phreeqc::read_input keyword switch: <KIND>_RAW and <KIND>_MODIFY hand the store of THAT kind (and that kind's set of new
    definitions) to Rxn_read_raw / Rxn_read_modify, and <KIND>_MIX hands that kind's pending-mix list to read_entity_mix; DELETE,
    COPY, DUMP, RUN_CELLS, USE, SAVE call their readers."""
    fn, sw = read_input_switch()
    r = U.new_unit("C14.read_input.RAW_MODIFY_MIX_keywords_address_the_store_of_their_own_kind", RD, "Phreeqc::read_input", fn)
    groups = dispatch_groups(fn, sw)
    n = 0
    def run_case(label):
        nodes = groups.get(label)
        if nodes is None:
            return None
        c = mk_ctx()
        ex = ExecStatic(c); st = arb_state(ex, fn, c)
        states = [st]
        for nd in nodes:
            states = ex.exec(nd, states)
        return [s for s in states if sat(s.pc)]
    for d in KINDS:
        K = d["k"]
        for suffix, callee in (("_RAW", "Rxn_read_raw"), ("_MODIFY", "Rxn_read_modify")):
            label = "KEY_" + d["key"] + suffix
            if suffix == "_MODIFY" and K == "mix":
                continue
            ss = run_case(label)
            if ss is None:
                ok(r, "%s.handled" % label, False, detail="no case for the keyword"); continue
            calls_ = [e for s in ss for e in s.events if sh(e) in ("Rxn_read_raw", "Rxn_read_modify") or sh(e).startswith("read_")]
            wantmap = fmap(KIND[K if not (twin and K == "surface") else "exchange"]["map"])
            good = len(ss) == 1 and len(calls_) == 1 and sh(calls_[0]) == callee and calls_[0].args[0] is wantmap and calls_[0].args[1] is fmap("Rxn_new_" + K) and calls_[0].args[2] is THIS
            ok(r, "%s.%s(own store, own new-definition set, engine)" % (label, callee), good, "symex", repr(calls_)); n += 1
    mixkeys = {"KEY_SOLUTION_MIX": "solution", "KEY_EXCHANGE_MIX": "exchange", "KEY_GAS_PHASE_MIX": "gas_phase", "KEY_KINETICS_MIX": "kinetics",
               "KEY_PPASSEMBLAGE_MIX": "pp_assemblage", "KEY_SSASSEMBLAGE_MIX": "ss_assemblage", "KEY_SURFACE_MIX": "surface"}
    for label, K in mixkeys.items():
        ss = run_case(label)
        calls_ = [e for s in (ss or []) for e in s.events if sh(e).startswith("read_") or sh(e).startswith("Rxn_")]
        ok(r, "%s.read_entity_mix(own pending-mix list)" % label, ss is not None and len(calls_) == 1 and sh(calls_[0]) == "read_entity_mix" and calls_[0].args[0] is fmap("Rxn_%s_mix_map" % K), "symex", repr(calls_))
    for label, callee in (("KEY_DELETE", "read_delete"), ("KEY_COPY", "read_copy"), ("KEY_DUMP", "read_dump"), ("KEY_RUN_CELLS", "read_run_cells"), ("KEY_USE", "read_use"), ("KEY_SAVE", "read_save"), ("KEY_MIX", "read_mix")):
        ss = run_case(label)
        calls_ = [e for s in (ss or []) for e in s.events if sh(e).startswith("read_") or sh(e).startswith("Rxn_")]
        ok(r, "%s.calls_%s" % (label, callee), ss is not None and len(calls_) == 1 and sh(calls_[0]) == callee and calls_[0].recv is THIS, "symex", repr(calls_))
    ok(r, "reach.cases", n == 21, "symex", "%d RAW/MODIFY cases" % n, kind="vacuity", undecided=True)
    r.assumptions += ["keyword -> kind is the manual's table (KINDS[...]['key']); next_keyword identifies the keyword of the block (check_key); each case is executed from an arbitrary state",
                      "the case bodies are the statements between the label and its break (the KEY_END goto is not executed)"]
    return r


@unit("C14.saver.kinetics_written_to_every_number_of_its_save_range")
def unit_saver_kinetics(twin=False):
    """Phreeqc::saver, kinetics block (not pinned by C14.saver.*): when kinetics is to be saved and takes part, every number of
    [save.n_kinetics_user, save.n_kinetics_user_end] receives a copy of the kinetics that was integrated - the scratch entry -2 in a
    batch reaction, the used number in ADVECTION / TRANSPORT / PHAST - in the kinetics store only; otherwise nothing is written."""
    q = "Phreeqc::saver"
    fnp = A.find_function(MS, q)
    r = U.new_unit("C14.saver.kinetics_written_to_every_number_of_its_save_range", MS, q, fnp)
    body = A.body_of(fnp).get("inner", [])
    blk = [x for x in body if x.get("kind") == "IfStmt" and any(y.get("kind") == "MemberExpr" and y.get("name") == "Rxn_kinetics_map" for y in A.walk(x))]
    if len(blk) != 1:
        raise Undecided("saver: kinetics block not found (%d)" % len(blk))
    stash = LoopStash()
    c = mk_ctx(functional=("Rxn_find", "Get_n_user"), handlers=use_handlers(), loop=stash)
    fn, ex, fin, names = exec_nodes(MS, q, blk, c)
    USE, SV = fmap("use"), fmap("save")
    H0 = lambda nm, so, obj: tm.select(tm.sym("H0.%s:%s" % (nm, so), ("A", "P", so)), obj)
    want_save = tm.and_(tm.eq(H0("kinetics", "I", SV), tm.num(1, "I")), H0("#use.kinetics_in", "B", USE))
    KM = fmap("Rxn_kinetics_map")
    ST = H0("state", "I", THIS)
    codes = A.enum_values_compiled("Phreeqc.h", ["TRANSPORT", "PHAST", "ADVECTION"])       # state codes (macros of global_structures.h)
    transp = tm.or_(*[tm.eq(ST, tm.num(codes[nm], "I")) for nm in ("TRANSPORT", "PHAST", "ADVECTION")])
    got = set()
    for j, s in enumerate(fin):
        cps = [e for e in s.events if sh(e) in ("Rxn_copy", "Rxn_copies") or e.name.startswith("map.")]
        for hy, sv in cases(s.pc, want_save):
            if not sv:
                ok(r, "not_to_be_saved.nothing_written%s" % ("" if "no" not in got else "#%d" % j), not cps and not LoopStash.passed(s), "trace", repr(cps), kind="frame"); got.add("no"); continue
            ptr = fin_field(ex, s, "#use.kinetics_ptr", "P", USE)
            for hy2, tr in cases(hy, transp):
                src_no = H0("#use.n_kinetics_user", "I", USE) if tr else tm.num(-2 if not twin else -1, "I")
                wantp = tm.app("call:Rxn_find", (tm.NULL, KM, src_no), "P")
                tag = "transport" if tr else "batch"
                ok(r, "saved.%s.source_is_%s%s" % (tag, "the_used_number" if tr else "the_scratch_entry_-2", "" if tag not in got else "#%d" % j), proved(hy2, tm.eq(ptr, wantp)), "symex+z3", repr(ptr)); got.add(tag)
                for hy3, has in cases(hy2, tm.not_(tm.eq(ptr, tm.NULL))):
                    if has:
                        ok(r, "saved.%s.range_walked%s" % (tag, "" if tag + "w" not in got else "#%d" % j), len(LoopStash.passed(s)) == 1 and not cps, "trace", repr(cps)); got.add(tag + "w")
                    else:
                        ok(r, "saved.%s.no_kinetics_in_use.nothing_written%s" % (tag, "" if tag + "n" not in got else "#%d" % j), not LoopStash.passed(s) and not cps, "trace", repr(cps), kind="frame"); got.add(tag + "n")
    ok(r, "reach.cases", {"no", "transport", "batch", "transportw", "batchw"} <= got, "symex", sorted(got), kind="vacuity", undecided=True)
    if len(stash.entry) < 1:
        raise Undecided("saver: kinetics range loop not reached")
    node, st0 = stash.entry[0]
    h = loop_head(ex, node, st0)
    ok(r, "range.first_is_n_kinetics_user", h["first"] is not None and proved(st0.pc, tm.eq(h["first"], H0("n_kinetics_user", "I", SV))), "symex+z3", repr(h["first"]))
    ok(r, "range.through_n_kinetics_user_end_inclusive", proved(st0.pc, tm.eq(h["cond"], tm.le(h["K"], H0("n_kinetics_user_end", "I", SV)))), "symex+z3", repr(h["cond"]))
    ok(r, "range.every_number_visited", proved(st0.pc, tm.eq(h["next"], tm.add(h["K"], tm.num(1, "I")))), "symex+z3", repr(h["next"]))
    j = 0
    for nd, e0, its in stash.runs:
        ptr = fin_field(ex, e0, "#use.kinetics_ptr", "P", USE)
        nsrc = tm.app("call:Get_n_user", (ptr,), "I")
        for s in its:
            cps = [e for e in U.iter_events(s) if sh(e) in ("Rxn_copy", "Rxn_copies") or e.name.startswith("map.")]
            good = len(cps) == 1 and sh(cps[0]) == "Rxn_copy" and cps[0].args[0] is KM and proved(s.pc, tm.eq(cps[0].args[1], nsrc)) and cps[0].args[2] is s.locals.get(h["did"])
            ok(r, "range.number_i_gets_a_copy_of_the_kinetics_in_use[path %d]" % j, good, "trace+z3", repr(cps)); j += 1
    r.assumptions += ["cxxUse accessors as ghost fields; Rxn_find / Rxn_copy under their C14 contracts; Get_n_user functional", "the block is executed from an arbitrary state (independent of the other kinds' blocks)"]
    return r


# --------------------------------------------------------------------------------- DELETE / DUMP / RUN_CELLS block readers (thin)
@unit("C14.read_delete_dump_run_cells.block_is_parsed_into_its_own_request_record")
def unit_block_readers(twin=False):
    """Phreeqc::read_delete / read_dump / read_run_cells: the lines of the block (up to the next keyword) are handed, through one
    parser, to the request record of THAT keyword - delete_info.Read, dump_info.Read, run_info = runner(parser) - and to no other;
    the return value is that of the line collector.  runner::Read: the cell list is marked requested, -cell(s) numbers / ranges
    are collected with Augment and, when any were given, become the runner's cell list."""
    r = U.new_unit("C14.read_delete_dump_run_cells.block_is_parsed_into_its_own_request_record", RC, "Phreeqc::read_delete / read_dump / read_run_cells; runner::Read", A.find_function(RC, "Phreeqc::read_delete"))
    want = {"read_delete": ("Read", "delete_info"), "read_dump": ("Read", "dump_info" if not twin else "delete_info"), "read_run_cells": ("operator=", "run_info")}
    for q, (meth, member) in want.items():
        fn, ex, fin = run(RC, "Phreeqc::" + q, mk_ctx())
        for j, s in enumerate(fin):
            col = [e for e in s.events if sh(e) == "streamify_to_next_keyword"]
            prs = [e for e in s.events if e.name == "ctor CParser" and len(e.args) == 2]
            acts = [e for e in s.events if (sh(e) in ("Read",) or (sh(e) == "operator=" and member_name(e.recv))) ]
            g = len(col) == 1 and len(prs) == 1 and prs[0].args[0] is col[0].args[0] and len(acts) == 1 and sh(acts[0]) == meth and acts[0].recv is fmap(member)
            if meth == "Read":
                g = g and ("&parser" in repr(acts[0].args[0]))
            else:
                rn = [e for e in s.events if e.name == "ctor runner" and len(e.args) == 2]
                g = g and len(rn) == 1 and "&parser" in repr(rn[0].args[0])
            ok(r, "%s.block_lines_parsed_into_%s_only[path %d]" % (q, member, j), g, "trace", repr(acts)[:200])
            ok(r, "%s.returns_the_line_collector's_result[path %d]" % (q, j), bool(col) and s.ret is col[0].result, "trace", repr(s.ret))
    RN = "src/phreeqcpp/runner.cpp"
    stash = LoopStash()
    c = mk_ctx(functional=("Get_cells", "Get_numbers", "size", "empty"), loop=stash, records=("StorageBinListItem",))
    fn, ex, fin = run(RN, "runner::Read", c)
    got = set()
    for j, s in enumerate(fin):
        sd = [e for e in s.events if sh(e) == "Set_defined"]
        ok(r, "runner.Read.cell_list_marked_requested[path %d]" % j, len(sd) == 1 and sd[0].recv is tm.app("call:Get_cells", (THIS,), "P") and sd[0].args[0] is tm.TRUE, "trace", repr(sd))
        it = [e for e in s.events if e.name == "ctor StorageBinListItem"]
        asg = [e for e in s.events if sh(e) == "operator=" and e.recv is fmap("cells")]
        if len(it) != 1:
            ok(r, "runner.Read.collects_into_one_list#%d" % j, False, detail=repr(it)); continue
        n_ = tm.app("call:size", (tm.app("call:Get_numbers", (it[0].recv,), "P"),), "I")
        for hy, some in cases(s.pc, tm.lt(tm.num(0, "I"), n_)):
            if some:
                ok(r, "runner.Read.numbers_given.become_the_cell_list%s" % ("" if "some" not in got else "#%d" % j), len(asg) == 1 and asg[0].args[0] is it[0].recv, "trace", repr(asg)); got.add("some")
            else:
                ok(r, "runner.Read.no_numbers.cell_list_kept%s" % ("" if "none" not in got else "#%d" % j), not asg, "trace", repr(asg)); got.add("none")
    ok(r, "reach.runner", got == {"some", "none"}, "symex", sorted(got), kind="vacuity", undecided=True)
    sws = [x for x in A.walk(fn) if x.get("kind") == "SwitchStmt"]
    from_words = vopts_of(RN)
    stash2 = LoopStash()
    c2 = mk_ctx(loop=stash2, records=("StorageBinListItem",))
    f2, ex2, fin2, names2 = exec_nodes(RN, "runner::Read", [sws[0]], c2)
    OPT = tm.sym("L_opt", "I")
    for i, w in enumerate(from_words):
        reads = any(LoopStash.passed(s) and sat(list(s.pc) + [tm.eq(OPT, tm.num(i, "I"))]) for s in fin2)
        ok(r, "runner.Read.identifier[-%s].%s" % (w, "numbers_collected" if w in ("cell", "cells") else "collects_no_numbers"), reads == (w in ("cell", "cells")), "symex+z3", "")
    for n_, e0, its in stash2.runs[:1]:
        k = 0
        for s in its:
            aug = [e for e in U.iter_events(s) if sh(e) == "Augment"]
            if aug:
                k += 1
                ok(r, "runner.Read.number_token_added_to_the_collected_list[path %d]" % k, len(aug) == 1 and aug[0].recv is tm.sym("&L_item", "P"), "trace", repr(aug))
        ok(r, "reach.runner.tokens", k >= 2, "symex", k, kind="vacuity", undecided=True)
    r.assumptions += ["streamify_to_next_keyword collects the block's lines into the stream it is given; StorageBinList::Read / dumper::Read / StorageBinListItem::Augment under their own units"]
    return r

from props.c14_ext2 import UNITS as _U2; UNITS = UNITS + _U2
from props.c14_ext5 import UNITS as _U5; UNITS = UNITS + _U5
