"""C16 — activity-coefficient models (partial).
Iteration contract on the species loop of Phreeqc::gammas: per species log gamma is the defining
equation of its model and dg is moles*ln10*d(log gamma)/d(mu) of that same equation; statement
contract on the LLNL temperature interpolation.  Pitzer / SIT sums and Gibbs-Duhem are NOT decided."""
import time
from vf import core
from vf.core import Undecided, FAILED, DISCHARGED, UNDECIDED
from vf.astvc import ast as A, terms as tm, unit as U, backends as B, stl as STLM
from vf.astvc import symex as SX
from vf.astvc.symex import Exec, Ctx, State

PID = "C16"
MODEL = "src/phreeqcpp/model.cpp"
THIS = tm.sym("this", "P")


def run_gammas():
    fn = A.find_function(MODEL, "Phreeqc::gammas")
    ctx = Ctx()
    ctx.stl = STLM.STL(SX)
    ctx.enum_values.update(A.enum_values_compiled("Phreeqc.h", ["TRUE", "FALSE", "OK", "STOP", "EX", "SURF", "HPLUS"]))
    ex = Exec(ctx)
    info = {}
    def loop(ex_, st, node, ordinal):
        if ordinal == 0:                       # search for the bracketing LLNL table temperatures
            return ex_.havoc_loop(node, st)
        if ordinal == 1:                       # species loop: iteration contract
            info.setdefault("entry", []).append(st.clone())
            res = ex_.iterate_loop(node, st)
            info.setdefault("iter", []).extend(res)
            info["written"] = set(ex_.iter_written)
            return []                          # nothing after the loop is part of the contract
        return ex_.havoc_loop(node, st)        # token scans inside cases 4 and 6 (those cases are not under contract)
    def error_msg(ex_, st, n, name, recv, args):
        # contract of Phreeqc::error_msg: with stop == STOP it throws PhreeqcStop and does not return
        if len(args) >= 2 and (args[1] is tm.TRUE or (tm.isnum(args[1]) and args[1].args[0] != 0)):
            st.events.append(SX.Event(name, recv, args, tm.num(0, "I"), n))
            st.status = "throw"
            return [(st, tm.num(0, "I"))]
        return None
    ctx.handlers["Phreeqc::error_msg"] = error_msg
    ctx.loop = loop
    st = State()
    finals = ex.run(fn, st)
    info["fn"] = fn; info["ex"] = ex; info["finals"] = finals
    return info


def fld(ex, st, name, obj, sort="R"):
    return ex.load(st, ("field", name, obj), sort)


def spec_for(ex, st, sp, g, twin=False):
    """(lg, extra path facts, description) for gflag g from the manual's equations, written over the
    state at the end of the iteration (A, B, LLNL parameters are the values the loop sees)"""
    mu = info_mu(ex, st)
    rt = tm.app("sqrt", (mu,), "R")
    one = tm.num(1)
    z, dha, dhb = fld(ex, st, "z", sp), fld(ex, st, "dha", sp), fld(ex, st, "dhb", sp)
    Aa = local(ex, st, "a"); Bb = local(ex, st, "b")
    if g == 0:
        return dhb * mu, "uncharged: lg = b*mu"
    if g == 1:
        c = tm.Q("0.3") if not twin else tm.Q("0.2")
        return tm.neg(Aa) * z * z * (rt / (one + rt) - c * mu), "Davies: lg = -A z^2 (sqrt(mu)/(1+sqrt(mu)) - 0.3 mu)"
    if g == 2:
        return tm.neg(Aa) * z * z * rt / (one + dha * Bb * rt) + dhb * mu, "extended/WATEQ Debye-Hueckel: lg = -A z^2 sqrt(mu)/(1 + a0 B sqrt(mu)) + b mu"
    if g in (3, 5):
        return tm.num(0), "unit activity coefficient"
    if g == 7:
        al, bl, bd = fld(ex, st, "a_llnl", THIS), fld(ex, st, "b_llnl", THIS), fld(ex, st, "bdot_llnl", THIS)
        return tm.neg(al) * z * z * rt / (one + dha * bl * rt) + bd * mu, "LLNL B-dot: lg = -A_llnl z^2 sqrt(mu)/(1 + a0 B_llnl sqrt(mu)) + Bdot mu"
    return None, ""


def local(ex, st, name):
    for did, v in st.locals.items():
        pass
    raise KeyError(name)


_names = {}
def bind_names(fn):
    _names.clear()
    for x in A.walk(fn):
        if x.get("kind") in ("VarDecl", "ParmVarDecl") and "name" in x:
            _names.setdefault(x["name"], x["id"])


def local(ex, st, name):
    v = st.locals[_names[name]]
    if isinstance(v, tuple):
        raise Undecided("local %s is not a scalar" % name)
    return v


def info_mu(ex, st):
    return local(ex, st, "mu")


def unit_gammas(twin=False):
    info = run_gammas()
    fn, ex = info["fn"], info["ex"]
    bind_names(fn)
    r = U.new_unit("C16.gammas.species_loop", MODEL, "Phreeqc::gammas", fn)
    iters = info.get("iter", [])
    if not iters:
        raise Undecided("species loop not reached")
    ln10 = None
    seen = set()
    covered = {}
    sxdata = None
    for s in iters:
        if s.status not in ("brk", "run", "cont"):
            continue
        i = local(ex, s, "i")
        # the species of this iteration
        sxaddr = tm.app("fld:s_x", (THIS,), "P")
        data = tm.select(ex.heap_arr(s, ("f", "#vdata", "P")), sxaddr)
        # species pointer as read at loop entry (memory of pointers)
        spl = [t for t in tm.subterms(tm.and_(*s.pc) if s.pc else tm.TRUE) if t.op == "select" and t.sort == "I" and t.args[0].op == "sym" and ".gflag:" in t.args[0].args[0]]
        if not spl:
            continue
        sp = spl[0].args[1][0]
        gsel = spl[0]
        # which gflag does this path fix?  (the switch adds the conjunct gflag == k)
        gval = None
        for c in s.pc:
            if c.op == "==" and c.args[0] is gsel and tm.isnum(c.args[1]):
                gval = int(c.args[1].args[0])
        if gval is None or gval in (4, 6, 8, 9):
            continue
        if B.z3_sat(list(s.pc)) == "unsat":
            continue           # infeasible path
        # only paths on which the heap was not havocked by an error call
        lgk, dgk = ("f", "lg", "R"), ("f", "dg", "R")
        if lgk not in s.heap or s.heap[lgk].op != "store":
            if gval == 7:
                continue       # error path (LLNL parameters not defined): error_msg(STOP) does not return
            r.add("case%d.writes_lg" % gval, FAILED, "symex", 0, "lg not written on a path of case %d" % gval); continue
        lg = tm.select(s.heap[lgk], sp)
        dg = tm.select(s.heap[dgk], sp) if dgk in s.heap else None
        mu = info_mu(ex, s)
        moles = fld(ex, s, "moles", sp)
        ln10 = fld(ex, s, "LOG_10", THIS)
        spec, desc = spec_for(ex, s, sp, gval, twin)
        if spec is None:
            continue
        sub = ""
        zero_z = B.z3_prove(list(s.pc), tm.eq(fld(ex, s, "z", sp), tm.num(0)))[0] == "proved"
        if gval == 7 and zero_z:
            spec, desc, sub = tm.num(0), "LLNL, neutral species: lg = 0", ".z0"
        llnl = B.z3_prove(list(s.pc), tm.lt(tm.num(0, "I"), tm.select(ex.heap_arr(s, ("f", "#vsize", "I")), tm.app("fld:llnl_temp", (THIS,), "P"))))[0] == "proved"
        tag = "case%d%s[mu%s%s]" % (gval, sub, "<=0" if tm.isnum(mu) else ">0", ",llnl" if llnl else "")
        key = (tag, lg, dg, tuple(s.pc[-3:]))
        if key in seen:
            continue
        seen.add(key)
        tag = tag + ("#%d" % sum(1 for k in seen if k[0] == tag) if sum(1 for k in seen if k[0] == tag) > 1 else "")
        covered.setdefault(gval, 0); covered[gval] += 1
        U.discharge_eq_real(r, tag + ".lg==model_equation", list(s.pc), lg, spec)
        if dg is None:
            r.add(tag + ".writes_dg", FAILED, "symex", 0, "dg not written"); continue
        # derivative lemma: dg = moles * ln10 * d(spec)/d(mu)
        if tm.isnum(mu):
            # floored mu is the constant 1e-10: differentiate the specification at a symbolic mu, then substitute
            musym = tm.sym("mu_", "R")
            spec_s = tm.substitute(spec, {mu: musym}) if False else None
        try:
            if tm.isnum(mu):
                musym = tm.sym("mu_floor", "R")
                s2 = s  # rebuild spec with symbolic mu through substitution of the local
                saved = s.locals[_names["mu"]]
                s.locals[_names["mu"]] = musym
                spec_sym, _ = spec_for(ex, s, sp, gval, twin)
                if gval == 7 and zero_z: spec_sym = tm.num(0)
                s.locals[_names["mu"]] = saved
                # code dg was computed with the constant; compare after substituting the constant in the derivative
                import sympy
                cv = B.SymConv()
                x = cv.conv(musym)
                d = sympy.diff(cv.conv(spec_sym), x) * cv.conv(moles) * cv.conv(ln10)
                d = d.subs(x, sympy.Rational(mu.args[0].numerator, mu.args[0].denominator))
                diff = sympy.simplify(cv.conv(dg) - d)
                ok, res, secs = (diff == 0), str(diff)[:300], 0.0
            else:
                ok, res, secs = B.sympy_derivative_equal(dg, spec, mu, [moles, ln10])
        except ValueError as e:
            r.add(tag + ".dg==moles*ln10*d(lg)/d(mu)", UNDECIDED, "sympy.diff", 0, str(e)); continue
        r.add(tag + ".dg==moles*ln10*d(lg)/d(mu)", DISCHARGED if ok else FAILED, "sympy.diff+cancel", secs,
              "derivative of the specification taken symbolically" if ok else "dg - moles*ln10*dspec/dmu = %s" % res)
        # frame: in this iteration only lg and dg of this species are written
        bad = []
        for key, arr in s.heap.items():
            a = arr
            stop = s.iter_entry_arrays.get(key, ())
            while a.op == "store" and a not in stop:
                if key not in (lgk, dgk) or a.args[1][0] is not sp:
                    bad.append((key, a.args[1]))
                a = a.args[0]
        k0 = max(i for i, e in enumerate(s.events) if e.name == "iter_begin")
        evs = s.events[k0 + 1:]
        r.add(tag + ".frame_only_lg_dg_of_this_species", DISCHARGED if not bad and not evs else FAILED, "term-inspection", 0,
              "" if not bad and not evs else "writes %r events %r" % (bad[:3], evs[:3]), kind="frame")
    want = {0, 1, 2, 3, 5, 7}
    missing = want - set(covered)
    r.add("reach.all_contract_cases_have_paths", DISCHARGED if not missing else UNDECIDED, "symex", 0, "covered %r missing %r" % (covered, sorted(missing)), kind="vacuity")
    r.assumptions += ["doubles as reals; sqrt uninterpreted with sqrt(x)^2 = x", "iterations of the species loop are independent: re-run with every written component arbitrary at entry",
                      "cases 4 (exchange), 6 (surface), 8 (LLNL CO2), 9 (water) are not under this contract",
                      "Phreeqc::error_msg(msg, STOP) does not return (throws PhreeqcStop)"]
    r.notes.append("node kinds: " + " ".join(sorted(ex.kinds_seen)))
    return r


def unit_llnl_interp(twin=False):
    """statement contract: a_llnl, b_llnl, bdot_llnl are the linear interpolation in temperature between
    table entries ifirst and ilast:  X = (1-f) X[ifirst] + f X[ilast],  f = (T - t[ifirst])/(t[ilast]-t[ifirst]) (1 if equal)"""
    info = run_gammas()
    fn, ex = info["fn"], info["ex"]
    bind_names(fn)
    r = U.new_unit("C16.gammas.llnl_interpolation", MODEL, "Phreeqc::gammas", fn)
    entries = info.get("entry", [])
    n = 0
    for s in entries:
        size = tm.select(ex.heap_arr(s, ("f", "#vsize", "I")), tm.app("fld:llnl_temp", (THIS,), "P"))
        if B.z3_prove(list(s.pc), tm.lt(tm.num(0, "I"), size))[0] != "proved":
            continue
        n += 1
        ifirst, ilast = local(ex, s, "ifirst"), local(ex, s, "ilast")
        def tab(name, idx):
            d = tm.select(ex.heap_arr(s, ("f", "#vdata", "P")), tm.app("fld:" + name, (THIS,), "P"))
            return tm.select(ex.heap_arr(s, ("m", "R")), d, idx)
        T = fld(ex, s, "tc_x", THIS)
        same = B.z3_prove(list(s.pc), tm.eq(ilast, ifirst))[0] == "proved"
        f = tm.num(1) if same else (T - tab("llnl_temp", ifirst)) / (tab("llnl_temp", ilast) - tab("llnl_temp", ifirst))
        tag = "f=1" if same else "f=lerp"
        if tm.isnum(local(ex, s, "mu")): tag += ",mu<=0"
        for member, table in (("a_llnl", "llnl_adh"), ("b_llnl", "llnl_bdh"), ("bdot_llnl", "llnl_bdot")):
            w1, w2 = (tm.num(1) - f), f
            if twin and member == "bdot_llnl":
                w1, w2 = w2, w1
            spec = w1 * tab(table, ifirst) + w2 * tab(table, ilast)
            U.discharge_eq_real(r, "%s==(1-f)*%s[ifirst]+f*%s[ilast][%s]" % (member, table, table, tag), list(s.pc), fld(ex, s, member, THIS), spec)
    r.add("reach.llnl_table_present_path", DISCHARGED if n else UNDECIDED, "symex", 0, "%d loop-entry states with a non-empty LLNL table" % n, kind="vacuity")
    r.assumptions.append("ifirst/ilast after the search loop are arbitrary (loop over-approximated): the bracketing property itself is not proved")
    return r


def units(tier):
    def g():
        r = unit_gammas()
        if not any(o.status == FAILED for o in r.obligations):
            U.must_fail_twin(r, "vacuity.must_fail_twin", lambda: unit_gammas(twin=True))
        return r
    def l():
        r = unit_llnl_interp()
        if not any(o.status == FAILED for o in r.obligations):
            U.must_fail_twin(r, "vacuity.must_fail_twin", lambda: unit_llnl_interp(twin=True))
        return r
    us = [("C16.gammas.species_loop", g), ("C16.gammas.llnl_interpolation", l)]
    from props import c16_pitzer as PZ
    from props.common import wrap as _wrap
    _wrap(us, "C16.pitzer.ETHETAS.ethetap==d(etheta)/dI", PZ.unit_ethetas)
    _wrap(us, "C16.pitzer.ETHETA_PARAMS.JPRIME==x*dJ/dx", PZ.unit_etheta_params)
    _wrap(us, "C16.pitzer.mixing_terms_gamma_and_phi_from_one_excess_function", PZ.unit_pitzer_mixing_terms)
    from props import c17_control as _CT
    def _ro(twin=False):
        r_ = _CT.unit_scalar_readouts(twin); r_.id = "C16.DH_readouts.DH_A_DH_B_report_the_parameters_in_use"; return r_
    _wrap(us, "C16.DH_readouts.DH_A_DH_B_report_the_parameters_in_use", _ro)
    from props import c16_sit as ST
    _wrap(us, "C16.sit.sums_over_all_solutes_and_DH_term", ST.unit_sit)
    return us


def run(tier, seed, only, jobs):
    t0 = time.time()
    U.TIER.update(tier=tier, seed=seed)
    us = units(tier)
    from props.common import ext_units as _ext
    us += _ext("C16")
    if only:
        us = [x for x in us if only in x[0]]
    res = core.run_units(us, jobs=jobs)
    return core.finish(PID, tier, seed, "proof", res, t0,
        checker_cmd="astvc: clang AST of model.cpp -> iteration contract on the species loop of Phreeqc::gammas -> sympy (cancel, diff) / z3 5.1",
        trusted_base=["clang 14 AST", "astvc VC generator (vf/astvc)", "sympy 1.14", "z3 5.1", "STL model of std::vector (size/data/operator[])"],
        assumptions=["machine doubles treated as mathematical reals", "sqrt/log10/exp uninterpreted except sqrt(x)^2 = x"],
        explanation="Per-species log gamma and its mu-derivative against the Davies / extended Debye-Hueckel / LLNL B-dot equations; Pitzer, SIT, Gibbs-Duhem and the DH A/B parameters are not decided.")
